# table read by bin/mkmanifest
NOTE = ("Trusted: TLC/SANY, CommunityModules Json/IOUtils, g++/ASan, the driver's faithful logging of arguments and observations "
        "(drivers contain no comparisons), my transcription of the definition into TLA+. Exhaustive only within the constants of the .cfg files; beyond them seeded random traces.")
NOT_YET = {}
CLAIMED = {
 "C03": dict(
  technique="TLA+ spec (Ring.tla, Cyclic.tla) model-checked by TLC; TLC state-graph edge cover replayed on the real rings; recorded traces validated by TLC trace specs",
  text="TLC checks the ring specification (reference FIFO + index arithmetic refinement, accessor laws) over all reachable states for sizes 2..5 (2..8 thorough); every edge of the state graph is replayed on ring_head, ring<char>, ring<int>, and every recorded event (ret, data, fill/free counts, index range, guard bytes) is judged by the trace specification; random scripts cover sizes up to 33 and all byte values.",
  note=NOTE),
 "C01": dict(
  technique="TLA+ spec (Lists.tla: reference cycles + transcribed pointer updates; SHList.tla) model-checked by TLC; state-graph edge cover replayed on real C/C++ dlist, slist, hlist; traces validated by TLC",
  text="TLC checks for all histories over 2 heads x 3 nodes (2-3 heads x 4 nodes thorough), both flavours, that the transcribed four-pointer updates implement the reference list semantics (forward = reference, backward = reverse, neighbours point back, removed cells unreachable, unlinked cells self-linked); every edge of that graph is replayed on the real lists and every observation (iterator traversals both ways, size, empty, is_linked, dlist_in, raw next/prev) is judged by the trace spec; random scripts reach 3 heads x 8 nodes.",
  note=NOTE),
 "C16": dict(
  technique="TLA+ spec (Timers.tla: nondeterministic reference scheduler RefExec + implementation-shaped ImplExec) model-checked by TLC; state-graph edge cover replayed on timer_manager with scripted callbacks; firing sequences validated by TLC",
  text="TLC checks for every reachable scheduler state (2 timers; 3 thorough; callback menu: none/unplan/plan self or other) and every time step that the implementation-shaped exec loop produces a firing sequence the reference accepts (never early, deadline order, nothing due left, catch-up one firing per period) and the same end state; every edge is replayed on igris::timer_manager and each recorded exec (firing order, planned flags, finish times, emptiness, time to next deadline) is judged; stimer check/swift/plan against its due rule.",
  note=NOTE),
 "C04": dict(
  technique="TLA+ spec (Gstuff.tla Encode + transcribed receivers) model-checked by TLC over all short payloads; recorded Encode events of every encoder variant/partition validated by TLC",
  text="TLC checks at specification level that for every payload up to length 3 (4 thorough) over marker/escape/CRC-critical bytes the frame has the stated shape and the receiver automaton returns exactly one packet on the last byte; the real encoders (plain, iovec with every partition, both self-sizing overloads, legacy) run on the same payloads plus random ones up to 300 bytes into exactly sized guarded buffers, and every Encode event (bytes, length, guards, round trip through the real receiver) is judged against Encode(cx,p).",
  note=NOTE),
 "C05": dict(
  technique="TLA+ monitor x receiver-automaton product (GstuffMC.tla) model-checked by TLC for all stream lengths; recorded (byte,status) traces of the real receivers validated by the monitor in TLC",
  text="The history-free product of the transcribed receiver automata (default, coinciding-marker, legacy) with the property monitor (soundness of every delivery, owed deliveries after garbage, overflow reporting, capacity bound) is explored exhaustively for capacities 2-3 (2-5 thorough): byte streams of every length. The real receivers are driven with all short words over the symbol alphabet, valid traffic with garbage prefixes and single truncation/corruption/insertion faults, and noise; each (byte,status,size,content,guards) event is judged by the monitor and compared status-by-status with the automaton model.",
  note=NOTE),
 "C15": dict(
  technique="TLA+ reference editor + VT100 screen model (LineEdit.tla) model-checked by TLC; state-graph edge cover replayed on vterm_automate and vtermxx; every key event validated by TLC (exec lines, signal, accessors, screen reached by the echoed bytes, guards)",
  text="The reference editor (insert/BS/arrows/delete/history/CR-LF pairing/Ctrl-C/unknown escapes) is finite for a given capacity and history depth, so TLC covers key sequences of every length for cap 2-3 x depth 1-2 (cap 2-4 x depth 1-3 thorough) and checks the bounds invariants; every edge is replayed on the C automaton and its C++ twin; TLC interprets the bytes the implementation echoed with a VT100 model and requires the screen to show the reference line and cursor, the execute callback to receive the reference line (NUL terminated), and the guard bytes around line and history buffers to be intact. The sline API (bulk insert, multi-delete, getline) is judged against its reference too.",
  note=NOTE),
 "C10": dict(
  technique="TLA+ heap model (Alloc.tla: break, address-ordered free list, exact/best-fit/split/extend malloc, coalescing free, four-case realloc) model-checked by TLC for the tiling invariant; state-graph edge cover replayed on lin_malloc/lin_realloc; traces validated by a monitor (arena, alignment, disjointness, contents, restored break) and compared address-by-address with the model; pool monitor + LIFO model",
  text="TLC checks over all alloc/free/realloc histories of 3 blocks (4 thorough) x request classes {0,64,128} within a bounded break that live and free chunks always tile [heap start, break) - no overlap, nothing lost, free list ordered and coalesced, all freed => initial break. Every edge is replayed on the real heap, random scripts add sizes around the header/rounding boundaries with LIFO/FIFO/random free order; TLC judges every event with the property monitor and compares the returned address, break and free list with the model (0 drift = the model is the code). Pools (pool_head, igris::pool, static_object_pool) are judged for exact capacity, reuse, free count, cell_is_allocated and guards.",
  note=NOTE),
 "C20": dict(
  technique="TLA+ model of the lock / wait-queue / event / semaphore protocol (SysSync.tla) with every interleaving of small closed programs checked by TLC (safety invariants + no-lost-wakeup liveness under weak fairness); executions of real threads recorded at guarded hook points and validated step by step by the trace specification; ThreadSanitizer run for data races",
  text="TLC enumerates all schedules of 3-4 threads at the granularity of synchronisation operations for five program configurations: mutual exclusion and re-entrancy of the system lock, save/restore, wake order, exactly-one wake, no spurious return, no lost wake-up (liveness), no touch of a waiter's event after the waiter destroyed it (the model rejects the former notify-after-unlock order), safe_queue order. The same effect operators judge hook-recorded executions of random closed programs on real threads with seeded preemption at every hook; data races are observed by ThreadSanitizer.",
  note=NOTE + " Hooks: IGRIS_VERIF_POINT in syslock_mutex.cpp, wait.cpp, wait-linux.cpp, syncxx/event.h, event/safe_queue.h (guard IGRIS_VERIF)."),
 "C17": dict(
  technique="TLA+ definitions of the CRCs as polynomial division over bit sequences (Crc.tla); their laws (chunking, residue, table form = bit-serial form for all 65536 (seed,byte) pairs) checked by TLC; every recorded call of the real routines validated by TLC against the definitions",
  text="The definitions are first model-checked against their own laws over enumerated seeds and messages, then judge the implementation: (seed,byte) pairs of the three 8-bit routines, all messages up to length 3 over {00,01,80,FF} with every split point, random messages of every length 0..255 (quick: 0..70 and boundary lengths) at every alignment with a random split, in right-aligned exactly sized heap blocks under ASan.",
  note=NOTE),
 "C18": dict(
  technique="TLA+ definitions of hexascii / RFC 4648 base64 / fixed-width hex (Codec.tla) whose laws (round trip, lengths, alphabets, RFC test vectors) are checked by TLC over all strings up to length 2 and up to length 5 over critical bytes; recorded calls of every codec entry point validated by TLC against the definitions",
  text="TLC first establishes on ~70k strings that the definitions are inverse pairs with the documented lengths and alphabets and reproduce the RFC 4648 section 10 vectors; then every C and C++ encoder form, the decoders on encoder output, and the 8/16/32/64-bit hex helpers are run on exhaustive short inputs, reduced-alphabet inputs and random strings (exact-size heap inputs, guarded outputs) and each call is judged against the definition.",
  note=NOTE),
 "C07": dict(
  technique="TLA+ definitions of canonical rendering and parsing on byte arrays (NumText.tla, schoolbook arithmetic, no wide integers) whose laws (parse(render)=id in either case, canonical form, stop at terminator) are checked by TLC; recorded calls of every converter validated by TLC",
  text="The definitions are model-checked for round trip, canonical form and stop position over enumerated values x bases; then all igris_*toa / igris_ato*, itoa/utoa/ltoa/ultoa and the debug decimal/hex/binary printers run on all 8-bit values, 16-bit boundary+random (exhaustive in thorough), 32/64-bit boundary patterns and random values in bases 2..36; the whole guarded output window, returned pointer, parsed value and end offset of each call are judged against the definitions.",
  note=NOTE),
 "C11": dict(
  technique="TLA+ definition of ISO C strto* on byte arrays (StrTo.tla) with TLC-checked laws; TLA+ monitors for qsort/bsearch (SortSearch.tla) whose exactness is model-checked against independent definitions over all small arrays; recorded calls validated by TLC",
  text="TLC checks the strto definition's laws over all texts up to length 4 over a 12-character alphabet x bases, and that the qsort/bsearch monitors accept exactly the sorted permutations / right answers over all arrays up to length 4 over 3 keys. The compat strtol/strtoul/strtoll/strtoull/strtoimax/strtoumax/atoi/atol run on texts generated around every base's alphabet edge, the 0x/0 prefixes and each type's overflow boundary; qsort on all arrays up to length 5 over 3 keys and random arrays with element sizes 1..32 (identity-carrying payloads, two comparators, varying pivots); bsearch on sorted arrays including empty ones with logged comparator arguments.",
  note=NOTE),
}
