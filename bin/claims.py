# table read by bin/mkmanifest
NOTE = ("Trusted: TLC/SANY, CommunityModules Json/IOUtils, g++/ASan, the driver's faithful logging of arguments and observations "
        "(drivers contain no comparisons), my transcription of the definition into TLA+. Exhaustive only within the constants of the .cfg files; beyond them seeded random traces.")
NOT_YET = {}
CLAIMED = {
 "C03": dict(
  technique="TLA+ spec (Ring.tla, Cyclic.tla) model-checked by TLC; TLC state-graph edge cover replayed on the real rings; recorded traces validated by TLC trace specs",
  text="TLC checks the ring specification (reference FIFO + index arithmetic refinement, accessor laws) over all reachable states for sizes 2..5 (2..8 thorough); every edge of the state graph is replayed on ring_head, ring<char>, ring<int>, and every recorded event (ret, data, fill/free counts, index range, guard bytes) is judged by the trace specification; random scripts cover sizes up to 33 and all byte values.",
  note=NOTE),
}
