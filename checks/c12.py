"""C12 - float <-> text.  Spec DecFloat.tla (exact rational comparison of m*2^e with decimal text on base-10^4 limbs; literal grammar),
laws DecFloatMC.tla, trace spec FloatTrace.tla, driver drv_float.cpp"""
import json, os, struct, itertools
from vlib import core


def build(ctx, alt=False):
    R = core.REPO
    sfx = "_alt" if alt else ""
    o = os.path.join(ctx.work, "strtod%s.o" % sfx)
    ctx.sh(["gcc", "-std=c11", "-D_POSIX_C_SOURCE=200809L", "-g"] + core.opt_flags(alt) + core.cov_flags() + ["-fsanitize=address", "-fno-omit-frame-pointer", "-fno-builtin", "-w", "-I" + R,
            "-include", os.path.join(core.HARNESS, "rename_strtod.h"), "-c", os.path.join(R, "compat/libc/stdlib/strtod.c"), "-o", o], timeout=300)
    o2 = os.path.join(ctx.work, "strtod32%s.o" % sfx)   # the build for targets without binary64 parsing
    ctx.sh(["gcc", "-std=c11", "-D_POSIX_C_SOURCE=200809L", "-g"] + core.opt_flags(alt) + core.cov_flags() + ["-fsanitize=address", "-fno-omit-frame-pointer", "-fno-builtin", "-w", "-I" + R, "-DWITHOUT_ATOF64",
            "-include", "stdlib.h", "-Dstrtod=igv32_strtod", "-Datof=igv32_atof", "-c", os.path.join(R, "compat/libc/stdlib/strtod.c"), "-o", o2], timeout=300)
    return ctx.cxx("drv_float" + sfx, ["drv_float.cpp", R + "/igris/util/numconvert.c", R + "/igris/dprint/dprint_func_impl.c"], flags=["-fno-access-control"], objs=[o, o2], alt=alt)


def f32bits(x):
    return struct.unpack("<I", struct.pack("<f", x))[0]


def f64bits(x):
    return struct.unpack("<Q", struct.pack("<d", x))[0]


def fmt(bs):
    return ",".join(str(b) for b in bs) if bs else "-"


def float_patterns(rng, n_random, thorough):
    pats = set()
    def add(b):
        b &= 0xffffffff
        for d in (-2, -1, 0, 1, 2):
            pats.add((b + d) & 0xffffffff)
    for x in [0.0, 1.0, 0.5, 0.1, 0.25, 0.125, 0.05, 0.005, 0.0005, 0.9, 0.99, 0.999, 0.9999, 0.99999, 0.999999, 0.9999999, 9.5, 99.5, 999.5, 9.95, 9.995, 99.95, 1.5, 2.5, 0.15, 0.25, 0.35,
              42.0, 1234.5678, 1e-3, 1e-5, 1e-7, 1e-10, 1e-20, 1e-38, 1e-45, 16777216.0, 2147483520.0, 2147483648.0, 4294967296.0, 1e9, 1e10, 1e19, 1e20, 1e38, 3.4028234e38]:
        add(f32bits(x)); add(f32bits(-x))
    for k in range(-12, 11):
        add(f32bits(10.0 ** k)); add(f32bits(-(10.0 ** k)))
        for j in (1, 2, 5, 9):   # ties and near-ties at the rounding digit
            add(f32bits(j * 10.0 ** k + 5 * 10.0 ** (k - 1)))
    for e in range(-150, 129, 1 if thorough else 7):
        add(f32bits(2.0 ** e) if -150 < e < 128 else 0)
    for b in (0x7f800000, 0xff800000, 0x7fc00000, 0xffc00000, 0x7f800001, 0x00000001, 0x007fffff, 0x00800000, 0x7f7fffff, 0x80000000):
        pats.add(b)
    for _ in range(n_random):
        r = rng.random()
        if r < 0.7:   # the supported range, biased to small exponents
            e = rng.randrange(127 - 30, 127 + 31); pats.add((rng.randrange(2) << 31) | (e << 23) | rng.getrandbits(23))
        elif r < 0.85:
            pats.add(rng.getrandbits(32))
        else:         # few significant bits
            e = rng.randrange(127 - 20, 127 + 31); pats.add((rng.randrange(2) << 31) | (e << 23) | (rng.getrandbits(6) << 17))
    return sorted(pats)


def literals(rng, n_random, thorough):
    out = []
    alpha = "+-059.eE"
    for n in range(0, 6 if thorough else 5):
        for t in itertools.product(alpha, repeat=n):
            out.append("".join(t))
    tails = ["", "", "", "x", " ", "e", "e+", "E-", ".", "..", "e5x", "f", "-", "+1"]
    def digs(k, lead_nonzero=False):
        s = "".join(rng.choice("0123456789") for _ in range(k))
        return s
    for _ in range(n_random):
        sign = rng.choice(["", "", "-", "+"])
        ip = digs(rng.choice([0, 1, 1, 2, 3, 5, 9, 10, 15, 16, 17, 19, 20, 25, 40]))
        fp = rng.choice(["", ".", "." + digs(rng.choice([1, 2, 3, 6, 9, 15, 17, 20, 30])), "." + "0" * rng.randrange(1, 12) + digs(rng.randrange(1, 8))])
        if not ip and len(fp) < 2: ip = digs(1)
        r = rng.random()
        if r < 0.4: ex = ""
        elif r < 0.85: ex = rng.choice("eE") + rng.choice(["", "+", "-"]) + str(rng.randrange(0, 40))
        elif r < 0.95: ex = rng.choice("eE") + rng.choice(["", "+", "-"]) + str(rng.randrange(280, 345))
        else: ex = rng.choice("eE") + rng.choice(["", "+", "-"]) + rng.choice(["0", "00", "007", "999", "4000", "12345"])
        out.append(sign + ip + fp + ex + rng.choice(tails))
    # literals longer than 255 / 1000 characters (digit counters that do not fit a byte)
    out += ["1" + "0" * 300, "1" + "0" * 310, "0." + "0" * 300 + "123", "0." + "0" * 330 + "5", "123456789" * 40 + "e-300", "9" * 1000 + "e-980",
            "0" * 300 + "1.5", "1." + "3" * 700, "-" + "7" * 260 + "." + "1" * 260 + "e-250x", "1e" + "0" * 300 + "5", "5e-" + "0" * 280 + "3"]
    # a written exponent cancelled by leading / trailing zeros of the mantissa: the value is ordinary although the exponent field alone is
    # far outside every format (400, 5000, 100003 zeros: exponent accumulators and digit counters of 3, 4, 5 and 6 decimal digits)
    for z in (400, 5000, 100003):
        out += ["0." + "0" * z + "1234e%d" % z, "25" + "0" * z + "e-%d" % z, "-0." + "0" * z + "5e+%d" % (z + 1), "1" + "0" * z + "." + "0" * 7 + "e-%d" % (z - 2),
                "0." + "0" * z + "1234e%d" % (z - 30), "7" * min(z, 800) + "e-%d" % (min(z, 800) - 10)]
    # exponent fields near INT_MAX, UINT_MAX and beyond combined with long fractions / integer parts (the sum of the written exponent and the
    # shift implied by the mantissa must not wrap): the value is 0 or infinite
    for ex in (2147483629, 2147483633, 2147483639, 2147483647, 2147483648, 4294967295, 4294967296, 999999999, 1000000000, 99999999999):
        out += ["0.1234567890123456e-%d" % ex, "-0.0000000000000001e-%d" % ex, "1" * 30 + "e%d" % ex, "9" * 45 + ".5e+%d" % ex, "1e-%d" % ex, "1e%d" % ex]
    # digit strings at the capacity of 64-, 63-, 53- and 32-bit accumulators (and one tenth of it), with the decimal point at
    # every position, every following digit, with and without exponent
    for base in (2 ** 64 - 1, 2 ** 64, (2 ** 64 - 1) // 10, 2 ** 63 - 1, 2 ** 63, (2 ** 63 - 1) // 10, 2 ** 53, 2 ** 53 + 1, 2 ** 32 - 1, (2 ** 32 - 1) // 10, 10 ** 19 - 1, 10 ** 18):
        sdig = str(base)
        for d in "0569":
            full = sdig + d
            for pos in (0, 1, len(full) // 2, len(full) - 2, len(full) - 1, len(full)):
                lit = full[:pos] + "." + full[pos:]
                out.append(lit); 
                if rng.random() < 0.3: out.append("-" + lit + "e" + str(rng.randrange(-30, 30)))
        out.append(sdig); out.append(sdig + "e-5")
    out += ["1.7976931348623157e308", "1.7976931348623159e308", "1.8e308", "2.2250738585072014e-308", "4.9406564584124654e-324", "2.4703282292062327e-324", "2.48e-324", "1e-400", "1e400",
            "3.4028234e38", "3.4028236e38", "1.17549435e-38", "1.4e-45", "0.7e-45", "1e-50", "307582293.333333", "0.1", "0.2", "0.3", "123456789012345678", "9007199254740993", "9007199254740992.5",
            "0e5", "0.0e-5", "-0", "-0.0", "000001", "1e0", "1e-0", "1e+0", "0000.00001e5"]
    return out


def check(ctx):
    drv = build(ctx)
    r = ctx.tlc("DecFloatMC", "DecFloatMC.cfg", workers=8, coverage=False)
    if not r.ok:
        ctx.model_violation(r, "decimal / binary arithmetic and literal grammar laws")
    rng = ctx.rng
    script = ["R"]
    pats = float_patterns(rng, 20000 if ctx.thorough else 700, ctx.thorough)
    nrender = 0
    for i, b in enumerate(pats):
        precs = range(-1, 13) if ((ctx.thorough and i % 40 == 0) or (not ctx.thorough and i % 5 == 0)) else [rng.randrange(-1, 13), rng.choice([0, 1, 10])]
        for p in precs:
            script.append("F32 %d %d" % (b, p)); nrender += 1
        if i % 400 == 399: script.append("R")
    script.append("R")
    # doubles: the float patterns widened (exactly representable), plus doubles between floats
    for i, b in enumerate(pats):
        x = struct.unpack("<f", struct.pack("<I", b))[0]
        for d in (x, x * (1 + 2.0 ** -30), x * (1 - 2.0 ** -40)):
            if d != d or d in (float("inf"), float("-inf")):
                q = f64bits(d)
            else:
                q = f64bits(d)
            p = rng.randrange(-1, 13)
            script.append("F64 %d %d %d %s" % (q >> 32, q & 0xffffffff, p, rng.choice(["f64toa", "ftoa"]))); nrender += 1
            if not ctx.thorough or i % 10: break
        if i % 400 == 399: script.append("R")
    # the debug printers (igris/dprint): supported magnitudes below 2^64, precisions 0..10
    script.append("R")
    for i, b in enumerate(pats):
        x = struct.unpack("<f", struct.pack("<I", b))[0]
        if x == x and abs(x) >= 1.8e19 and abs(x) != float("inf"): continue
        for d in ((x, "dprint_float"), (x * (1 + 2.0 ** -30), "dprint_double"), (float(int(x)) + 0.5 if abs(x) < 1e15 else x, "dprint_double")):
            q = f64bits(d[0])
            script.append("Dpr %d %d %d %s" % (q >> 32, q & 0xffffffff, rng.randrange(0, 11), d[1])); nrender += 1
            if rng.random() < 0.25:    # the same print through a sink that itself prints numbers after every character
                script.append("Dprn" + script[-1][3:]); nrender += 1
            if not ctx.thorough and i % 3: break
        if i % 400 == 399: script.append("R")
    for x in (0.999, 0.9999999999, 1.999, 9.995, 0.5, 1.5, 2.5, 0.05, 1.0, 100.0, 0.0, -0.0, 1.005, 123456789.987654321, 18446744073709549568.0, float("inf"), float("-inf"), float("nan")):
        q = f64bits(x)
        for p in range(0, 11):
            script.append("Dpr %d %d %d dprint_double" % (q >> 32, q & 0xffffffff, p)); nrender += 1
    # doubles around the boundaries of the integer types (2^k, k = 24..70; 10^k, k = 6..22; +-1 ulp and a point in between) with the
    # precisions 0, 1 and automatic, both signs: magnitudes where a conversion through a fixed-width integer stops being possible
    script.append("R")
    import math
    mags = []
    for k in range(24, 71): mags += [2.0 ** k, math.nextafter(2.0 ** k, 0.0), math.nextafter(2.0 ** k, math.inf), 1.37 * 2.0 ** k]
    for k in range(6, 23): mags += [10.0 ** k, math.nextafter(10.0 ** k, 0.0), 0.93 * 10.0 ** k]
    for j, m_ in enumerate(mags):
        for p in (0, 1, -1) if (ctx.thorough or j % 2 == 0) else (0,):
            q = f64bits(m_ if j % 3 else -m_)
            script.append("F64 %d %d %d %s" % (q >> 32, q & 0xffffffff, p, "f64toa" if j % 5 else "ftoa")); nrender += 1
    script.append("R")
    for x in (1e300, -1e300, 1e39, 5e-324, 2.0 ** 31, 2.0 ** 31 - 0.5, 2147483647.999, float("inf"), float("-inf"), float("nan")):
        q = f64bits(x)
        for p in (-1, 0, 5, 10, 12):
            script.append("F64 %d %d %d f64toa" % (q >> 32, q & 0xffffffff, p))
    script.append("R")
    lits = literals(rng, 12000 if ctx.thorough else 1500, ctx.thorough)
    fns = ["atof32", "atof64", "igris_strtod", "strtod", "atof", "binreader", "strtod_nof64", "atof_nof64"]
    for i, t in enumerate(lits):
        bs = list(t.encode())
        for fn in (fns if (ctx.thorough or i % 7 == 0) else [fns[i % 8], "atof64" if i % 2 else "atof32"]):
            script.append("Parse %s %s %d" % (fn, fmt(bs), 0 if fn in ("atof", "atof_nof64") else (1 if rng.random() < 0.9 else 0)))
        if i % 300 == 299: script.append("R")
    ctx.extra["render_calls"] = nrender; ctx.extra["literals"] = len(lits); ctx.extra["float_patterns"] = len(pats)
    t = ctx.drive(drv, script, "float")
    traces = [t]
    if ctx.thorough:
        # every binary32 pattern x every precision -1..12 goes through igris_f32toa; a native pre-filter (drv_float.cpp,
        # suspect32) selects what is logged: every call it suspects plus every 300007th call; TLC judges the logged calls
        sweep = []
        for k in sorted(range(256), key=lambda k: (k % 16, k)):   # interleaved: every driver process gets small and large exponents
            sweep += ["R", "Sweep32 %s %d %d 300007" % (",".join(str(p) for p in range(-1, 13)), k << 24, (k + 1) << 24)]
        ts = ctx.drive(drv, sweep, "sweep32", timeout=3000, env={"VERIF_OP_TIMEOUT": "1800"}, par=16, lines_per_proc=1)
        calls = 0; suspects = 0
        for line in open(ts):
            if line.startswith('{"e":"SweepDone"'):
                e = json.loads(line); calls += e["calls_m"] * 1000000 + e["calls_lo"]; suspects += e["suspects"]
        ctx.extra["binary32_sweep_calls"] = calls; ctx.extra["binary32_sweep_prefilter_suspects"] = suspects
        core.log("sweep32: %d calls, %d selected by the pre-filter" % (calls, suspects))
        traces.append(ts)
    bad = ctx.judge("FloatTrace", traces, timeout=3000)
    for b in bad:
        b["driver"] = "drv_float"
    # the second build configuration (size-optimised, plain char unsigned) on part of the executions
    ta = ctx.drive(build(ctx, alt=True), core.subset_executions(script, ctx.seed, 0.5 if ctx.thorough else 0.25), "float_alt")
    bada = ctx.judge("FloatTrace", [ta], timeout=3000)
    for b in bada: b["driver"] = "drv_float@alt"
    bad += bada
    ctx.report(bad)
    ctx.assumptions += [
        "supported magnitude range of the renderer: every argument that is finite as a binary32 value (doubles beyond FLT_MAX become inf in the float renderer: for them only the universal clauses are judged - no non-numeric character, no write beyond the terminator, inf tokens allowed)",
        "binary representation error of the renderer: %d ulps of the binary32 value it computes on; parsing: %d ulps of the returned value ('a few')" % (4, 8),
        "the harness decomposes floats into sign, integer significand and exponent (bit fields) and casts double to float for the f64 entry points; everything else - decimal value of the text, scaling, comparison, the literal grammar - is evaluated by TLC from DecFloat.tla",
        "the 64-byte output buffer is an exactly sized heap block (ASan), prefilled so that the last written index is observable",
        "leading white space (which strtod skips) is not part of the property's grammar and is not generated",
    ]
    return ctx.finish(rule="every recorded render / parse call judged by DecFloat.tla: well-formed decimal with the requested fraction digits, |text - x| <= 1 unit of the last digit + 4 ulp32, inf/nan tokens, nothing written past the terminator; parse: end offset of the longest literal prefix and |result - literal| <= 8 ulps, overflow to inf / underflow to zero")


def value_of(e, pfx):
    import math
    cls = e[pfx + "cls"]; neg = e[pfx + "neg"]
    if cls == "nan": return float("nan")
    if cls == "inf": return float("-inf") if neg else float("inf")
    m = sum(l * 10000 ** i for i, l in enumerate(e[pfx + "m"]))
    v = math.ldexp(float(m), e[pfx + "e"])
    return math.copysign(v, -1.0) if neg else v


def line_of(e):
    if e["e"] == "Parse":
        return "Parse %s %s %d" % (e["fn"], fmt(e["text"]), 0 if e["end"] == -1 else 1)
    if e["fn"].startswith("dprint"):
        q = f64bits(value_of(e, "x_"))
        return "%s %d %d %d %s" % ("Dprn" if e.get("nested") else "Dpr", q >> 32, q & 0xffffffff, e["prec"], e["fn"])
    if e["fn"] == "f32toa":
        return "F32 %d %d" % (f32bits(value_of(e, "x_")), e["prec"])
    q = f64bits(value_of(e, "x_"))
    return "F64 %d %d %d %s" % (q >> 32, q & 0xffffffff, e["prec"], e["fn"])


def replay(ctx, path):
    d = json.load(open(path))
    drv = build(ctx, alt=core.is_alt(d))
    if d["event"].get("e") == "Fault":
        return core.replay_fault(ctx, d, drv, "FloatTrace", path)
    t = ctx.drive(drv, ["R", line_of(d["event"])], "replay")
    ctx.report(ctx.judge("FloatTrace", [t]))
    return ctx.finish(rule="replay of " + path)
