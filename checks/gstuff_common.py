"""shared by C04 and C05: gstuff driver build + stream generators"""
from vlib import core

CTX = {"default": dict(START=168, STOP=178, STUB=197, SSTART=138, SSTOP=43, SSTUB=92),
       "v0": dict(START=172, STOP=172, STUB=173, SSTART=174, SSTOP=174, SSTUB=175)}
CTX["legacy"] = CTX["v0"]
NAMES = ["default", "v0", "legacy"]


KEYS = ["START", "STOP", "STUB", "SSTART", "SSTOP", "SSTUB"]


def cx_of(name):
    """the context of a receiver name: a shipped one or "cx:START:STOP:STUB:SSTART:SSTOP:SSTUB" (any configured context)"""
    if name.startswith("cx:"):
        return dict(zip(KEYS, [int(x) for x in name[3:].split(":")]))
    return CTX[name]


def random_context(rng):
    """a context inside the domain of the property (Gstuff.tla ValidCx): escape codes differ from the markers; bytes drawn from both
    halves of the byte range, boundary values preferred (0, 1, 0x7F, 0x80, 0xFF: the context fields are plain char)"""
    pool = [0, 1, 2, 10, 13, 27, 0x7D, 0x7E, 0x7F, 0x80, 0x81, 0xC0, 0xDB, 0xFE, 0xFF]
    def pick(avoid):
        while True:
            b = rng.choice(pool) if rng.random() < 0.7 else rng.randrange(256)
            if b not in avoid: return b
    start = pick([]); stop = start if rng.random() < 0.35 else pick([start])
    stub = pick([start, stop])
    sstart = pick([start, stop]); sstop = sstart if stop == start else pick([start, stop, sstart])
    sstub = pick([start, stop, sstart, sstop])
    # escape codes that repeat the escape byte itself (DLE doubling: STUB STUB stands for STUB) are inside the domain as well
    if rng.random() < 0.3:
        which = rng.randrange(3)
        if which == 0: sstub = stub
        elif which == 1 and stop != start and sstop != stub: sstart = stub
        elif which == 2 and stop != start and sstart != stub: sstop = stub
        if len({sstart, sstop, sstub}) < (3 if stop != start else 2): return random_context(rng)
    return "cx:" + ":".join(str(x) for x in (start, stop, stub, sstart, sstop, sstub))


def build(ctx, alt=False):
    R = core.REPO
    return ctx.cxx("drv_gstuff" + ("_alt" if alt else ""), ["drv_gstuff.cpp", "drv_gstuff_v1.c", R + "/igris/protocols/gstuff.cpp",
                                  R + "/igris/protocols/gstuff_v1/gstuff.c", R + "/igris/protocols/gstuff_v1/autorecv.c"], alt=alt)


def fmt(v):
    return ",".join(str(x) for x in v) if v else "-"


# input generation only (the trace specification is the judge): a byte-exact encoder to build valid traffic
def crc8(data):
    c = 0xFF
    for b in data:
        c ^= b
        for _ in range(8):
            c = ((c << 1) ^ 0x31) & 0xFF if c & 0x80 else (c << 1) & 0xFF
    return c


def esc(cx, b):
    if b == cx["START"]: return [cx["STUB"], cx["SSTART"]]
    if b == cx["STUB"]: return [cx["STUB"], cx["SSTUB"]]
    if b == cx["STOP"]: return [cx["STUB"], cx["SSTOP"]]
    return [b]


def frame(name, p):
    cx = cx_of(name)
    out = [cx["START"]]
    for b in p: out += esc(cx, b)
    out += esc(cx, crc8(p))
    out.append(cx["STOP"])
    return out


CONTROL = [0, 8, 9, 10, 13, 27, 32, 127, 255]


def control_tail_payloads(rng):
    """payloads whose last byte and whose CRC-8 are both bytes that mean something to a line buffer or a terminal (CR, LF, BS, DEL, ESC,
    NUL, ...): every such pair, reached by choosing the byte in front (the receiver keeps payload + CRC in an sline)"""
    out = []
    for last in CONTROL:
        for want in CONTROL:
            pre = [rng.randrange(256) for _ in range(rng.choice([0, 1, 3]))]
            for x in range(256):
                if crc8(pre + [x, last]) == want:
                    out.append(pre + [x, last]); break
    return out


def special_bytes(name):
    return sorted(set(cx_of(name).values()))


def rand_payload(rng, name, maxlen):
    n = rng.randrange(0, maxlen + 1)
    sp = special_bytes(name)
    return [rng.choice(sp) if rng.random() < 0.3 else rng.randrange(256) for _ in range(n)]
