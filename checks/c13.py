"""C13 - printf engine, floating conversions.  Spec PrintfFloat.tla (shape per ISO C + exact-rational accuracy from DecFloat.tla),
trace spec PrintfFloatTrace.tla, driver drv_printf.cpp (Pd op)"""
import json, os, struct, itertools
from vlib import core
from checks import c06


def fmt(v):
    return ",".join(str(x) for x in v) if v else "-"


def dbits(x):
    return list(struct.pack("<d", x))


def doubles(rng, n_random):
    out = []
    base = [0.0, -0.0, 1.0, -1.0, 0.5, 1.5, 2.5, 0.125, 0.375, 0.1, 0.2, 0.3, 42.25, 3.14159265358979, 2.718281828, 1e-5, 9.9995, 0.9999995, 99999.95, 999999.5, 9.5, 0.95, 0.0001, 0.00009999, 0.000123456,
            123456.0, 1234567.0, 999999.0, 1e5, 1e6, 1e15, 1e16, 1e17, 9007199254740992.0, 9007199254740993.0, 1e21, 1e22, 1e23, 1e63, 1e64, 1e65, 1e100, 1e300, 1.7976931348623157e308,
            1e-7, 1e-10, 1e-100, 1e-300, 2.2250738585072014e-308, 5e-324, 1e-323, 4.9406564584124654e-324, float("inf"), float("-inf"), float("nan"), 0.05, 0.005, 0.0005, 0.15, 0.25, 0.35, 0.45,
            5e-5, 0.5e-6, 4.5, 8.5, 1e-4, 9.999e-5, 100.0, 10.0, 0.01]
    for x in base:
        out.append(x)
        if x == x and abs(x) != float("inf"):
            out.append(-x)
    for k in range(-30, 31):
        out.append(10.0 ** k); out.append(2.0 ** k); out.append(5 * 10.0 ** k)
    for k in range(-1074, 1024, 3):      # powers of two over the whole exponent range (decimal exponent estimates on either side)
        out.append(2.0 ** k if k > -1023 else 5e-324 * 2.0 ** (k + 1074))
    for k in range(-320, 309, 7):
        out.append(float("1e%d" % k)); out.append(float("9.95e%d" % k))
    for _ in range(n_random):
        r = rng.random()
        if r < 0.5:
            out.append(struct.unpack("<d", struct.pack("<Q", (rng.randrange(2) << 63) | (rng.randrange(1023 - 40, 1023 + 70) << 52) | rng.getrandbits(52)))[0])
        elif r < 0.7:
            out.append(struct.unpack("<d", struct.pack("<Q", rng.getrandbits(64)))[0])
        elif r < 0.85:   # decimal-looking values and ties
            out.append(rng.randrange(0, 100000) / rng.choice([1, 2, 4, 8, 10, 100, 1000, 16, 1024]))
        else:
            out.append(rng.randrange(1, 1000) * 10.0 ** rng.randrange(-12, 20))
    return out


def limb_cases():
    """values whose scaled integer |x| * 10^s lies just below a power of two (word boundaries of multi-word
    digit generators) with the deciding digit on either side of the rounding point"""
    from fractions import Fraction
    out = []
    for k in (8, 16, 24, 31, 32, 33, 40, 48):
        for d in (Fraction(1, 4), Fraction(1, 2), Fraction(3, 4), Fraction(5, 4), Fraction(1, 1)):
            target = Fraction(2 ** k) - d
            for p in range(0, 18):
                out.append(("%%.%df" % p, float(target / 10 ** p)))
            q = len(str(2 ** k)) - 1
            for j in (-7, 0, 9):
                x = float(target * Fraction(10) ** j)
                out.append(("%%.%de" % q, x)); out.append(("%%.%dg" % (q + 1), x)); out.append(("%%.%dE" % q, -x))
    # values whose scaled integer lies just ABOVE a multiple of 2^32 / 2^64 / 2^96 (a zero word in the middle of a multi-word
    # integer) with the deciding digit on either side of the rounding point
    import random as _r
    rr = _r.Random(12345)
    for K in (32, 64, 96):
        for a in (1, 2, 5, 3 * 2 ** 7):
            for _ in range(6):
                target = Fraction(2 ** K * a) + rr.randrange(0, 2 ** 31) + rr.choice([Fraction(1, 4), Fraction(1, 2), Fraction(3, 4), Fraction(9, 10)])
                digits = len(str(int(target)))
                for p in (digits - 5, digits - 1, 15, 17):
                    if 0 <= p <= 30:
                        out.append(("%%.%df" % p, float(target / 10 ** p)))
                q = digits - 1
                if q <= 38:
                    out.append(("%%.%de" % q, float(target * Fraction(10) ** rr.choice([-9, 0, 7])))); out.append(("%%.%dg" % (q + 1), float(target)))
    return out


def check(ctx):
    drv = c06.build(ctx)
    r = ctx.tlc("PrintfFloatMC", "PrintfFloatMCthorough.cfg" if ctx.thorough else "PrintfFloatMC.cfg", workers=16, coverage=False, xmx="8g", timeout=3000)
    if not r.ok:
        ctx.model_violation(r, "judge self-test: ISO reference renderings accepted, neighbours rejected")
    rng = ctx.rng
    flagsets = [""] + ["".join(c) for n in range(1, 6) for c in itertools.combinations("-+ #0", n)]
    widths = ["", "", "1", "8", "14", "30", "*"]
    script = ["R"]
    ds = doubles(rng, 150000 if ctx.thorough else 3000)
    n = 0
    for i, x in enumerate(ds):
        convs = "fFeEgG" if i < 300 else rng.sample("fFeEgG", 2)
        for cv in convs:
            for _ in range(2):
                fl = rng.choice(flagsets) if rng.random() < 0.6 else ""
                fl = "".join(rng.sample(fl, len(fl)))          # flags in any order
                wd = rng.choice(widths)
                r = rng.random()
                pr = "" if r < 0.15 else ("." if r < 0.2 else (".*" if r < 0.3 else "." + str(rng.randrange(0, 18))))
                ln = rng.choice(["", "", "l"])
                f = "%" + fl + wd + pr + ln + cv
                ws = str(rng.choice([0, 3, 9, 20, -9, -20])) if wd == "*" else "n"
                ps = str(rng.choice([0, 1, 3, 6, 12, 17, -1])) if pr == ".*" else "n"
                script.append("Pd %s %s %s %s" % (fmt([ord(c) for c in f]), ws, ps, fmt(dbits(x)))); n += 1
        if i % 100 == 99: script.append("R")
    script.append("R")
    for (f, x) in limb_cases():
        script.append("Pd %s n n %s" % (fmt([ord(c) for c in f]), fmt(dbits(x)))); n += 1
    # the domain of the judge self-test (PrintfFloatMC: small dyadic values x conversions x precisions x flag sets x widths),
    # executed on the implementation: a tenth of it in the quick tier, all of it in the thorough tier
    cfgname = "PrintfFloatMCthorough.cfg" if ctx.thorough else "PrintfFloatMC.cfg"
    cfgtxt = open(os.path.join(core.SPECS, cfgname)).read()
    def cset(name):
        import re
        return [int(x) for x in re.search(name + r"\s*=\s*\{([^}]*)\}", cfgtxt).group(1).split(",")]
    mc_flagsets = ["", "-", "0", "+", " ", "#", "-0", "#+", " 0#"]          # FlagSets of PrintfFloatMC.tla
    script.append("R"); k_ = 0
    for m in cset("Ms"):
        for k in cset("Ks"):
            for neg in (0, 1):
                x = (-1.0 if neg else 1.0) * m / 2.0 ** k
                for cv in "fegEG":
                    for p in cset("Precs"):
                        for fl in mc_flagsets:
                            for w in cset("Widths"):
                                k_ += 1
                                if not ctx.thorough and k_ % 10: continue
                                f = "%" + fl + (str(w) if w else "") + "." + str(p) + cv
                                script.append("Pd %s n n %s" % (fmt([ord(c) for c in f]), fmt(dbits(x)))); n += 1
                                if n % 3000 == 0: script.append("R")
    # memory safety beyond the quantified precisions: large precisions and widths
    script.append("R")
    for x in (1e300, 1.7976931348623157e308, 5e-324, 1e-300, 0.1, 1.0 / 3, 123456789.123456789, float("inf"), float("nan")):
        for f in ("%.40f", "%.80f", "%.100e", "%.60g", "%#.70g", "%200.50f", "%-120.30e", "%0100f"):
            script.append("Pd %s n n %s" % (fmt([ord(c) for c in f]), fmt(dbits(x)))); n += 1
        script.append("R")
    # large values x large precisions x widths beyond the text x every conversion and flag: %g in plain style with dozens of integer
    # digits (trailing integer zeros), %f / %e of the same values; padding must still make exactly the requested width
    script.append("R")
    for x in (1e41, 1.5e45, 2.0 ** 150, 1e60, 3e99, 1e100, 1.7976931348623157e308, 2.0 ** 200 + 2.0 ** 180):
        for cv in "gGfeE":
            for p in (42, 50, 70, 100, 120, 310):
                if cv in "gG" and p < 308 and 10.0 ** p <= x: continue       # exponent style there (covered elsewhere)
                for w in (50, 60, 80, 130, 330):
                    for fl in ("", "#", "-", "0", "+", " #", "-#"):
                        if ctx.rng.random() < (1.0 if ctx.thorough else 0.12):
                            f = "%" + fl + str(w) + "." + str(p) + cv
                            script.append("Pd %s n n %s" % (fmt([ord(c) for c in f]), fmt(dbits(x)))); n += 1
    # widths and precisions around and beyond the 8-bit boundary
    script.append("R")
    for x in (0.0, 1.5, -2.25, 1e100, 123456.789, 5e-324):
        for f in ("%255f", "%256.3f", "%-257e", "%0300g", "%1000.2f", "%.255f", "%.256e", "%.300g", "%#.257g", "%300.299f"):
            script.append("Pd %s n n %s" % (fmt([ord(c) for c in f]), fmt(dbits(x)))); n += 1
    ctx.extra["calls"] = n
    # re-entrant use: a sample of the calls once more with an output callback that itself formats through the engine
    script = [x for ln in script for x in ([ln, "Pdn" + ln[2:]] if ln.startswith("Pd ") and ctx.rng.random() < 0.08 else [ln])]
    t = ctx.drive(drv, script, "pfloat")
    bad = ctx.judge("PrintfFloatTrace", [t])
    for b in bad: b["driver"] = "drv_printf"
    # the second build configuration (size-optimised, plain char unsigned) on part of the executions
    ta = ctx.drive(c06.build(ctx, alt=True), core.subset_executions(script, ctx.seed, 1.0 if ctx.thorough else 0.25), "pfloat_alt")
    bada = ctx.judge("PrintfFloatTrace", [ta], shards=16)
    for b in bada: b["driver"] = "drv_printf@alt"
    bad += bada
    ctx.report(bad)
    ctx.assumptions += [
        "one floating directive per call; double arguments (with and without the l modifier); long double (L) is not generated",
        "accuracy: the exact decimal value of the text within half a unit of its last digit position of the argument's exact value, plus 4 ulps of the argument; ties therefore either way",
        "for inf and nan the statement requires termination, memory safety and return value = number of characters; nothing else is judged",
        "termination: every call runs under the driver's 2 s alarm; memory safety: ASan (stack and heap), the callback only appends to a vector",
    ]
    return ctx.finish(rule="every recorded %f/%e/%g call judged by PrintfFloat.tla: padding/sign/flags as for integers, ISO shape for the directive, exact decimal value of the text within half a unit of the last digit (+4 ulps) of the argument, return value = characters emitted")


def replay(ctx, path):
    d = json.load(open(path))
    drv = c06.build(ctx, alt=core.is_alt(d))
    e = d["event"]
    if e.get("e") == "Fault":
        return core.replay_fault(ctx, d, drv, "PrintfFloatTrace", path)
    line = ("Pdn" if e.get("nested") else "Pd") + " %s %s %s %s" % (fmt(e["fmt"]), "n" if e["ws"] == -9999 else e["ws"], "n" if e["ps"] == -9999 else e["ps"], fmt(e["dbl"]))
    t = ctx.drive(drv, ["R", line], "replay")
    ctx.report(ctx.judge("PrintfFloatTrace", [t]))
    return ctx.finish(rule="replay of " + path)
