"""scripts for the associative containers (part of C02)"""
from vlib import core


def label_to_line(lab):
    name, args = core.parse_label(lab)
    return " ".join([name] + [str(a) for a in args]) if args else name + " 0"


def scripts(ctx):
    r, g = ctx.tlc_graph("Assoc", "AssocMC.cfg", workers=4)
    walks, ncov, total = core.edge_cover_walks(g, ctx.rng, max_len=200)
    ctx.extra["assoc_edges_total"] = total; ctx.extra["assoc_edges_replayed"] = ncov
    out = []
    for i, w in enumerate(walks):
        for impl in (("flat", "std") if ctx.thorough else (["flat", "std"][i % 2],)):
            out.append("R %s" % impl)
            out += [label_to_line(lab) for (lab, s, d) in w]
    rng = ctx.rng
    ops = ["MIndex", "MSet", "MAt", "MFind", "MCount", "MInsert", "MEmplace", "MClear", "SInsert", "SCount", "SClear"]
    for i in range(400 if ctx.thorough else 100):
        out.append("R %s" % ["flat", "std"][i % 2])
        for _ in range(60):
            o = rng.choice(ops if rng.random() < 0.9 else ["MClear", "SClear"])
            out.append("%s %d %d" % (o, rng.randrange(-3, 12), rng.randrange(0, 100)))
    return out
