"""C05 - gstuff receiver on arbitrary streams.  Spec Gstuff.tla (monitor + automata), GstuffMC.tla (exhaustive product)."""
import json, itertools
from vlib import core
from checks import gstuff_common as gc


def streams(ctx):
    rng = ctx.rng
    lines = []
    thorough = ctx.thorough
    # (a) exhaustive short words over the symbol alphabet, small capacities
    for name in gc.NAMES:
        sp = gc.special_bytes(name)
        alpha = sp + [0, 97]
        maxlen = 5 if thorough else 4
        for cap in ([2, 3, 4] if thorough else [2, 3]):
            words = []
            for n in range(1, maxlen + 1):
                for w in itertools.product(alpha, repeat=n):
                    words.append(w)
            rng.shuffle(words)
            words = words[: (40000 if thorough else 6000)]
            # pack many words into one execution, separated by nothing (continuous stream)
            for i in range(0, len(words), 50):
                lines.append("R %s %d" % (name, cap))
                for w in words[i:i + 50]:
                    lines.append("Feed " + gc.fmt(w))
    # (b) valid traffic with garbage prefixes and single faults at every position
    nmix = 20000 if thorough else 300
    for i in range(nmix):
        name = gc.NAMES[i % 3]
        cap = rng.choice([2, 3, 4, 5, 8, 16, 33])
        lines.append("R %s %d" % (name, cap))
        sp = gc.special_bytes(name)
        stream = [rng.choice(sp) if rng.random() < 0.35 else rng.randrange(256) for _ in range(rng.randrange(0, 12))]
        for _ in range(rng.randrange(2, 6)):
            p = gc.rand_payload(rng, name, cap + 1)
            f = gc.frame(name, p)
            k = rng.random()
            if k < 0.15 and len(f) > 2:      # truncation
                f = f[:rng.randrange(1, len(f))]
            elif k < 0.30:                   # corruption
                j = rng.randrange(len(f)); f[j] = rng.choice(sp) if rng.random() < 0.5 else rng.randrange(256)
            elif k < 0.40:                   # insertion
                j = rng.randrange(len(f) + 1); f.insert(j, rng.choice(sp) if rng.random() < 0.5 else rng.randrange(256))
            stream += f
            if rng.random() < 0.15:
                stream += [rng.randrange(256) for _ in range(rng.randrange(1, 4))]
        if i % 4 == 0 and len(stream) > 3:      # the receiver is initialised again in the middle of the stream (often in the middle of a frame)
            k = rng.randrange(1, len(stream))
            lines += ["Feed " + gc.fmt(stream[:k]), "Reinit", "Feed " + gc.fmt(stream[k:])]
        else:
            lines.append("Feed " + gc.fmt(stream))
    # (b2) frames around the 8-bit boundary: payloads of 250..258 bytes into buffers of 255..300 bytes (counts and sizes
    # that do not fit a byte), back to back, all three receivers
    for i in range(400 if thorough else 15):
        name = gc.NAMES[i % 3]
        cap = rng.choice([255, 256, 257, 258, 259, 260, 300])
        lines.append("R %s %d" % (name, cap))
        stream = []
        for _ in range(3):
            n = rng.choice([250, 253, 254, 255, 256, 257, 258])
            sp = gc.special_bytes(name)
            p = [rng.choice(sp) if rng.random() < 0.05 else rng.randrange(256) for _ in range(n)]
            stream += gc.frame(name, p)
        lines.append("Feed " + gc.fmt(stream))
    # (b3) the configurable receiver with other contexts than the two shipped ones: markers and escape codes from both halves of the
    # byte range (the context fields are plain char), distinct and coinciding markers; short exhaustive words + traffic with faults
    for i in range(600 if thorough else 60):
        name = gc.random_context(rng)
        sp = gc.special_bytes(name)
        cap = rng.choice([2, 3, 4, 5, 8, 16, 33])
        lines.append("R %s %d" % (name, cap))
        alpha = sp + [0, 97, 255]
        for _ in range(60):
            lines.append("Feed " + gc.fmt([rng.choice(alpha) for _ in range(rng.randrange(1, 6))]))
        lines.append("R %s %d" % (name, cap))
        stream = [rng.choice(sp) if rng.random() < 0.35 else rng.randrange(256) for _ in range(rng.randrange(0, 12))]
        for _ in range(rng.randrange(2, 7)):
            p = [rng.choice(sp) if rng.random() < 0.4 else rng.randrange(256) for _ in range(rng.randrange(0, cap + 2))]
            f = gc.frame(name, p)
            k = rng.random()
            if k < 0.12 and len(f) > 2: f = f[:rng.randrange(1, len(f))]
            elif k < 0.24: f[rng.randrange(len(f))] = rng.choice(sp)
            elif k < 0.32: f.insert(rng.randrange(len(f) + 1), rng.choice(sp))
            stream += f
        lines.append("Feed " + gc.fmt(stream))
    # (b4) frames whose payload ends in a control byte and whose CRC-8 is a control byte (CR LF, BS, DEL, ESC, NUL ... in every pairing)
    for name in gc.NAMES:
        ps = gc.control_tail_payloads(rng)
        for i in range(0, len(ps), 9):
            lines.append("R %s %d" % (name, 16))
            stream = []
            for p in ps[i:i + 9]: stream += gc.frame(name, p)
            lines.append("Feed " + gc.fmt(stream))
    # (b5) frames around 2^15 and 2^16 stored bytes (a 16-bit copy of the fill level, a signed 16-bit length): payload + CRC of exactly
    # 32768 / 65536 bytes and their neighbours into buffers that just hold them, each followed by two short frames
    for i, (name, n) in enumerate([("v0", 65535), ("default", 65535), ("legacy", 65535), ("v0", 32767), ("default", 65536), ("v0", 65534)] +
                                  ([("legacy", 32767), ("default", 32767), ("v0", 65536), ("default", 131071), ("v0", 131071)] if thorough else [])):
        cap = n + rng.choice([2, 3, 5, 64])
        sp = gc.special_bytes(name)
        p = [rng.choice(sp) if rng.random() < 0.01 else rng.randrange(256) for _ in range(n)]
        lines.append("R %s %d" % (name, cap))
        lines.append("Feed " + gc.fmt(gc.frame(name, p) + gc.frame(name, [1, 2, 3]) + gc.frame(name, [4, 5])))
    # witnesses of the recorded legacy findings (always executed)
    lines += ["R legacy 8", "Feed 255,172", "R legacy 3", "Feed 173,0,255,172", "R legacy 8", "Feed 172,1,2,%d,172" % gc.crc8([1, 2])]
    # (c) pure noise
    for i in range(3000 if thorough else 60):
        name = gc.NAMES[i % 3]
        lines.append("R %s %d" % (name, rng.choice([2, 3, 5, 9])))
        sp = gc.special_bytes(name)
        lines.append("Feed " + gc.fmt([rng.choice(sp + [0, 255]) if rng.random() < 0.6 else rng.randrange(256) for _ in range(120)]))
    return lines


def check(ctx):
    drv = gc.build(ctx)
    r = ctx.tlc("GstuffMC", "GstuffMCthorough.cfg" if ctx.thorough else "GstuffMC.cfg", workers=16, timeout=2400, xmx="24g", coverage=not ctx.thorough)
    if not r.ok:
        ctx.model_violation(r, "receiver x monitor product")
    if ctx.thorough:   # beyond the exhaustive bound: random streams against receivers of capacity 6 and 8
        r = ctx.tlc("GstuffMC", "GstuffSim.cfg", workers=16, simulate=20000, depth=80, coverage=False, timeout=1500)
        if not r.ok:
            ctx.model_violation(r, "Gstuff receiver invariants (simulation)")
    script = streams(ctx)
    ctx.samples.append({"script_prefix": script[:4]})
    t = ctx.drive(drv, script, "gstuff_rx")
    bad = ctx.judge("GstuffTrace", [t])
    for b in bad: b["driver"] = "drv_gstuff"
    # the second build configuration (size-optimised, plain char unsigned) on a third of the executions
    ta = ctx.drive(gc.build(ctx, alt=True), core.subset_executions(script, ctx.seed, 1.0 if ctx.thorough else 0.34), "gstuff_rx_alt")
    bada = ctx.judge("GstuffTrace", [ta])
    for b in bada: b["driver"] = "drv_gstuff@alt"
    bad += bada
    ctx.report(bad)
    ctx.assumptions += [
        "exhaustive: product of the transcribed receiver automata and the monitor for capacities of GstuffMC*.cfg over the marker/escape bytes, two data bytes and the checksum-completing byte - streams of every length; bound to the code by status-by-status comparison (impl_status drift clause)",
        "contexts: the two shipped alphabets and random configured contexts whose escape codes differ from the markers (Gstuff.tla ValidCx; otherwise STUB START is ambiguous and no receiver satisfies the statement)",
        "coinciding markers: a delivery is owed for the second of two back-to-back well-formed frames (M f1 M M f2 M); an OVERFLOW report is owed only for distinct markers",
        "buffer overruns beyond the 8 logged guard bytes are observed by ASan",
    ]
    return ctx.finish(rule="all words up to length 4-5 over marker/escape/data bytes per variant and capacity + valid traffic with garbage prefix and one truncation/corruption/insertion + noise; every (byte,status) pair judged by the monitor in GstuffTrace.tla")


def replay(ctx, path):
    d = json.load(open(path))
    drv = gc.build(ctx, alt=core.is_alt(d))
    lines = []
    feed = []
    for e in d["execution"]:
        if e["e"] == "Reset":
            lines.append("R %s %d" % ("cx:" + ":".join(str(x) for x in e["cx"]) if e["name"] == "custom" else e["name"], e["cap"]))
        elif e["e"] == "Recv":
            feed.append(e["c"])
        elif e["e"] == "RecvRun":
            feed += e["cs"]
        elif e["e"] == "Reinit":
            if feed: lines.append("Feed " + gc.fmt(feed)); feed = []
            lines.append("Reinit")
        elif e["e"] == "Encode":
            if feed: lines.append("Feed " + gc.fmt(feed)); feed = []
            lines.append("Enc %s %s" % (e["variant"], gc.fmt(e["p"])))
    if feed: lines.append("Feed " + gc.fmt(feed))
    t = ctx.drive(drv, lines + core.fault_line(d), "replay")
    ctx.report(ctx.judge("GstuffTrace", [t]))
    return ctx.finish(rule="replay of " + path)
