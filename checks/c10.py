"""C10 - allocators.  Spec Alloc.tla (heap model + pool model), trace spec AllocTrace.tla, driver drv_alloc.cpp"""
import json, os
from vlib import core


def build(ctx):
    R = core.REPO
    objs = []
    for i, src in enumerate(["compat/mem/lin_malloc.cpp", "compat/mem/lin_realloc.cpp"]):
        o = os.path.join(ctx.work, "lin%d.o" % i)
        ctx.sh(["g++", "-std=gnu++20", "-g", "-O1"] + core.cov_flags() + ["-fsanitize=address", "-fno-omit-frame-pointer", "-w", "-I" + R, "-I" + R + "/compat/mem",
                "-c", os.path.join(R, src), "-o", o], timeout=600)
        ctx.sh(["objcopy", "--redefine-sym", "malloc=igv_malloc", "--redefine-sym", "free=igv_free", "--redefine-sym", "realloc=igv_realloc", o])
        objs.append(o)
    return ctx.cxx("drv_alloc", ["drv_alloc.cpp", R + "/igris/sync/syslock_mutex.cpp", R + "/igris/sync/critical_context.c"], objs=objs)


SIZES = [0, 1, 7, 8, 9, 15, 16, 17, 63, 64, 65, 100, 128, 129, 200, 500]


def graph_script(ctx, g):
    walks, ncov, total = core.edge_cover_walks(g, ctx.rng, max_len=200)
    out = []
    for w in walks:
        out.append("R heap")
        for (lab, s, d) in w:
            name, args = core.parse_label(lab)
            out.append(" ".join([name] + [str(a) for a in args]))
    return out, ncov, total


def random_heap(rng, nops, order):
    lines = ["R heap"]
    live = []
    nid = 0
    for _ in range(nops):
        r = rng.random()
        if (r < 0.45 and len(live) < 60) or not live:
            nid += 1
            lines.append("Malloc %d %d" % (nid, rng.choice(SIZES))); live.append(nid)
        elif r < 0.75:
            if order == "lifo": i = len(live) - 1
            elif order == "fifo": i = 0
            else: i = rng.randrange(len(live))
            lines.append("Free %d" % live.pop(i))
        elif r < 0.97:
            lines.append("Realloc %d %d" % (rng.choice(live), rng.choice(SIZES)))
        else:
            lines.append("FreeNull")
    order2 = rng.choice(["lifo", "fifo", "rand"])
    while live:
        i = len(live) - 1 if order2 == "lifo" else 0 if order2 == "fifo" else rng.randrange(len(live))
        lines.append("Free %d" % live.pop(i))
    return lines


HUGE = [2 ** 31 - 64, 2 ** 31 - 8, 2 ** 31, 2 ** 31 + 1, 2 ** 32 - 64, 2 ** 32 - 63, 2 ** 32 - 1, 2 ** 32, 2 ** 32 + 1, 2 ** 32 + 100, 2 ** 32 + 2 ** 31 + 5]


def big_heap(rng):
    """requests of 2 GiB, 4 GiB and more in an arena of 12 GiB of address space (byte counts that do not fit 31 / 32 bits), mixed with
    small blocks; at most two huge blocks live at a time; a huge block is only grown in place (at the top of the heap) or shrunk"""
    lines = ["R heapbig"]
    live, huge, nid = [], [], 0
    budget = [11 * 2 ** 30]        # the break never passes the sum of all requests made, kept below the 12 GiB of the arena
    def pick():
        ok = [h for h in HUGE if h + 4096 <= budget[0]]
        if not ok: return None
        h = rng.choice(ok); budget[0] -= h + 4096
        return h
    for step in range(rng.randrange(8, 16)):
        r = rng.random()
        h = pick() if r < 0.30 or (0.55 <= r < 0.65) else None
        if r < 0.30 and h:
            nid += 1; lines.append("Malloc %d %d" % (nid, h)); huge.append(nid)
        elif r < 0.55:
            nid += 1; lines.append("Malloc %d %d" % (nid, rng.choice(SIZES))); live.append(nid)
        elif 0.55 <= r < 0.65 and live and h:
            i = live.pop(rng.randrange(len(live))); lines.append("Realloc %d %d" % (i, h)); huge.append(i)      # small -> huge (copies the small block)
        elif r < 0.75 and huge:
            i = huge.pop(rng.randrange(len(huge))); lines.append("Realloc %d %d" % (i, rng.choice(SIZES))); live.append(i)     # huge -> small (in place)
        elif r < 0.88 and huge:
            lines.append("Free %d" % huge.pop(rng.randrange(len(huge))))
        elif live:
            lines.append("Free %d" % live.pop(rng.randrange(len(live))))
    for i in rng.sample(live + huge, len(live + huge)):
        lines.append("Free %d" % i)
    return lines


def random_pool(rng, kind, cap, el, nops):
    lines = ["R %s %d %d" % (kind, cap, el)]
    nlive = 0
    engaged = False
    for _ in range(nops):
        if kind == "ph" and not engaged and rng.random() < 0.06:
            n2 = rng.randrange(1, 6); lines.append("PEngage %d" % n2); cap += n2; engaged = True      # a second zone for the same pool
        elif kind == "sop" and el == 32 and rng.random() < 0.3:      # constructors that use the pool they are created in
            if nlive and rng.random() < 0.5:
                lines.append("PAllocF %d" % rng.randrange(nlive))
                if nlive == cap: pass                   # full pool: create() answers null, nothing happens
            else:
                lines.append("PAllocN"); nlive = min(cap, nlive + 2)
        elif rng.random() < 0.55 or nlive == 0:
            lines.append("PAlloc"); nlive = min(cap, nlive + 1)
        else:
            k = rng.choice([0, nlive - 1, rng.randrange(nlive)])
            lines.append("PFree %d" % k); nlive -= 1
    return lines


def check(ctx):
    drv = build(ctx)
    r = ctx.tlc("Alloc", "AllocMCthorough.cfg" if ctx.thorough else "AllocMC.cfg", workers=16, timeout=2400, xmx="16g", coverage=not ctx.thorough)
    if not r.ok:
        ctx.model_violation(r, "heap invariants")
    if ctx.thorough:   # beyond the exhaustive bound: random behaviours with 6 live blocks, 5 request sizes, larger arena
        r = ctx.tlc("Alloc", "AllocSim.cfg", workers=16, simulate=20000, depth=80, coverage=False, timeout=1500)
        if not r.ok:
            ctx.model_violation(r, "Alloc invariants (simulation)")
    r, g = ctx.tlc_graph("Alloc", "AllocGraph.cfg", workers=8)
    if not r.ok:
        ctx.model_violation(r, "heap graph")
    script, ncov, total = graph_script(ctx, g)
    ctx.extra["edges_total"] = total; ctx.extra["edges_replayed"] = ncov
    ctx.samples.append({"edge_cover_walk_prefix": script[:10]})
    rnd = []
    n = 1500 if ctx.thorough else 300
    for i in range(n):
        rnd += random_heap(ctx.rng, 120, ["lifo", "fifo", "rand"][i % 3])
    for i in range(200 if ctx.thorough else 40):
        rnd += big_heap(ctx.rng)
    pools = []
    for i in range(n):
        k = ["ph", "ip", "sop"][i % 3]
        if k == "sop":
            cap, el = ctx.rng.choice([(4, 8), (3, 24), (1, 64), (5, 12), (3, 128), (3, 128), (4, 32), (4, 32)])      # (3, 128): an element type with alignas(64); (4, 32): constructors that use the pool
        else:
            cap, el = ctx.rng.randrange(1, 9), ctx.rng.choice([8, 16, 24, 64])
        pools += random_pool(ctx.rng, k, cap, el, 50)
    t1 = ctx.drive(drv, script, "heap_cover")
    t2 = ctx.drive(drv, rnd + pools, "alloc_random")
    bad = ctx.judge("AllocTrace", [t1, t2])
    for b in bad: b["driver"] = "drv_alloc"
    ctx.report(bad)
    ctx.assumptions += [
        "heap: arena 1 MiB supplied as _heap_start (and 12 GiB of lazily committed address space for requests of 2 GiB / 4 GiB and more, logged in 8-byte units), malloc/free/realloc symbols renamed igv_*; scripts keep <= 60 live blocks (the library asserts __allocation_counter < 100)",
        "alignment required: 8 bytes for heap blocks (one size_t header), natural alignment of the element for pools",
        "block contents are observed through a per-block byte pattern written by the driver (an observation, like guard bytes)",
    ]
    return ctx.finish(rule="edge cover of the heap model graph (AllocGraph.cfg) + random alloc/free/realloc scripts with sizes around the header and rounding boundaries in LIFO/FIFO/random free order + random pool scripts for pool_head, igris::pool, static_object_pool; every event judged by the monitor in AllocTrace.tla and compared with the heap/pool model")


def replay(ctx, path):
    d = json.load(open(path))
    drv = build(ctx)
    lines = []
    nl = []
    for e in d["execution"]:
        n = e["e"]
        def nb(e): return e["nh"] * 2 ** 20 + e["nl"] if e.get("unit") == 8 else e["n"]
        if n == "Reset": lines.append(("R heapbig" if e.get("unit") == 8 else "R heap") if e["kind"] == "heap" else "R %s %d %d" % (e["kind"], e["cap"], e["el"])); nl = []
        elif n == "Malloc": lines.append("Malloc %d %d" % (e["id"], nb(e)))
        elif n == "Free": lines.append("Free %d" % e["id"])
        elif n == "FreeNull": lines.append("FreeNull")
        elif n == "Realloc": lines.append("Realloc %d %d" % (e["id"], nb(e)))
        elif n == "PEngage": lines.append("PEngage %d" % e["n2"])
        elif n == "PAlloc":
            lines.append("PAlloc")
            if e["cell"] >= 0: nl.append(e["cell"])
        elif n == "PAlloc2":
            lines.append("PAllocN"); nl += [c for c in e["cells"] if c >= 0]
        elif n == "PAllocF":
            k = nl.index(e["freed"]) if e["freed"] in nl else 0; lines.append("PAllocF %d" % k)
            if e["freed"] in nl: nl.remove(e["freed"])
            if e["cell"] >= 0: nl.append(e["cell"])
        elif n == "PFree":
            k = nl.index(e["cell"]); nl.pop(k); lines.append("PFree %d" % k)
    t = ctx.drive(drv, lines + core.fault_line(d), "replay")
    ctx.report(ctx.judge("AllocTrace", [t]))
    return ctx.finish(rule="replay of " + path)
