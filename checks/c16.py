"""C16 - timers.  Spec: Timers.tla (+TimersMC.tla constants), trace spec TimersTrace.tla, driver drv_timers.cpp"""
import json
from vlib import core

SRCS = [core.REPO + "/igris/container/dlist.cpp", core.REPO + "/igris/sync/syslock_mutex.cpp", core.REPO + "/igris/datastruct/stimer.c"]


def eff_str(e):
    if e[0] == "none":
        return "none"
    if e[0] == "exec2":
        return "exec2"
    if e[0] == "unplan":
        return "unplan %d" % e[1]
    return "plan %d %d %d" % (e[1], e[2], e[3])


def time_map(rng):
    """scale exponent and base of the map t -> base + t * 2^scale applied by the driver: the same histories with large
    absolute times and large differences (the manager's time type is 64-bit; its behaviour must not depend on the magnitude)"""
    sc = rng.choice([0, 0, 0, 7, 20, 31, 32, 33, 40])
    base = rng.choice([0, 0, 1, 2 ** 31 - 3, 2 ** 32 - 2, 2 ** 40 + 5, -(2 ** 33) - 1, -7])
    return "%d %d" % (sc, base)


def graph_scripts(ctx, g):
    walks, ncov, total = core.edge_cover_walks(g, ctx.rng, max_len=300)
    out = []
    for w in walks:
        st0 = core.parse_state(g.state[w[0][1]])
        out.append("R tm %d %s" % (st0["nt"], time_map(ctx.rng)))
        for (lab, src, dst) in w:
            name, args = core.parse_label(lab)
            if name == "PlanRel":
                now = core.parse_state(g.state[src])["now"]
                out.append("Plan %d %d %d" % (args[0], now + args[1], args[2]))
            elif name == "SetCb":
                out.append("SetCb %d %s" % (args[0], eff_str(args[1])))
            elif name == "Exec":
                now = core.parse_state(g.state[src])["now"]
                out.append("Exec %d" % (now + args[0]))
            else:
                out.append("%s %d" % (name, args[0]))
    return out, ncov, total


def random_tm(rng, nt, nops):
    lines = ["R tm %d %s" % (nt, time_map(rng))]
    now = 0
    for _ in range(nops):
        r = rng.random()
        t = rng.randrange(1, nt + 1)
        if r < 0.30:
            lines.append("Plan %d %d %d" % (t, now + rng.choice([0, 0, 1, 2, 5, -3]), rng.choice([1, 1, 2, 3, 5, 10])))
        elif r < 0.36:
            lines.append("Replan %d" % t)
        elif r < 0.46:
            lines.append("Unplan %d" % t)
        elif r < 0.62:
            k = rng.random()
            if k < 0.3:
                lines.append("SetCb %d none" % t)
            elif k < 0.6:
                lines.append("SetCb %d unplan %d" % (t, rng.randrange(1, nt + 1)))
            else:
                lines.append("SetCb %d plan %d %d %d" % (t, rng.randrange(1, nt + 1), rng.choice([0, 0, 1, 4]), rng.choice([1, 2, 3, 7])))
        else:
            now += rng.choice([0, 1, 1, 2, 3, 5, 10, 25])
            lines.append("Exec %d" % now)
    return lines


def random_two(rng, nt, nt2, nops):
    """two managers of the same type: timers of the first run exec(now) of the second from inside their callbacks (a fast tick manager
    driving a slow one); the second is also planned, unplanned and executed directly"""
    lines = ["R tm %d %s %d" % (nt, time_map(rng), nt2)]
    now = 0
    for _ in range(nops):
        r = rng.random()
        t = rng.randrange(1, nt + 1); t2 = rng.randrange(1, nt2 + 1)
        if r < 0.2: lines.append("Plan %d %d %d" % (t, now + rng.choice([0, 0, 1, 2, -3]), rng.choice([1, 1, 2, 3, 5])))
        elif r < 0.45: lines.append("Plan2 %d %d %d" % (t2, now + rng.choice([0, 0, 1, 2, 5, -3]), rng.choice([1, 1, 2, 3, 5, 10])))
        elif r < 0.5: lines.append("Unplan2 %d" % t2)
        elif r < 0.55: lines.append("Unplan %d" % t)
        elif r < 0.7: lines.append("SetCb %d %s" % (t, rng.choice(["exec2", "exec2", "exec2", "none", "unplan %d" % rng.randrange(1, nt + 1)])))
        elif r < 0.78:
            now += rng.choice([0, 1, 2]); lines.append("Exec2 %d" % now)
        else:
            now += rng.choice([0, 1, 1, 2, 3, 5, 10]); lines.append("Exec %d" % now)
    return lines


def random_st(rng, nops):
    lines = ["R st"]
    now = 0
    for _ in range(nops):
        r = rng.random()
        if r < 0.15:
            lines.append("SInit %d %d" % (now + rng.randrange(-2, 5), rng.randrange(0, 6)))
        elif r < 0.35:
            lines.append("SPlan %d %d" % (now + rng.randrange(-2, 5), rng.randrange(0, 6)))
        elif r < 0.45:
            lines.append("SStart %d" % (now + rng.randrange(-2, 3)))
        elif r < 0.6:
            lines.append("SSwift")
        else:
            now += rng.randrange(0, 4)
            lines.append("SCheck %d" % now)
    return lines


def check(ctx):
    drv = ctx.cxx("drv_timers", ["drv_timers.cpp"] + SRCS)
    r = ctx.tlc("TimersMC", "TimersMCthorough.cfg" if ctx.thorough else "TimersMC.cfg", workers=16, timeout=1500)
    if not r.ok:
        ctx.model_violation(r, "Timers invariants")
    if ctx.thorough:   # beyond the exhaustive bound: random behaviours with 4 timers, longer time line, more callback effects
        r = ctx.tlc("TimersMC", "TimersSim.cfg", workers=16, simulate=5000, depth=80, coverage=False, timeout=1500)
        if not r.ok:
            ctx.model_violation(r, "Timers invariants (simulation, 4 timers)")
    r, g = ctx.tlc_graph("TimersMC", "TimersGraph.cfg", workers=8)
    if not r.ok:
        ctx.model_violation(r, "Timers graph")
    script, ncov, total = graph_scripts(ctx, g)
    ctx.extra["edges_total"] = total
    ctx.extra["edges_replayed"] = ncov
    ctx.samples.append({"edge_cover_walk_prefix": script[:12]})
    n = 3000 if ctx.thorough else 500
    rnd = []
    for i in range(n):
        rnd += random_tm(ctx.rng, ctx.rng.randrange(1, 7), 60)
        if i % 5 == 0:
            rnd += random_st(ctx.rng, 40)
        if i % 4 == 1:
            rnd += random_two(ctx.rng, ctx.rng.randrange(1, 4), ctx.rng.randrange(1, 5), 50)
    t1 = ctx.drive(drv, script, "timers_cover")
    t2 = ctx.drive(drv, rnd, "timers_random")
    bad = ctx.judge("TimersTrace", [t1, t2])
    for b in bad: b["driver"] = "drv_timers"
    ctx.report(bad)
    # the manager instantiated with another TimeSpec: 64-bit clock, 32-bit intervals (timer_spec<int64_t, int32_t>); intervals stay below
    # 2^31 (scale up to 20), the time bases sit just below multiples of 2^31 so that deadlines straddle them
    drv32 = ctx.cxx("drv_timers32", ["drv_timers.cpp"] + SRCS, flags=["-DTM_SPEC32"])
    def remap(lines):
        out = []
        for ln in lines:
            w = ln.split()
            if w[0] == "R" and w[1] == "tm":
                sc = ctx.rng.choice([0, 0, 3, 10, 20]); m = ctx.rng.choice([1, 2, 3, 4, 5]); j = ctx.rng.choice([3, 100, 2000, 40000])
                ln = "R tm %s %d %d" % (w[2], sc, m * 2 ** 31 - j * 2 ** sc) + (" " + w[5] if len(w) > 5 else "")
            out.append(ln)
        return out
    keep = [l for l in remap(script[: len(script) // 2] + rnd[: len(rnd) // 2]) if l[0] != "S" or l.startswith("SetCb")]
    keep = [l for i, l in enumerate(keep)]
    t3 = ctx.drive(drv32, [l for l in keep if not (l.startswith("R st"))], "timers_spec32")
    bad = ctx.judge("TimersTrace", [t3], label="TimersSpec32")
    for b in bad: b["driver"] = "drv_timers32"
    ctx.report(bad)
    ctx.assumptions += [
        "intervals >= 1 and non-decreasing exec times, as the statement conditions",
        "a timer that is planned when its callback returns is re-armed at (its start at that moment) + interval - the statement's literal rule; for a callback that re-plans its own timer this is one interval after the deadline the callback set (what the code does)",
        "among timers with equal deadlines any firing order is accepted (the statement fixes only non-decreasing deadline order); the FIFO order of the implementation-shaped model is compared as impl_order (drift only)",
        "minimal_interval is only observed while a timer is pending",
    ]
    return ctx.finish(rule="edge cover of TimersGraph.cfg (2 timers, callback effect menu) + seeded random scripts with up to 6 timers; each Exec's firing sequence judged by RefExec in TimersTrace.tla")


def replay(ctx, path):
    d = json.load(open(path))
    drv = ctx.cxx("drv_timers32", ["drv_timers.cpp"] + SRCS, flags=["-DTM_SPEC32"]) if d.get("driver") == "drv_timers32" else ctx.cxx("drv_timers", ["drv_timers.cpp"] + SRCS)
    lines = []
    for e in d["execution"]:
        n = e["e"]
        if n == "Reset": lines.append("R %s %d" % (e["kind"], e["nt"]) + (" %d %d %d" % (e["scale"], e["base_hi"] * 2 ** 31 + e["base_lo"], e.get("nt2", 0)) if "scale" in e else ""))
        elif n == "Plan2": lines.append("Plan2 %d %d %d" % (e["t"], e["st"], e["iv"]))
        elif n == "Unplan2": lines.append("Unplan2 %d" % e["t"])
        elif n == "Exec2":
            if not e.get("from_callback"): lines.append("Exec2 %d" % e["now"])
        elif n == "Plan": lines.append("Plan %d %d %d" % (e["t"], e["st"], e["iv"]))
        elif n in ("Replan", "Unplan"): lines.append("%s %d" % (n, e["t"]))
        elif n == "SetCb": lines.append("SetCb %d %s" % (e["t"], eff_str([e["k"], e["k2"], e["ds"], e["iv"]])))
        elif n == "Exec": lines.append("Exec %d" % e["now"])
        elif n in ("SInit", "SPlan"): lines.append("%s %d %d" % (n, e["st"], e["iv"]))
        elif n == "SStart": lines.append("SStart %d" % e["st"])
        elif n == "SSwift": lines.append("SSwift")
        elif n == "SCheck": lines.append("SCheck %d" % e["now"])
    t = ctx.drive(drv, lines + core.fault_line(d), "replay")
    ctx.report(ctx.judge("TimersTrace", [t]))
    return ctx.finish(rule="replay of " + path)
