"""C17 - CRC routines.  Spec Crc.tla (definitions over bit sequences), CrcMC.tla (laws), CrcTrace.tla, driver drv_crc.cpp"""
import json, itertools
from vlib import core

FNS = ["strm8", "dallas", "dallas_table", "crc16", "crc7", "crc32"]
SEEDW = {"strm8": 1, "dallas": 1, "dallas_table": 1, "crc16": 2, "crc7": 1, "crc32": 4}


def fmt(v):
    return ",".join(str(x) for x in v) if v else "-"


def line(fn, seed, data, off, cut):
    if fn == "crc7":
        seed = [0]
    return "Crc %s %s %s %d %d" % (fn, fmt(seed), fmt(data), off, cut)


def check(ctx):
    R = core.REPO
    drv = ctx.cxx("drv_crc", ["drv_crc.cpp", R + "/igris/util/crc.c"])
    r = ctx.tlc("CrcMC", "CrcMCthorough.cfg" if ctx.thorough else "CrcMC.cfg", workers=16, timeout=2400, coverage=False)
    if not r.ok:
        ctx.model_violation(r, "CRC laws")
    r = ctx.tlc("CrcMC", "CrcPairs.cfg", workers=16, timeout=600, coverage=False)
    if not r.ok:
        ctx.model_violation(r, "bit-serial = table form for all (seed, byte) pairs")
    rng = ctx.rng
    lines = ["R"]
    # all (seed, byte) pairs for the 8-bit routines
    for fn in ["strm8", "dallas", "dallas_table"]:
        for seed in (range(256) if ctx.thorough else range(0, 256, 5)):
            for b in (range(256) if ctx.thorough else list(range(0, 256, 3)) + [255]):
                lines.append(line(fn, [seed], [b], (seed + b) % 8, 0))
    # short messages over a reduced alphabet, every split
    alpha = [0, 1, 128, 255]
    for fn in FNS:
        for n in range(0, 4):
            for m in itertools.product(alpha, repeat=n):
                seed = [rng.choice([0, 255, 1, 128]) for _ in range(SEEDW[fn])]
                for cut in range(0, n + 1):
                    lines.append(line(fn, seed, list(m), rng.randrange(8), cut))
    # random messages of every length 0..255 at every alignment and a random split
    reps = 3 if ctx.thorough else 1
    for fn in FNS:
        for n in list(range(0, 70)) + ([] if not ctx.thorough else list(range(70, 256))) + [100, 127, 128, 200, 254, 255]:
            for _ in range(reps):
                off = (n * 3 + _) % 8 if not ctx.thorough else rng.randrange(8)
                data = [rng.randrange(256) for _ in range(n)]
                seed = [rng.randrange(256) for _ in range(SEEDW[fn])]
                lines.append(line(fn, seed, data, off, rng.randrange(0, n + 1)))
    # structured contents: runs of 00 / FF / 80 / 01 (zero words, all-ones words) inside and at the ends of random data,
    # at every word phase, with non-zero running values - the values word-at-a-time code treats specially
    for fn in FNS:
        for fill in (0, 255, 128, 1):
            for n in ([1, 2, 3, 4, 5, 7, 8, 9, 12, 16, 17] if not ctx.thorough else list(range(1, 41))):
                for lead in (0, 1, 2, 3, 4, 5):
                    data = [rng.randrange(1, 256) for _ in range(lead)] + [fill] * n + [rng.randrange(1, 256) for _ in range(rng.choice([0, 0, 1, 3, 4]))]
                    seed = [rng.choice([0, 1, 255, rng.randrange(256)]) for _ in range(SEEDW[fn])]
                    cut = rng.choice([0, lead, lead + (n // 4) * 4, len(data), (len(data) // 4) * 4])
                    lines.append(line(fn, seed, data, rng.randrange(8), min(cut, len(data))))
    # one buffer used twice with different contents (same pointer, length and seed in both calls)
    for fn in FNS:
        if fn == "strm8": continue
        for n in [1, 2, 4, 5, 8, 13, 32] + ([3, 7, 64, 100, 255] if ctx.thorough else []):
            for _ in range(2):
                A = [rng.randrange(256) for _ in range(n)]; B = list(A); B[rng.randrange(n)] ^= 1 << rng.randrange(8)
                if _: B = [rng.randrange(256) for _ in range(n)]
                lines.append("CrcReuse %s %s %s %s %d" % (fn, fmt([rng.randrange(256) for _ in range(SEEDW[fn])]), fmt(A), fmt(B), rng.randrange(8)))
    # a CRC computation interrupted at an instruction boundary by another complete one (cut = 0: the chunked value is the one-shot value)
    inter = []
    for fn in FNS:
        for fn2 in [fn, rng.choice(FNS)]:
            d1 = [rng.randrange(256) for _ in range(rng.choice([5, 9, 16]))]; d2 = [rng.randrange(256) for _ in range(rng.choice([1, 4, 7]))]
            inter.append("CrcI %s %s %s %s %s %s %d" % (fn, fmt([rng.randrange(256) for _ in range(SEEDW[fn])]), fmt(d1), fn2, fmt([rng.randrange(256) for _ in range(SEEDW[fn2])]), fmt(d2), 300 if ctx.thorough else 80))
    # CRC-32 over messages beyond 2^16 words (judged by the byte-at-a-time form of the definition, Fast32)
    for n in ([65536, 262143, 262144, 262145, 262151, 300000] if ctx.thorough else [262144, 262149]):
        data = [rng.randrange(256) for _ in range(n)]
        lines.append(line("crc32", [rng.randrange(256) for _ in range(4)], data, rng.randrange(8), rng.choice([0, 4, n // 2 // 4 * 4, n // 4 * 4])))
    # CRC-32 of messages of 2 GiB .. 4 GiB-1 (the length argument is a uint32_t: byte and word counts near 2^31 / 2^32), zero
    # except for a head and a tail, in lazily committed address space; judged by the sparse form of the definition (Sparse32)
    biglines = []
    for n in ([2 ** 32 - 1, 2 ** 32 - 3, 2 ** 32 - 4, 2 ** 31 + 5] + ([2 ** 32 - 2, 2 ** 32 - 8, 2 ** 31, 2 ** 31 - 1, 3 * 2 ** 30 + 2] if ctx.thorough else [])):
        head = [rng.randrange(1, 256) for _ in range(rng.choice([4, 8, 12]))]
        tl = n % 4 if n % 4 else rng.choice([0, 4])
        tail = [rng.randrange(1, 256) for _ in range(tl)]
        # the zero run must be a multiple of four bytes: head and run fill whole words, the tail starts a word
        assert (n - len(head) - len(tail)) % 4 == 0
        biglines.append("CrcBig %s %d %s %s" % (fmt([rng.randrange(256) for _ in range(4)]), n, fmt(head), fmt(tail)))
    if ctx.thorough:
        for fn in FNS:
            for off in range(8):
                for n in [1, 2, 3, 4, 5, 7, 8, 9, 31, 33]:
                    data = [rng.randrange(256) for _ in range(n)]
                    lines.append(line(fn, [rng.randrange(256) for _ in range(SEEDW[fn])], data, off, rng.randrange(0, n + 1)))
    # one execution per ~400 calls
    script = []
    for i, ln in enumerate(lines[1:]):
        if i % 400 == 0:
            script.append("R")
        script.append(ln)
    ctx.samples.append({"calls": script[1:5]})
    t = ctx.drive(drv, script, "crc")
    # one process per gigabyte message (tens of seconds of CPU each), next to the ordinary run
    bigscript = [x for ln in biglines for x in ("R", ln)]
    tb = ctx.drive(drv, bigscript, "crc_big", lines_per_proc=2, timeout=1500)
    iscript = []
    for i, ln in enumerate(inter):
        if i % 2 == 0: iscript.append("R")
        iscript.append(ln)
    ti = ctx.drive(drv, iscript, "crc_interrupted", timeout=1500, lines_per_proc=3)
    bad = ctx.judge("CrcTrace", [t, tb, ti], shards=16)
    for b in bad: b["driver"] = "drv_crc"
    # the second build configuration (size-optimised, plain char unsigned) on part of the executions
    ta = ctx.drive(ctx.cxx("drv_crc_alt", ["drv_crc.cpp", R + "/igris/util/crc.c"], alt=True), core.subset_executions(script, ctx.seed, 1.0 if ctx.thorough else 0.34), "crc_alt")
    bada = ctx.judge("CrcTrace", [ta], shards=16)
    for b in bada: b["driver"] = "drv_crc@alt"
    bad += bada
    ctx.report(bad)
    ctx.assumptions += [
        "definitions: bit-serial polynomial division (Crc.tla); CRC-32 is defined over little-endian words with a zero-extended tail, so piecewise evaluation is only promised at multiples of four bytes",
        "reads outside [data, data+length) are observed by ASan on right-aligned exactly sized blocks",
    ]
    return ctx.finish(rule="(seed,byte) pairs of the 8-bit routines, all messages up to length 3 over {00,01,80,FF} with every split, random messages of all lengths at all alignments with a random split, runs of 00/FF/80/01 of every short length at every word phase; each call judged against Crc.tla")


def replay(ctx, path):
    d = json.load(open(path))
    drv = ctx.cxx("drv_crc", ["drv_crc.cpp", core.REPO + "/igris/util/crc.c"], alt=core.is_alt(d))
    e = d["event"]
    if e.get("e") == "Fault":
        return core.replay_fault(ctx, d, drv, "CrcTrace", path)
    if e.get("e") == "CrcBig":
        t = ctx.drive(drv, ["R", "CrcBig %s %s %s %s" % (fmt(e["seed"]), e["len"], fmt(e["head"]), fmt(e["tail"]))], "replay", timeout=1500)
        ctx.report(ctx.judge("CrcTrace", [t]))
        return ctx.finish(rule="replay of " + path)
    if e.get("e") == "CrcReuse":
        t = ctx.drive(drv, ["R", "CrcReuse %s %s %s %s %d" % (e["fn"], fmt(e["seed"]), fmt(e["data"]), fmt(e["data2"]), e["off"])], "replay")
        ctx.report(ctx.judge("CrcTrace", [t]))
        return ctx.finish(rule="replay of " + path)
    t = ctx.drive(drv, ["R", line(e["fn"], e["seed"], e["data"], e["off"], e["cut"])], "replay")
    ctx.report(ctx.judge("CrcTrace", [t]))
    return ctx.finish(rule="replay of " + path)
