"""C02 - igris::vector and flat_map/flat_set vs the std containers.  Specs VecLife.tla (abstract vector + lifetime ledger), Assoc.tla;
trace specs VecLifeTrace.tla, AssocTrace.tla; drivers drv_vector.cpp, drv_assoc.cpp"""
import json, os
from vlib import core
from checks import veccommon as vc


def build(ctx):
    return ctx.cxx("drv_vector", ["drv_vector.cpp"])


def build_sp(ctx):
    """the same driver against the copy of igris::vector in std_portable.h"""
    return ctx.cxx("drv_vector_sp", ["drv_vector.cpp"], flags=["-DUSE_STD_PORTABLE"])


def check(ctx):
    drv = build(ctx)
    drva = ctx.cxx("drv_assoc", ["drv_assoc.cpp"])
    r, g = ctx.tlc_graph("VecLife", "VecLifeGraphThorough.cfg" if ctx.thorough else "VecLifeGraph.cfg", workers=8, timeout=1800)
    if not r.ok:
        ctx.model_violation(r, "abstract vector laws")
    r2 = ctx.tlc("Assoc", "AssocMC.cfg", workers=8)
    if not r2.ok:
        ctx.model_violation(r2, "associative container laws")
    script, ncov, total = vc.graph_scripts(ctx, g, [("vec", "tracked"), ("vec", "int")])
    ctx.extra["edges_total"] = total; ctx.extra["edges_replayed"] = ncov
    ctx.samples.append({"edge_cover_walk_prefix": script[:12]})
    rnd = []
    for i in range(1500 if ctx.thorough else 300):
        rnd += vc.random_script(ctx.rng, "vec", "tracked" if i % 3 else ("int" if i % 2 else "sp"), 0, 80)
    # element type double with zeros of both signs and NaN
    for i in range(400 if ctx.thorough else 80):
        rnd += vc.double_script(ctx.rng)
    # sizes around and beyond the 8- and 16-bit boundaries
    for n in (255, 256, 257, 300):
        rnd += vc.big_script(ctx.rng, "tracked", n)
    for n in (1000, 5000):     # (the exact-fit growth policy makes filling a vector quadratic: 2^16 elements are out of reach of the 2 s watchdog)
        rnd += vc.big_script(ctx.rng, "int", n)
    t1 = ctx.drive(drv, script, "vec_cover")
    t2 = ctx.drive(drv, rnd, "vec_random")
    bad = ctx.judge("VecLifeTrace", [t1, t2])
    for b in bad:
        b["driver"] = "drv_vector"
        b["script"] = vec_script([json.loads(x) for x in b["exec"][:b["exec_pos"] + 1]])
    ctx.report(bad)
    # the std_portable.h copy of the vector (older interface: no initializer-list constructor, at() or operator<)
    drvsp = build_sp(ctx)
    script_sp, _, _ = vc.graph_scripts(ctx, g, [("vec", "tracked"), ("vec", "int")], old_vec=True)
    rnd_sp = []
    for i in range(1500 if ctx.thorough else 300):
        rnd_sp += vc.random_script(ctx.rng, "vec", "tracked" if i % 3 else ("int" if i % 2 else "sp"), 0, 80, old_vec=True)
    t1 = ctx.drive(drvsp, script_sp, "vec_sp_cover")
    t2 = ctx.drive(drvsp, rnd_sp, "vec_sp_random")
    bad = ctx.judge("VecLifeTrace", [t1, t2], label="VecLifeTrace_sp")
    for b in bad:
        b["driver"] = "drv_vector_sp"
        b["script"] = vec_script([json.loads(x) for x in b["exec"][:b["exec_pos"] + 1]])
    ctx.report(bad)
    # flat_map / flat_set
    import checks.assoc as assoc
    t3 = ctx.drive(drva, assoc.scripts(ctx), "assoc")
    bad = ctx.judge("AssocTrace", [t3])
    for b in bad: b["driver"] = "drv_assoc"
    ctx.report(bad)
    ctx.assumptions += [
        "element type Tracked owns heap memory and reports construction, copy, move, assignment, destruction and comparison of every object that lies in a block of the tracking allocator; the ledger in VecLife.tla decides whether each event is legal",
        "insert(pos, first, last) with a range of the same vector has no std::vector counterpart and is not generated; positions and ranges are valid for the current size",
        "memory outside the allocation is observed by ASan (blocks are exactly sized), the container objects sit between guard bytes",
    ]
    return ctx.finish(rule="edge cover of the abstract two-vector graph (values {1,2}, size <= 3, every constructor/assignment/insert/erase position) replayed on igris::vector<Tracked> and <int> + random scripts; every operation judged for size/contents/results and every element event by the lifetime ledger; flat_map/flat_set against std::map/std::set semantics")


ARITY = {"Create": 0, "Destroy": 0, "PopBack": 0, "Clear": 0, "Front": 0, "Back": 0, "PushBack": 1, "EmplaceBack": 1, "EraseAt": 1, "Resize": 1, "Reserve": 1,
         "CopyCtor": 1, "MoveCtor": 1, "CopyAssign": 1, "MoveAssign": 1, "Eq": 1, "Less": 1, "At": 1, "Index": 1, "Insert": 2, "Emplace": 2, "Erase": 2, "PushBackSelf": 1, "EmplaceBackSelf": 1, "InsertSelf": 2}


def vec_script(events):
    lines = []
    for e in events:
        if e["e"] == "Reset":
            lines.append("R %s %s %d" % (e["kind"], e["elem"], e["cap"]))
        elif e["e"] == "Op":
            if e["name"] == "CreateFrom":
                lines.append("CreateFrom %d %s %d" % (e["c"], vc.fmt(e["src"]), e["b"]))
            else:
                if e.get("inject") == "ctor": lines.append("Arm ctor %d" % e.get("injn", 1))
                elif e.get("inject") == "alloc": lines.append("Arm alloc")
                lines.append(" ".join([e["name"], str(e["c"])] + [str(e[k]) for k in ("a", "b")][:ARITY[e["name"]]]))
        elif e["e"] == "End":
            lines.append("End")
    if lines and lines[-1] != "End":
        lines.append("End")
    return lines


def replay(ctx, path):
    d = json.load(open(path))
    if d.get("driver") == "drv_assoc":
        drv = ctx.cxx("drv_assoc", ["drv_assoc.cpp"])
        lines = []
        for e in d["execution"]:
            if e["e"] == "Reset": lines.append("R " + e["impl"])
            elif e["e"] == "A": lines.append("%s %d %d" % (e["op"], e["k"], e["v"]))
        t = ctx.drive(drv, lines + core.fault_line(d), "replay")
        ctx.report(ctx.judge("AssocTrace", [t]))
    else:
        drv = build_sp(ctx) if d.get("driver") == "drv_vector_sp" else build(ctx)
        t = ctx.drive(drv, (d.get("script") or vec_script(d["execution"])) + core.fault_line(d), "replay")
        ctx.report(ctx.judge("VecLifeTrace", [t]))
    return ctx.finish(rule="replay of " + path)
