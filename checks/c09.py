"""C09 - binary serialization.  Spec Serialize.tla (+laws SerializeMC), trace spec SerializeTrace.tla, driver drv_serialize.cpp"""
import json
from vlib import core

NA, NB = 38, 20      # the last six of A: pairs, maps and tuples of scalars of different widths (members with padding between them)


def build(ctx):
    return ctx.cxx("drv_serialize", ["drv_serialize.cpp", "drv_serialize_b.cpp"])


def check(ctx):
    drv = build(ctx)
    r = ctx.tlc("SerializeMC", "SerializeMC.cfg", workers=16, timeout=2400, coverage=False)
    if not r.ok:
        ctx.model_violation(r, "wire format laws")
    rng = ctx.rng
    reps = 8000 if ctx.thorough else 80
    lines = []
    for rep in range(reps):
        for i in range(NA):
            lines.append("Ser A %d %d" % (i, rng.randrange(1, 2 ** 31)))
        for i in range(NB):
            lines.append("Ser B %d %d" % (i, rng.randrange(1, 2 ** 31)))
    # encodings of 64 KiB and more: strings at the top of the 16-bit length field (framework A types that hold a string)
    for rep in range(6 if ctx.thorough else 2):
        for i in (10, 17, 18, 19, 21):
            lines.append("Ser A %d %d big" % (i, rng.randrange(1, 2 ** 31)))
    # vectors of scalars wider than a byte whose elements take 64 KiB and more (vector<int32_t>, vector<double>, a tuple holding vector<uint16_t>)
    for rep in range(4 if ctx.thorough else 1):
        for i in (11, 13, 20):
            lines.append("Ser A %d %d big" % (i, rng.randrange(1, 2 ** 31)))
        for i in (11, 13):
            lines.append("Ser B %d %d big" % (i, rng.randrange(1, 2 ** 31)))
    script = []
    for i, ln in enumerate(lines):
        if i % 100 == 0: script.append("R")
        script.append(ln)
    ctx.samples.append({"calls": script[1:4]})
    t = ctx.drive(drv, script, "serialize")
    bad = ctx.judge("SerializeTrace", [t], shards=16)
    for b in bad: b["driver"] = "drv_serialize"
    ctx.report(bad)
    ctx.assumptions += [
        "framework A (stdtypes.h/archive.h): int8..int64, uint8..uint64, float, double, std::string, vector, pair, tuple, map, reflect structs, nested to depth 3; framework B (serializer.h): arithmetic types, vector, serialize_reflect structs (the types each framework supports)",
        "scalars are compared as their native byte image (little-endian host); floats as bit images",
        "truncated decodes (framework B, bounded storage reader) are executed for every prefix of the encoding from exactly sized heap copies, for types with at most one level of variable-length nesting (a garbage count at depth d may loop 65535^d times); only memory safety is required of them (ASan)",
    ]
    return ctx.finish(rule="32 concrete types of framework A (incl. a type with user-declared copy operations that owns containers, in vectors and maps) and 20 of framework B x random values (empty containers, embedded NULs, lengths around 255/256, strings of 32768..65535 bytes) ; bytes, decoded value, consumed length, concatenated decode judged against Serialize.tla; every truncation decoded under ASan")


def replay(ctx, path):
    raise core.InfraError("C09 values are regenerated from (framework, type index, seed): re-run the quick check with the same VERIF_SEED; the replay file shows the type, value and bytes")
