"""C20 - system lock, wait queues, safe_queue under every schedule.
Spec SysSync.tla (+SysSyncMC.tla configurations), trace spec SysSyncTrace.tla, driver drv_sync.cpp (hooks IGRIS_VERIF_POINT)."""
import json, os
from vlib import core

SRC = ["/igris/sync/syslock_mutex.cpp", "/igris/osinter/wait.cpp", "/igris/osinter/wait-linux.cpp", "/igris/container/dlist.cpp"]
CONFIGS = ["SysSyncWake.cfg", "SysSyncWakeSpur.cfg", "SysSyncRewait.cfg", "SysSyncLock.cfg", "SysSyncQueue.cfg", "SysSyncDeleg.cfg"]


def programs(rng, n):
    """closed programs (every waiter is woken by somebody)"""
    out = []
    for i in range(n):
        kind = [0, 1, 0, 2, 0, 3, 4, 0, 4][i % 9]
        lines = []
        if kind == 0:      # wait / wake
            nw = rng.choice([1, 2, 2, 3])
            nth = nw + rng.choice([1, 2]) if nw < 3 else 4
            nth = min(4, nth)
            wakers = list(range(nw + 1, nth + 1))
            lines.append("R sync %d" % nth)
            for w in range(1, nw + 1):
                for _ in range(rng.choice([1, 1, 2])):
                    lines.append("P %d wait %d" % (w, rng.choice([0, 0, 0, 1, 1, 2, 255, -1, -2147483647])))
            nwaits = sum(1 for l in lines if " wait " in l)
            if nwaits == nw and rng.random() < 0.4:
                # unwait_all is issued once all waiters are queued (the driver waits for that)
                lines.append("P %d unwait_all %d" % (wakers[0], rng.randrange(1, 50)))
            else:
                for k in range(nwaits):
                    lines.append("P %d unwait_one %d" % (wakers[k % len(wakers)], rng.randrange(1, 50)))
        elif kind == 1:    # system lock nesting, save / restore
            nth = rng.choice([2, 3, 4])
            lines.append("R sync %d" % nth)
            for t in range(1, nth + 1):
                for _ in range(rng.randrange(1, 4)):
                    d = rng.randrange(1, 4)
                    lines += ["P %d lock" % t] * d
                    if rng.random() < 0.5:
                        lines.append("P %d save" % t)
                        if rng.random() < 0.5:
                            lines += ["P %d lock" % t, "P %d unlock" % t]
                        lines.append("P %d restore" % t)
                    lines += ["P %d unlock" % t] * d
        elif kind == 2:    # safe_queue: producers and one consumer
            np_ = rng.choice([1, 2, 3])
            nth = np_ + 1
            lines.append("R sync %d" % nth)
            total = 0
            for t in range(1, np_ + 1):
                k = rng.randrange(1, 5)
                for j in range(k):
                    lines.append("P %d push %d" % (t, t * 100 + j)); total += 1
            lines += ["P %d pop" % nth] * total
        elif kind == 4:    # delegate waiters (callbacks instead of parked threads), some of which wake the next waiter from inside their callback
            nw = rng.choice([0, 1, 2])                      # thread waiters 1..nw, thread nw+1 enqueues the delegates, thread nw+2 wakes
            nth = nw + 2
            lines.append("R sync %d" % nth)
            for w in range(1, nw + 1):
                lines.append("P %d wait %d" % (w, rng.choice([0, 0, 1])))
            nd = rng.choice([1, 2, 3, 3])
            for k in range(nd):
                lines.append("P %d denq %d %d" % (nw + 1, 11 + k, 1 if rng.random() < 0.5 else 0))
            total = nw + nd
            if rng.random() < 0.6:
                lines.append("P %d unwait_all %d" % (nth, rng.randrange(1, 50)))
            else:
                for k in range(total):
                    lines.append("P %d unwait_one %d" % (nth, rng.randrange(1, 50)))
        else:              # mixed: wake + queue + lock
            lines.append("R sync 4")
            lines += ["P 1 wait %d" % rng.choice([0, 1, -1]), "P 1 push 101", "P 2 lock", "P 2 unlock", "P 2 wait 0", "P 3 push 301",
                      "P 3 unwait_one 9", "P 3 unwait_one 9", "P 4 pop", "P 4 lock", "P 4 lock", "P 4 unlock", "P 4 unlock", "P 4 pop"]
        out.append(lines)
    return out



def tlc_schedules(ctx, cfg, nwalks):
    """behaviours of SysSync.tla (configuration cfg) as driver scripts: the program of the initial state, and the order in which the
    threads take their state-changing steps along a walk through TLC's state graph (least-visited edge first)"""
    r, g = ctx.tlc_graph("SysSyncMC", cfg, workers=8, timeout=1200)
    ctx.models.pop()
    if not r.ok or g is None:
        return [], 0, 0
    st = {}
    def state(n):
        if n not in st: st[n] = core.parse_state(g.state[n])
        return st[n]
    out_edges = {a: [b for (lab, b) in v] for a, v in g.out.items()}
    visits = {}
    scripts = []
    inits = list(g.init)
    for w in range(nwalks):
        n = ctx.rng.choice(inits); s0 = state(n)
        prog = s0["prog"]; nth = len(prog)
        lines = ["R sync %d" % nth]
        for t, ops in enumerate(prog, 1):
            for op in ops:
                k = op[0]
                if k in ("lock", "unlock", "save", "restore", "pop"): lines.append("P %d %s" % (t, k))
                elif k == "wait": lines.append("P %d wait %d" % (t, op[1]))
                elif k == "unwait_one": lines.append("P %d unwait_once %d" % (t, op[1]))
                elif k == "unwait_all": lines.append("P %d unwait_all_now %d" % (t, op[1]))
                elif k == "push": lines.append("P %d push %d" % (t, op[1]))
                elif k == "denq": lines.append("P %d denq %d %d" % (t, op[1], 1 if op[2] else 0))
        sched = []
        for _ in range(600):
            succ = [b for b in out_edges.get(n, []) if b != n]
            if not succ: break
            lo = min(visits.get((n, b), 0) for b in succ)
            b = ctx.rng.choice([x for x in succ if visits.get((n, x), 0) == lo])
            visits[(n, b)] = visits.get((n, b), 0) + 1
            sa, sb = state(n), state(b)
            who = [t for t in range(1, nth + 1) if sa["ip"][t - 1] != sb["ip"][t - 1] or sa["pc"][t - 1] != sb["pc"][t - 1]]
            if len(who) == 1:
                t = who[0]; ipt = sa["ip"][t - 1]; pct = sa["pc"][t - 1]
                kind = sa["prog"][t - 1][ipt - 1][0] if ipt <= len(sa["prog"][t - 1]) else ""
                silent = (kind in ("push", "pop") and pct in ("start", "out")) or (kind in ("unwait_one", "unwait_all") and pct == "after")
                if not silent: sched.append(t)      # steps without a hook point (semaphore in / out, loop bookkeeping) are not scheduled
            n = b
        if not sched: continue
        lines.append("GO %d log 0 ctl:%s" % (ctx.rng.randrange(1, 1 << 30), ",".join(str(x) for x in sched)))
        scripts.append(lines)
    nedges = sum(len(set(v)) for v in out_edges.values())
    return scripts, len(visits), nedges

def check(ctx):
    R = core.REPO
    srcs = ["drv_sync.cpp"] + [R + s for s in SRC]
    drv = ctx.cxx("drv_sync", srcs, san=None)
    drv_tsan = ctx.cxx("drv_sync_tsan", srcs, san="tsan", cc="clang++") if True else None
    # 1. all interleavings of the small closed programs
    for cfg in CONFIGS:
        r = ctx.tlc("SysSyncMC", cfg, workers=8, timeout=1200)
        if not r.ok:
            ctx.model_violation(r, "synchronisation protocol model " + cfg)
    # self-test of the model: the former signal() order must violate NoTouchAfterDestroy
    r = ctx.tlc("SysSyncMC", "SysSyncOldOrder.cfg", workers=4, timeout=600)
    ctx.models.pop()
    ctx.extra["model_detects_notify_after_unlock"] = (not r.ok) and "NoTouchAfterDestroy" in (r.violation or r.out)
    if r.ok:
        raise core.InfraError("model self-test failed: the notify-after-unlock order is not rejected")
    # second self-test: an unwait_all that reads the successor before waking must violate NoDoubleWake once delegates wake from their callbacks
    r = ctx.tlc("SysSyncMC", "SysSyncDelegStale.cfg", workers=4, timeout=600)
    ctx.models.pop()
    ctx.extra["model_detects_cursor_before_wake"] = (not r.ok) and "NoDoubleWake" in (r.violation or r.out)
    if r.ok:
        raise core.InfraError("model self-test failed: the cursor-before-wake design is not rejected")
    # 2. real threads, recorded at the hook points, judged by the trace specification
    n = 12000 if ctx.thorough else 300
    script = []
    for i, p in enumerate(programs(ctx.rng, n)):
        reps = 3
        for k in range(reps):
            script += p + ["GO %d log %d" % (ctx.rng.randrange(1, 1 << 30), ctx.rng.choice([0, 30, 60, 90]))]
    ctx.samples.append({"program": script[:12]})
    t1 = ctx.drive(drv, script, "sync_log", timeout=900, env={"VERIF_OP_TIMEOUT": "0"}, par=8)
    bad = ctx.judge("SysSyncTrace", [t1])
    for b in bad: b["driver"] = "drv_sync"
    ctx.report(bad)
    # 2a. TLC-generated behaviours replayed: the program of a model configuration runs on real threads and the hook events are released in
    # the order in which the threads step along a walk through TLC's state graph; the recorded events are validated like all others
    ctl = []; followed_edges = 0; total_edges = 0
    for cfg in ["SysSyncLock.cfg", "SysSyncQueue.cfg", "SysSyncWake.cfg", "SysSyncRewait.cfg", "SysSyncDeleg.cfg"]:
        sc, cov, tot = tlc_schedules(ctx, cfg, 400 if ctx.thorough else 40)
        followed_edges += cov; total_edges += tot
        for x in sc: ctl += x
    if ctl:
        tc = ctx.drive(drv, ctl, "sync_controlled", timeout=900, env={"VERIF_OP_TIMEOUT": "0"}, par=8)
        n_sched = n_exact = 0
        for line in open(tc):
            if line.startswith('{"e":"Sched"'):
                e = json.loads(line); n_sched += 1; n_exact += 1 if e["stalls"] == 0 else 0
        ctx.extra["controlled_executions"] = n_sched; ctx.extra["controlled_executions_without_stall"] = n_exact
        ctx.extra["model_edges_walked"] = followed_edges; ctx.extra["model_edges_total"] = total_edges
        core.log("controlled executions: %d, %d followed their TLC schedule without a stall; %d of %d model edges walked" % (n_sched, n_exact, followed_edges, total_edges))
        bad = ctx.judge("SysSyncTrace", [tc], label="SysSyncControlled")
        for b in bad: b["driver"] = "drv_sync"
        ctx.report(bad)
    # 2b. the library as it is shipped: the same kind of programs on a build with NDEBUG (asserts compiled out - a side effect inside an
    # assert is only missing there)
    drv_nd = ctx.cxx("drv_sync_ndebug", srcs, san=None, flags=["-DNDEBUG"])
    nd = []
    for i, p in enumerate(programs(ctx.rng, n // 3)):
        nd += p + ["GO %d log %d" % (ctx.rng.randrange(1, 1 << 30), ctx.rng.choice([0, 30, 60]))]
    t1b = ctx.drive(drv_nd, nd, "sync_ndebug", timeout=900, env={"VERIF_OP_TIMEOUT": "0"}, par=8)
    bad = ctx.judge("SysSyncTrace", [t1b], label="SysSyncNdebug")
    for b in bad: b["driver"] = "drv_sync_ndebug"
    ctx.report(bad)
    # 2c. long queue histories on an AddressSanitizer build: a few hundred items through one safe_queue (its std::deque releases a node
    # after every 128th int - what pop() returns must not live in the node it has just released)
    drv_asan = ctx.cxx("drv_sync_asan", srcs, san="asan")
    lq = []
    for i in range(6 if ctx.thorough else 2):
        np_ = 2 + i % 2; per = 70 + 10 * i
        lq.append("R sync %d" % (np_ + 1))
        for t in range(1, np_ + 1):
            lq += ["P %d push %d" % (t, t * 1000 + j) for j in range(per)]
        lq += ["P %d pop" % (np_ + 1)] * (np_ * per)
        lq.append("GO %d log %d" % (ctx.rng.randrange(1, 1 << 30), ctx.rng.choice([0, 5])))
    t1c = ctx.drive(drv_asan, lq, "sync_longqueue", timeout=900, env={"VERIF_OP_TIMEOUT": "0"}, par=2, lines_per_proc=100)
    bad = ctx.judge("SysSyncTrace", [t1c], label="SysSyncLongQueue")
    for b in bad: b["driver"] = "drv_sync_asan"
    ctx.report(bad)
    # 3. the same programs under ThreadSanitizer (no logging: the log lock would hide races)
    ts = []
    for i, p in enumerate(programs(ctx.rng, 2500 if ctx.thorough else 80)):
        ts += p + ["GO %d race 60" % ctx.rng.randrange(1, 1 << 30)]
    t2 = ctx.drive(drv_tsan, ts, "sync_tsan", timeout=900, env={"VERIF_OP_TIMEOUT": "0"}, par=8)
    bad = ctx.judge("SysSyncTrace", [t2], label="SysSyncTsan")
    for b in bad: b["driver"] = "drv_sync_tsan"
    ctx.report(bad)
    ctx.assumptions += [
        "schedules: TLC enumerates every interleaving of the closed programs of SysSyncMC.tla (2 waiters + 2 wakers, re-waiting waiter, nested lock with save/restore, 2 producers + consumer, delegate waiters that wake from inside their callbacks); real executions are sampled with seeded random yields at every hook point",
        "events are ordered by a global log lock taken inside the hook; every hook is placed inside the critical section that protects the step it reports",
        "data races are observed by ThreadSanitizer on a build without event logging; a report enters the trace as a Fault event",
        "safe_queue::pop is only called when the queue is known to be non-empty (single consumer), as its API requires",
    ]
    return ctx.finish(rule="TLC: all interleavings of 5 closed program configurations (safety + no-lost-wakeup liveness under weak fairness); implementation: hook-recorded executions of random closed programs on 2-4 real threads, every event judged by SysSyncTrace.tla; ThreadSanitizer run of the same programs")


def replay(ctx, path):
    raise core.InfraError("C20 executions depend on the thread schedule; re-run the quick check with the same VERIF_SEED instead (the replay file lists the recorded events)")
