"""C08 - libc mem*/str*.  Spec CString.tla (+laws CStringMC.tla), trace spec CStringTrace.tla, driver drv_cstring.cpp"""
import json, os, itertools
from vlib import core

FILES = "memchr memcmp memcpy memmove memrchr memset strcasecmp strcasestr strcat strchr strchrnul strcmp strcpy strcspn strdup strlcpy strlen strlwr strncasecmp strncat strncmp strncpy strndup strnlen strpbrk strrchr strspn strstr strtok strupr".split()
UNARY = ["strlen", "strlwr", "strupr", "strdup"]
CHARFN = ["strchr", "strrchr", "strchrnul"]
TWOSTR = ["strcmp", "strcasecmp", "strstr", "strcasestr", "strspn", "strcspn", "strpbrk", "strtok_r", "strtok"]
TWOSTRN = ["strncmp", "strncasecmp"]


def fmt(v):
    return ",".join(str(x) for x in v) if v else "-"


def build(ctx, alt=False):
    R = core.REPO
    objs = []
    procs = []
    import subprocess
    for i, f in enumerate(FILES):
        o = os.path.join(ctx.work, "str%s%d.o" % ("_alt" if alt else "", i))
        cmd = ["gcc", "-std=gnu11", "-g"] + core.opt_flags(alt) + core.cov_flags() + ["-fsanitize=address", "-fno-omit-frame-pointer", "-w", "-fno-builtin", "-D_GNU_SOURCE", "-Werror=implicit-function-declaration", "-I" + R,
               "-include", os.path.join(core.HARNESS, "rename_string.h"), "-c", os.path.join(R, "compat/libc/string", f + ".c"), "-o", o]
        procs.append((cmd, subprocess.Popen(cmd, stdout=subprocess.PIPE, stderr=subprocess.STDOUT)))
        objs.append(o)
    for cmd, p in procs:
        out, _ = p.communicate()
        if p.returncode != 0:
            raise core.InfraError("compile failed: %s\n%s" % (" ".join(cmd), out.decode()[-3000:]))
    return ctx.cxx("drv_cstring" + ("_alt" if alt else ""), ["drv_cstring.cpp"], objs=objs, alt=alt)


def slen(m, o):
    return m.index(0, o) - o


def disjoint(a, la, b, lb):
    return a + la <= b or b + lb <= a


def cases_for(rng, m, fn):
    """one valid call of fn on arena m (or None)"""
    N = len(m)
    for _ in range(30):
        a = rng.randrange(N); b = rng.randrange(N); n = rng.choice([0, 1, 2, 3, rng.randrange(0, N + 1), rng.randrange(0, N + 1)])
        la, lb = slen(m, a), slen(m, b)
        if fn in UNARY: return (a, 0, 0)
        if fn in CHARFN: return (a, rng.choice([0, m[rng.randrange(N)], 97, 255, 256, 256 + 97, rng.randrange(256)]), 0)
        if fn in ("strtok", "strtok_r"):
            if disjoint(a, la + 1, b, lb + 1): return (a, b, 0)
            continue
        if fn in TWOSTR: return (a, b, 0)
        if fn in TWOSTRN: return (a, b, n)
        if fn == "strnlen": return (a, 0, rng.choice([0, 1, la, la + 1, la + 5, n]))
        if fn == "strndup": return (a, 0, rng.choice([0, 1, la, la + 1, la + 5, n]))
        if fn in ("memchr", "memrchr"):
            if a + n <= N: return (a, rng.choice([0, m[rng.randrange(N)], 255, 256 + 65, rng.randrange(256)]), n)
        elif fn == "memset":
            if a + n <= N: return (a, rng.choice([0, 255, 256 + 7, rng.randrange(256)]), n)
        elif fn == "memcmp":
            if a + n <= N and b + n <= N: return (a, b, n)
        elif fn == "memmove":
            if a + n <= N and b + n <= N: return (a, b, n)
        elif fn == "memcpy":
            if a + n <= N and b + n <= N and disjoint(a, n, b, n): return (a, b, n)
        elif fn == "strcpy":
            if a + lb + 1 <= N and disjoint(a, lb + 1, b, lb + 1): return (a, b, 0)
        elif fn == "strncpy":
            if a + n <= N and disjoint(a, n, b, min(n, lb + 1)): return (a, b, n)
        elif fn == "strlcpy":
            w = min(n, lb + 1) if n else 0
            if a + w <= N and disjoint(a, max(w, 1), b, lb + 1): return (a, b, n)
        elif fn == "strcat":
            if a + la + lb + 1 <= N and disjoint(a, la + lb + 1, b, lb + 1): return (a, b, 0)
        elif fn == "strncat":
            k = min(lb, n)
            if a + la + k + 1 <= N and disjoint(a, la + k + 1, b, min(lb + 1, max(n, 1))): return (a, b, n)
    return None


ALLFN = ["memcpy", "memmove", "memset", "memcmp", "memchr", "memrchr", "strlen", "strnlen", "strcpy", "strncpy", "strlcpy", "strcat", "strncat", "strcmp", "strncmp",
         "strcasecmp", "strncasecmp", "strchr", "strrchr", "strchrnul", "strstr", "strcasestr", "strspn", "strcspn", "strpbrk", "strtok_r", "strtok", "strdup", "strndup", "strlwr", "strupr"]


def check(ctx):
    drv = build(ctx)
    r = ctx.tlc("CStringMC", "CStringMC.cfg", workers=16, timeout=2400, coverage=False)
    if not r.ok:
        ctx.model_violation(r, "laws of the string definitions")
    rng = ctx.rng
    lines = []
    # the domain TLC enumerated: every arena of 6 bytes over {0,'a','A',0xFF} ending in 0
    small = [list(x) + [0] for x in itertools.product([0, 97, 65, 255], repeat=5)]
    per = 60000 if ctx.thorough else 600
    for fn in ALLFN:
        for _ in range(per):
            m = rng.choice(small)
            c = cases_for(rng, m, fn)
            if c: lines.append("Str %s %s %d %d %d %d" % (fn, fmt(m), c[0], c[1], c[2], rng.choice([0, 0, 1, 3])))
    # random arenas up to 80 bytes over all byte values, every alignment (the word-copy path of memcpy needs n >= 32)
    per = 60000 if ctx.thorough else 600
    for fn in ALLFN:
        for _ in range(per):
            N = rng.choice([1, 2, 3, 8, 9, 16, 33, 40, 64, 80])
            dens = rng.choice([0.03, 0.1, 0.3])
            m = [0 if rng.random() < dens else rng.choice([rng.randrange(1, 256), 97, 65, 122, 90, 255, 32]) for _ in range(N)]
            m[-1] = 0
            c = cases_for(rng, m, fn)
            if c: lines.append("Str %s %s %d %d %d %d" % (fn, fmt(m), c[0], c[1], c[2], rng.randrange(8)))
    # n-bounded functions on buffers of exactly n unterminated bytes that end with the arena (= the heap block): the definition
    # allows no read of s[n]
    per = 40000 if ctx.thorough else 400
    for fn in ("strnlen", "strndup", "strncmp", "strncasecmp", "strncpy", "strncat", "memchr", "memrchr", "memcmp"):
        for _ in range(per):
            N = rng.choice([1, 2, 3, 4, 7, 8, 9, 16, 17, 33, 48])
            tail = rng.randrange(1, N + 1)                     # the last `tail` bytes hold no terminator
            m = [0 if (i < N - tail and rng.random() < 0.2) else rng.choice([rng.randrange(1, 256), 97, 65, 255]) for i in range(N)]
            a = rng.randrange(N - tail, N); n = N - a           # exact fit; sometimes shorter
            if rng.random() < 0.25: n = rng.randrange(0, n + 1)
            if fn in ("strnlen", "strndup"):
                lines.append("Str %s %s %d 0 %d %d" % (fn, fmt(m), a, n, rng.randrange(8)))
            elif fn in ("memchr", "memrchr"):
                lines.append("Str %s %s %d %d %d %d" % (fn, fmt(m), a, rng.choice([0, m[a], 1, 255]), n, rng.randrange(8)))
            elif fn in ("strncmp", "strncasecmp", "memcmp"):
                # the other operand: an equal copy placed earlier (so the comparison runs the full n bytes), or anything
                m2 = m[a:a + n] + ([0] if fn != "memcmp" and rng.random() < 0.5 else [rng.randrange(1, 256)]) + m
                if rng.random() < 0.3 and n: m2[rng.randrange(n)] ^= 0x20
                a2 = a + n + 1
                first = rng.random() < 0.5
                lines.append("Str %s %s %d %d %d %d" % (fn, fmt(m2), a2 if first else 0, 0 if first else a2, n, rng.randrange(8)))
            elif fn == "strncpy":
                m2 = [rng.randrange(1, 256) for _ in range(n + 2)] + m     # destination of n bytes in front, source at the end
                lines.append("Str strncpy %s 0 %d %d %d" % (fmt(m2), n + 2 + a, n, rng.randrange(8)))
            elif fn == "strncat":
                k = rng.randrange(0, 4)
                m2 = [rng.randrange(1, 256) for _ in range(k)] + [0] + [rng.randrange(1, 256) for _ in range(n + 1)] + m   # dest string of length k with room for n + NUL
                lines.append("Str strncat %s 0 %d %d %d" % (fmt(m2), k + 1 + n + 1 + a, n, rng.randrange(8)))
    # lengths around and beyond the 8- and 16-bit boundaries (counters that do not fit a byte / 16 bits): strings and blocks of
    # 255..300 and 65535..70000 bytes
    for N, reps in ((300, 3), (600, 2), (70010, 1)):
        for fn in ALLFN:
            if N > 1000 and fn not in ("memcpy", "memmove", "memset"): continue     # the other definitions recurse per byte in TLC
            for _ in range(reps if ctx.thorough or N < 1000 else 1):
                big = N - rng.choice([1, 2, 5, 44])            # length of the long string / block
                m = [rng.choice([97, 65, 255, 122, 1 + rng.randrange(255)]) for _ in range(N)]
                m[-1] = 0
                half = N // 2
                if fn in TWOSTR or fn in TWOSTRN or fn in ("strcpy", "strncpy", "strlcpy", "strcat", "strncat", "memcpy", "memmove", "memcmp", "strtok", "strtok_r"):
                    m[half - 1] = 0                             # two strings / blocks of about N/2
                    a, b, n = 0, half, rng.choice([half - 1, half - 2, 255, 256, 257, min(65535, half - 1), min(65536, half - 1)])
                    if fn in ("strcat", "strncat"):
                        m[10] = 0                               # short destination string with room behind it
                    if fn in ("strtok", "strtok_r"):
                        m[half:half + 3] = [32, 44, 0]; b = half
                        for j in range(0, half - 1, 37): m[j] = 32
                    if fn in ("memcpy", "memmove", "memcmp"): n = min(n, half - 1)
                    if fn in ("strcmp", "strncmp", "strcasecmp", "strncasecmp", "memcmp") and rng.random() < 0.7:
                        m[half:half + half - 1] = m[0:half - 1]; m[N - 1] = 0
                        if rng.random() < 0.5: m[half + half - 3] = 66
                    if fn in ("strstr", "strcasestr", "strspn", "strcspn", "strpbrk"):
                        m[half:half + 4] = [m[half - 3], m[half - 2], 0, 0] if fn in ("strstr", "strcasestr") else [33, 0, 0, 0]; 
                else:
                    a, b, n = rng.choice([0, 1, 3]), rng.choice([0, m[N // 3], 255, 0x141]), rng.choice([big, 255, 256, 257, min(65535, big), min(65536, big)])
                    if fn in ("memchr", "memrchr", "memset"): n = min(n, N - a)
                c = None
                try:
                    c = (a, b, n)
                    lines.append("Str %s %s %d %d %d %d" % (fn, fmt(m), c[0], c[1], c[2], rng.randrange(8)))
                except Exception:
                    pass
    # bounds near SIZE_MAX for the functions whose definition stops earlier (terminator, or for memchr the first match)
    for _ in range(4000 if ctx.thorough else 500):
        N = rng.choice([2, 3, 8, 17, 40])
        m = [0 if rng.random() < 0.15 else rng.choice([97, 65, 255, 1 + rng.randrange(255)]) for _ in range(N)]
        m[-1] = 0
        a = rng.randrange(N); b = rng.randrange(N)
        # near SIZE_MAX, and 2^k + d for k = 31..63 (counts whose high or middle bits are set and whose low bits are small: a count
        # split into rounds / words / a 32-bit copy of it must still mean "more than the string")
        huge = rng.choice([-1, -2, -8, -4096]) if rng.random() < 0.4 else 2 ** rng.randrange(31, 64) + rng.choice([0, 1, 3, 4, 5, 6, 7, 8, 9, 12, 16, 17, 31, 64, 255, 4096])
        fn = rng.choice(["memchr", "strnlen", "strndup", "strncmp", "strncasecmp", "strncat"])
        if fn == "memchr":
            c = m[rng.randrange(a, N)]                 # a byte that does occur at or after a
            lines.append("Str memchr %s %d %d %d %d" % (fmt(m), a, c, huge, rng.randrange(8)))
        elif fn in ("strnlen", "strndup"):
            lines.append("Str %s %s %d 0 %d %d" % (fn, fmt(m), a, huge, rng.randrange(8)))
        elif fn in ("strncmp", "strncasecmp"):
            lines.append("Str %s %s %d %d %d %d" % (fn, fmt(m), a, b, huge, rng.randrange(8)))
        else:
            la, lb = slen(m, 0), None
            m2 = [rng.randrange(1, 256) for _ in range(rng.randrange(0, 4))] + [0] + [7] * (N + 2) + m    # dest string with room, then the source arena
            d_off = 0; s_off = len(m2) - N + a
            lines.append("Str strncat %s %d %d %d %d" % (fmt(m2), d_off, s_off, huge, rng.randrange(8)))
    # objects of more than 4 GiB (lazily committed, zero-filled, a few marked bytes): moves and fills whose counts, distances and
    # pointer differences do not fit 31 / 32 bits - downward and upward overlapping moves of 2 GiB + 8 KiB, a copy of 2 GiB + 12, a fill of 4 GiB + 7
    G31, G32 = 2 ** 31, 2 ** 32
    def membig(fn, span, d, s_, n, c, offs):
        marks, probes, b = [], [], 1
        for o in offs:
            if fn != "memset": marks.append("%d:%d" % (s_ + o, b)); b = b % 250 + 1
            probes += [d + o] + ([s_ + o] if fn != "memset" else [])
        marks.append("%d:%d" % (d + 5 if fn != "memset" else d + 5, 251))                      # overwritten by the operation
        for q in ([d - 1] if d > 0 else []) + [d + n]:                                           # just outside: must keep their bytes
            if 0 <= q < span: marks.append("%d:%d" % (q, 252)); probes.append(q)
        probes += [d + 5]
        return "MemBig %s %d %d %d %d %d %s %s" % (fn, span, d, s_, n, c, ",".join(marks), ",".join(str(x) for x in probes))
    big = ["R"]
    n1 = G31 + 8192; e1 = G31 + 4096
    offs = [0, 1, 4095, 4096, 2 ** 30, n1 - e1 - 1, n1 - e1, n1 - 2, n1 - 1]
    big.append(membig("memmove", G32 + 12288, 0, e1, n1, 0, offs))                # downward, overlapping, distance + count > 2^32
    big.append(membig("memmove", G32 + 12288, e1, 0, n1, 0, offs))                # upward, overlapping
    if ctx.thorough:
        big.append(membig("memcpy", G32 + 8192, G31 + 4096, 0, G31 + 12, 0, [0, 1, 4096, 2 ** 30, G31, G31 + 11]))
        big.append(membig("memset", G32 + 12288, 3, 0, G32 + 7, 0xAB, [0, 1, 4096, G31 - 1, G31, G32 - 1, G32, G32 + 6]))
    # long aligned / misaligned block copies and moves with every relative alignment
    for fn in ("memcpy", "memmove", "memset", "memcmp"):
        for da in range(8):
            for sa in range(8 if fn != "memset" else 1):
                n = rng.choice([32, 33, 40, 47, 64])
                N = 160
                m = [rng.randrange(256) for _ in range(N)]
                a, b = da, 80 + sa
                if fn == "memmove" and rng.random() < 0.5: b = a + rng.randrange(1, 9)
                if fn == "memset": b = rng.randrange(256)
                lines.append("Str %s %s %d %d %d %d" % (fn, fmt(m), a, b, n, rng.randrange(8)))
    # a call interrupted at an instruction boundary by another complete call (interrupt / signal handler using the same library):
    # the definitions give every call a result that depends on its own arguments only, so both calls are judged as if they had run alone.
    # Every instruction boundary of the interrupted call (quick: about 200 evenly spread ones when it is longer) is tried.
    PLAINFN = [f for f in ALLFN if f not in ("strtok", "strtok_r", "strdup", "strndup")]
    FAMILY = [["strspn", "strcspn", "strpbrk", "strchr", "strchrnul", "strrchr"], ["strstr", "strcasestr", "strcasecmp", "strncasecmp", "strlwr", "strupr"],
              ["memcpy", "memmove", "memset", "strcpy", "strncpy", "strlcpy", "strcat", "strncat"], ["memcmp", "strcmp", "strncmp", "memchr", "memrchr", "strlen", "strnlen"]]
    nest = []
    def small_arena(alpha):
        N = rng.choice([6, 9, 12])
        m = [0 if rng.random() < 0.2 else rng.choice(alpha) for _ in range(N)]
        m[-1] = 0
        return m
    for fn in PLAINFN:
        fam = [g for F in FAMILY if fn in F for g in F if g != fn]
        inners = [fn, fn] + (rng.sample(fam, min(len(fam), 3 if ctx.thorough else 2))) + [rng.choice(PLAINFN)]
        for fn2 in inners:
            for _ in range(3 if ctx.thorough else 1):
                m, m2 = small_arena([97, 98, 99, 65, 255]), small_arena([120, 121, 122, 88, 97, 1])
                c, c2 = cases_for(rng, m, fn), cases_for(rng, m2, fn2)
                if c and c2:
                    nest.append("Nest %s %s %d %d %d %s %s %d %d %d %s" % (fn, fmt(m), c[0], c[1], c[2], fn2, fmt(m2), c2[0], c2[1], c2[2], "all" if ctx.thorough else "s200"))
        # the interrupting call is the very same call (same arena contents, same arguments) and a call of the same function on the same
        # arena with other offsets: hidden state that both calls set and clear in the same places
        for _ in range(4 if ctx.thorough else 2):
            m = small_arena([97, 98, 99, 65, 255]); c = cases_for(rng, m, fn); c3 = cases_for(rng, m, fn)
            if c: nest.append("Nest %s %s %d %d %d %s %s %d %d %d %s" % (fn, fmt(m), c[0], c[1], c[2], fn, fmt(m), c[0], c[1], c[2], "all" if ctx.thorough else "s120"))
            if c and c3: nest.append("Nest %s %s %d %d %d %s %s %d %d %d %s" % (fn, fmt(m), c[0], c[1], c[2], fn, fmt(m), c3[0], c3[1], c3[2], "all" if ctx.thorough else "s120"))
    nscript = []
    for i, ln in enumerate(nest):
        if i % 4 == 0: nscript.append("R")
        nscript.append(ln)
    script = []
    for i, ln in enumerate(lines):
        if i % 400 == 0: script.append("R")
        script.append(ln)
    ctx.samples.append({"calls": [script[1], script[-1]]})
    t = ctx.drive(drv, script, "cstring")
    tb = ctx.drive(drv, big, "cstring_big", timeout=1500, par=1)
    tn = ctx.drive(drv, nscript, "cstring_nest", timeout=1500, lines_per_proc=8)
    ctx.extra["interrupted_calls"] = len(nest)
    bad = ctx.judge("CStringTrace", [t, tb, tn], shards=16)
    for b in bad: b["driver"] = "drv_cstring"
    # the second build configuration (size-optimised, plain char unsigned) on part of the executions
    ta = ctx.drive(build(ctx, alt=True), core.subset_executions(script, ctx.seed, 1.0 if ctx.thorough else 0.34), "cstring_alt")
    bada = ctx.judge("CStringTrace", [ta], shards=16)
    for b in bada: b["driver"] = "drv_cstring@alt"
    bad += bada
    ctx.report(bad)
    ctx.assumptions += [
        "arguments satisfy the functions' preconditions (strings terminated inside the arena - except the n-bounded sources of strnlen/strndup/strncmp/strncasecmp/strncpy/strncat, which are also given exactly n unterminated bytes ending with the heap block -, destinations large enough, no overlap except for memmove); the generator chooses such arguments, TLC judges the result",
        "reads or writes outside the arena are observed by ASan (exactly sized heap block; left padding 0..7 bytes varies the alignment)",
        "strtok/strtok_r are called until they return NULL; the token offsets and the final arena are judged",
        "nested calls (Nest): the interrupting call runs from a SIGTRAP handler at an instruction boundary of the interrupted call (x86-64 trap flag); strtok (documented static state) and strdup/strndup (allocate) are not nested",
    ]
    return ctx.finish(rule="31 functions x (sampled cases from all 6-byte arenas over {00,'a','A',FF} + random arenas up to 80 bytes over all byte values at every alignment + aligned/misaligned long block operations); result and the complete arena after each call judged against CString.tla")


def replay(ctx, path):
    d = json.load(open(path))
    drv = build(ctx, alt=core.is_alt(d))
    e = d["event"]
    if e.get("e") == "Fault":
        return core.replay_fault(ctx, d, drv, "CStringTrace", path)
    if e.get("nestline"):
        t = ctx.drive(drv, ["R", e["nestline"]], "replay", timeout=1500)
        ctx.report(ctx.judge("CStringTrace", [t]))
        return ctx.finish(rule="replay of " + path)
    if e.get("e") == "MemBig":
        t = ctx.drive(drv, ["R", "MemBig %s %s" % (e["fn"], e["args"])], "replay", timeout=1500)
        ctx.report(ctx.judge("CStringTrace", [t]))
        return ctx.finish(rule="replay of " + path)
    t = ctx.drive(drv, ["R", "Str %s %s %d %d %s %d" % (e["fn"], fmt(e["mem"]), e["a"], e["b"], e.get("ns") or e["n"], e["pad"])], "replay")
    ctx.report(ctx.judge("CStringTrace", [t]))
    return ctx.finish(rule="replay of " + path)
