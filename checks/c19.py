"""C19 - text, path and command-line utilities.  Spec TextUtil.tla (+laws TextUtilMC), trace spec TextUtilTrace.tla, driver drv_text.cpp"""
import json, itertools
from vlib import core

ALPHA = [32, 97, 98, 34, 47, 46, 10]     # space a b " / . LF   (NUL is added where the API takes sized buffers)


def fmt(v):
    return ",".join(str(x) for x in v) if v else "-"


def build(ctx, alt=False):
    R = core.REPO
    return ctx.cxx("drv_text" + ("_alt" if alt else ""), ["drv_text.cpp", R + "/igris/util/string.cpp", R + "/igris/string/replace.cpp", R + "/igris/string/replace_substrings.c",
                                R + "/igris/string/memmem.c", R + "/igris/shell/mshell.c", R + "/igris/shell/rshell.c"], alt=alt)


def call(fn, s, a=(), b=(), n=0):
    return "Text %s %s %s %s %d" % (fn, fmt(s), fmt(a), fmt(b), n)


def calls_for(rng, s, sized_ok):
    """all routines on one string s (no NUL inside unless sized_ok)"""
    out = []
    nz = [c for c in s if c != 0]
    for d in (32, 47, 97):
        out.append(call("split_char", s, [d])); out.append(call("join", s, [d]))
    out.append(call("split_set", s, [32, 10])); out.append(call("split_set", s, [47, 46, 32]))
    out.append(call("split_cmd", s)); out.append(call("trim", s))
    for sub, rep in (([97], [98, 98]), ([97, 98], []), ([32, 32], [32]), ([47], [47, 47]), ([98, 97], [97])):
        out.append(call("replace", s, sub, rep))
        need = len(s) + 8
        out.append(call("replace_buf", s, sub, rep, rng.choice([1, 2, 3, len(s), len(s) + 1, need])))
        out.append(call("memmem", s, sub))
    if 0 not in s:
        for mx in (0, 1, 2, 10):
            out.append(call("argv", s, n=mx)); out.append(call("argv_n", s, n=mx))
        for sh in ("mshell", "mshell_tables", "rshell", "rshell_tables"):
            out.append(call(sh, s))
        out.append(call("path_next", s)); out.append(call("path_iterate", s))
    return out


def check(ctx):
    drv = build(ctx)
    r = ctx.tlc("TextUtilMC", "TextUtilMCthorough.cfg" if ctx.thorough else "TextUtilMC.cfg", workers=16, timeout=2400, coverage=False)
    if not r.ok:
        ctx.model_violation(r, "text utility laws")
    rng = ctx.rng
    lines = []
    maxlen = 5 if ctx.thorough else 4
    strings = [list(x) for n in range(0, maxlen + 1) for x in itertools.product(ALPHA, repeat=n)]
    if not ctx.thorough:
        # all strings up to length 3, a sample of the longer ones
        strings = [x for x in strings if len(x) <= 3] + rng.sample([x for x in strings if len(x) == 4], 500)
    for s in strings:
        cs = calls_for(rng, s, False)
        lines += cs if ctx.thorough or len(s) <= 2 else rng.sample(cs, 8)
    # searching / replacing: every haystack up to length 6 against every needle up to length 4 over {a, b}
    # (self-overlapping needles, occurrences preceded by partial matches)
    hay = [list(x) for n in range(0, 7) for x in itertools.product([97, 98], repeat=n)]
    ndl = [list(x) for n in range(1, 5) for x in itertools.product([97, 98], repeat=n)]
    for h in hay:
        for nd in (ndl if ctx.thorough or len(h) >= 4 else rng.sample(ndl, 6)):
            lines.append(call("memmem", h, nd))
            if rng.random() < (1.0 if ctx.thorough else 0.4):
                lines.append(call("replace", h, nd, [88]))
                lines.append(call("replace_buf", h, nd, [88, 89], len(h) * 2 + 4))
    # command lines and paths built from words
    words = ["cmd", "a", "ab", "help", "x", "cmdx", "", "  ", "\t", "\r\n", "1", "--flag", "a b"]
    for i in range(12000 if ctx.thorough else 400):
        k = rng.randrange(0, 13)
        line = (rng.choice(["", " ", "  ", "\t"]) + rng.choice([" ", "  ", "\t", "\n", " \r\n"]).join(rng.choice(words) for _ in range(k)) + rng.choice(["", " ", "\n", "\r\n"]))
        s = [ord(c) for c in line]
        for sh in ("mshell", "mshell_tables", "rshell", "rshell_tables"):
            lines.append(call(sh, s))
        if i % 3 == 0:     # a handler that dispatches another line (macro / repeat / alias) and then uses its own arguments again
            k2 = rng.randrange(0, 6)
            inner = [ord(c) for c in " ".join(rng.choice(words) for _ in range(k2))]
            for sh in ("mshell", "mshell_tables", "rshell", "rshell_tables"):
                lines.append(call(sh + "_nested", s, inner))
        if i % 4 == 1:     # a script: several command lines separated by newlines, walked by the caller with strtok and dispatched line by line
            text = "\n".join((rng.choice(["", " ", "\t"]) + rng.choice([" ", "  ", "\t"]).join(rng.choice(words[:6] + ["1", "--flag"]) for _ in range(rng.choice([0, 1, 1, 2, 3, 12])))) for _ in range(rng.randrange(1, 7))) + rng.choice(["", "\n"])
            for sh in ("mshell", "mshell_tables", "rshell", "rshell_tables"):
                lines.append(call(sh + "_script", [ord(c) for c in text]))
        lines.append(call("argv", s, n=rng.choice([0, 1, 2, 3, 10, 11])))
        lines.append(call("argv_n", s, n=rng.choice([0, 1, 2, 3, 10])))
    # creader: texts of lines with LF / CR LF endings, empty lines, one-character lines, with and without a terminator after the last line
    # (no NUL bytes); skip over a character set from every cursor position of short texts
    pieces = ["", "a", "ab", " x ", "\r", "a\r", "\r\r", "cmd 1", "\t"]
    for i in range(1500 if ctx.thorough else 120):
        text = "".join(rng.choice(pieces) + rng.choice(["\n", "\n", "\r\n", "\n\n"]) for _ in range(rng.randrange(0, 6))) + rng.choice(["", "", "z", "tail", "q\r", " "])
        lines.append(call("creader_lines", [ord(c) for c in text]))
        if i % 3 == 0:
            t2 = [rng.choice([32, 9, 10, 13, 97, 255]) for _ in range(rng.randrange(0, 8))]
            lines.append(call("creader_skip", t2, a=rng.choice([[9, 10, 13, 32], [97], [255, 32], []]), n=rng.randrange(0, len(t2) + 1)))
    # help texts: through the write callback (mshell) and into caller-supplied buffers of every small size (rshell; a buffer of at
    # least one byte, for the tables form two: room for the terminators)
    for tabn in (1, 2, 3):
        lines.append(call("mshell_help", [], n=tabn))
        for amax in list(range(1, 40)) + [64, 255, 256, 300]:
            lines.append(call("rshell_help", [], b=[amax % 256, amax // 256], n=tabn))
    lines.append(call("mshell_tables_help", []))
    for amax in list(range(2, 60)) + [64, 255, 256, 300]:
        lines.append(call("rshell_tables_help", [], b=[amax % 256, amax // 256]))
    comps = ["dev", "null", ".", "..", "a", "", "x.y", ".hidden", "b"]
    for i in range(12000 if ctx.thorough else 400):
        def mk():
            return rng.choice(["", "/", "//", "./"]) + rng.choice(["/", "//", "/./"]).join(rng.choice(comps) for _ in range(rng.randrange(0, 5))) + rng.choice(["", "/", "/."])
        p, q = mk(), mk()
        if rng.random() < 0.5: q = p[:rng.randrange(0, len(p) + 1)]
        P, Q = [ord(c) for c in p], [ord(c) for c in q]
        lines += [call("path_next", P), call("path_iterate", P), call("compare_node", P, Q), call("remove_prefix", P, Q)]
    # random longer strings over all byte values
    for i in range(6000 if ctx.thorough else 150):
        n = rng.randrange(5, 60)
        s = [rng.choice(ALPHA + [9, 13, 39]) if rng.random() < 0.6 else rng.randrange(1, 256) for _ in range(n)]
        lines += rng.sample(calls_for(rng, s, False), 10)
        if rng.random() < 0.3:
            z = list(s); z[rng.randrange(n)] = 0
            lines += [call("split_char", z, [32]), call("trim", z), call("memmem", z, [0]), call("replace", z, [0], [97])]
    # strings and token counts around and beyond the 8-bit boundary (300 tokens, strings of 255..1000 bytes)
    for n in (255, 256, 257, 300, 600, 1000):
        s = [rng.choice(ALPHA + [9, 13]) if rng.random() < 0.5 else rng.randrange(1, 256) for _ in range(n)]
        lines += calls_for(rng, s, False)
        toks = [ord(c) for c in " ".join(rng.choice(["a", "bc", "cmd", "x"]) for _ in range(n // 2))]
        for sh in ("mshell", "mshell_tables", "rshell", "rshell_tables"):
            lines.append(call(sh, toks))
        lines.append(call("argv", toks, n=rng.choice([10, 255, 256, 300]))); lines.append(call("argv_n", toks, n=rng.choice([10, 255, 256])))
        lines.append(call("split_char", toks, [32])); lines.append(call("split_set", toks, [32, 99]))
        path = [ord(c) for c in "/".join(rng.choice(["dev", "a", ".", "xy"]) for _ in range(n // 3))]
        lines += [call("path_next", path), call("path_iterate", path), call("compare_node", path, path[:n // 2]), call("remove_prefix", path, path[:len(path) // 2])]
    # every byte value as the single delimiter (NUL, 0x80.., 0xFF included), on texts that contain it at the start, inside, doubled and at the end
    for d in range(256):
        o = [x for x in (97, 98, 0, 255, 32) if x != d]
        s = [d, o[0], o[1], d, d, o[2], o[3], d, o[0]] + ([d] if d % 2 else [])
        lines.append(call("split_char", s, [d])); lines.append(call("join", s, [d]))
        if d: lines.append(call("split_set", s, [d, o[0]]))
    script = []
    for i, ln in enumerate(lines):
        if i % 400 == 0: script.append("R")
        script.append(ln)
    ctx.samples.append({"calls": [script[1], script[len(script) // 2], script[-1]]})
    t = ctx.drive(drv, script, "text")
    bad = ctx.judge("TextUtilTrace", [t], shards=16)
    for b in bad: b["driver"] = "drv_text"
    # the second build configuration (size-optimised, plain char unsigned) on part of the executions
    ta = ctx.drive(build(ctx, alt=True), core.subset_executions(script, ctx.seed, 1.0 if ctx.thorough else 0.34), "text_alt")
    bada = ctx.judge("TextUtilTrace", [ta], shards=16)
    for b in bada: b["driver"] = "drv_text@alt"
    bad += bada
    ctx.report(bad)
    ctx.assumptions += [
        "buffer-taking APIs (split, split_cmdargs, trim, memmem, replace_substrings, argvc_internal_split_n) receive exactly sized, non-terminated heap blocks; C-string APIs receive exactly sized terminated blocks; ASan observes reads/writes outside them",
        "memmem is called with a non-empty needle (its result for an empty needle is not fixed by the statement)",
        "split_cmdargs: a token that begins with a quote runs to the matching quote (quotes inside a token are ordinary characters)",
        "creader.h is not judged (the statement names no property of it)",
    ]
    return ctx.finish(rule="all strings up to length 3 (4-5 sampled/thorough) over {space,a,b,\",/,.,LF} through every routine + generated command lines and paths + random longer strings over all byte values; each call judged against TextUtil.tla")


def replay(ctx, path):
    d = json.load(open(path))
    drv = build(ctx, alt=core.is_alt(d))
    e = d["event"]
    if e.get("e") == "Fault":
        return core.replay_fault(ctx, d, drv, "TextUtilTrace", path)
    t = ctx.drive(drv, ["R", call(e["fn"], e["s"], e["a"], e["b"], e["n"])], "replay")
    ctx.report(ctx.judge("TextUtilTrace", [t]))
    return ctx.finish(rule="replay of " + path)
