"""C01 - intrusive lists.  Specs: Lists.tla (C/C++ dlist), SHList.tla (slist, hlist)."""
import json
from vlib import core

REPO_SRC = [core.REPO + "/igris/container/dlist.cpp"]


def label_to_line(label):
    name, args = core.parse_label(label)
    return " ".join([name] + [str(a) for a in args])


def scripts_from_graph(ctx, g, reset_of, max_len=300):
    walks, ncov, total = core.edge_cover_walks(g, ctx.rng, max_len=max_len)
    out = []
    for w in walks:
        out.append(reset_of(core.parse_state(g.state[w[0][1]])))
        out += [label_to_line(lab) for (lab, s, d) in w]
    return out, ncov, total


def random_dlist(rng, flavor, nh, nn, nops):
    """random op scripts valid for the API contract; tracks linked/free status only to stay inside the contract"""
    NC = nh + nn
    lines = ["R %s %d %d" % (flavor, nh, nn)]
    live = [True] * NC
    # a tiny shadow of list structure is needed only to know which nodes are linked (contract of add vs move)
    cyc = [[c] for c in range(NC)]
    def cyc_of(c):
        for s in cyc:
            if c in s:
                return s
        return None
    def unlink(c):
        s = cyc_of(c)
        if s is not None and len(s) > 1:
            s.remove(c); cyc.append([c])
    def ins(c, a, after):
        s = cyc_of(a); i = s.index(a)
        cyc.remove(cyc_of(c))
        s.insert(i + 1 if after else i, c)
    nodes = list(range(nh, NC)); heads = list(range(nh))
    for _ in range(nops):
        lh = [h for h in heads if live[h]]
        ln = [n for n in nodes if live[n]]
        r = rng.random()
        if flavor == "cxx":
            if r < 0.45 and ln:
                n = rng.choice(ln); a = rng.choice([c for c in range(NC) if live[c]])
                after = rng.random() < 0.5
                lines.append("%s %d %d" % ("MoveNext" if after else "MovePrev", n, a))
                unlink(n)
                if a != n: ins(n, a, after)
            elif r < 0.55 and ln:
                n = rng.choice(ln); lines.append("Unlink %d" % n); unlink(n)
            elif r < 0.65 and lh:
                h = rng.choice(lh); s = cyc_of(h); i = s.index(h)
                if rng.random() < 0.5:
                    lines.append("PopFront %d" % h); unlink(s[(i + 1) % len(s)])
                else:
                    lines.append("PopBack %d" % h); unlink(s[(i - 1) % len(s)])
            elif r < 0.70 and lh:
                h = rng.choice(lh); lines.append("Clear %d" % h)
                for c in list(cyc_of(h)):
                    unlink(c)
            elif r < 0.78 and len(lh) >= 2:
                d, s = rng.sample(lh, 2); lines.append("Splice %d %d" % (d, s))
                unlink(d); src = cyc_of(s)
                if len(src) > 1:
                    i = src.index(s); members = src[i + 1:] + src[:i]
                    cyc.remove(src); cyc.remove(cyc_of(d)); cyc.append([d] + members); cyc.append([s])
            elif r < 0.86 and ln:
                n = rng.choice(ln); lines.append("DestroyNode %d" % n); unlink(n); cyc.remove([n]); live[n] = False
            elif r < 0.90 and lh:
                h = rng.choice(lh); lines.append("DestroyList %d" % h)
                for c in list(cyc_of(h)):
                    unlink(c)
                cyc.remove([h]); live[h] = False
            else:
                dead = [c for c in range(NC) if not live[c]]
                if dead:
                    c = rng.choice(dead); lines.append("Create %d" % c); live[c] = True; cyc.append([c])
        else:
            free = [n for n in nodes if (not live[n]) or len(cyc_of(n)) == 1]
            livecells = [c for c in range(NC) if live[c]]
            if r < 0.35 and free:
                n = rng.choice(free); a = rng.choice([c for c in livecells if c != n] or [0])
                if not live[a]: continue
                after = rng.random() < 0.5
                lines.append("%s %d %d" % ("AddNext" if after else "AddPrev", n, a))
                if not live[n]: live[n] = True; cyc.append([n])
                ins(n, a, after)
            elif r < 0.45 and ln:
                n = rng.choice(ln); lines.append("Del %d" % n); unlink(n); cyc.remove([n]); live[n] = False
            elif r < 0.55 and ln:
                n = rng.choice(ln); lines.append("DelInit %d" % n); unlink(n)
            elif r < 0.80 and ln:
                n = rng.choice(ln); cand = [c for c in livecells if c != n]
                if not cand: continue
                a = rng.choice(cand); after = rng.random() < 0.5
                lines.append("%s %d %d" % ("Move" if after else "MoveTail", n, a)); unlink(n); ins(n, a, after)
            elif r < 0.88 and free and lh:
                n = rng.choice(free); h = rng.choice(lh)
                lines.append("AddSorted %d %d" % (n, h))
                if not live[n]: live[n] = True; cyc.append([n])
                s = cyc_of(h); i = s.index(h); lst = s[i + 1:] + s[:i]
                gt = [x for x in lst if n < x]
                ins(n, gt[0] if gt else h, False)
            elif r < 0.94 and free and ln:
                n = rng.choice(free); cand = [x for x in ln if x != n]
                if not cand: continue
                a = rng.choice(cand); lines.append("InsertInstead %d %d" % (n, a))
                if not live[n]: live[n] = True; cyc.append([n])
                ins(n, a, False); unlink(a)
            else:
                cand = [c for c in range(NC) if (not live[c]) or len(cyc_of(c)) == 1]
                if cand:
                    c = rng.choice(cand); lines.append("CInit %d" % c)
                    if not live[c]: live[c] = True; cyc.append([c])
    return lines


def big_list_script(rng, flavor, nn):
    """one head and nn > 1000 nodes: build the list, then pops / unlinks / clear (judged by ListsBigTrace.tla)"""
    lines = ["R %s 1 %d" % (flavor, nn)]
    back, front = ("MovePrev", "MoveNext") if flavor == "cxx" else ("AddPrev", "AddNext")
    if flavor != "cxx":
        lines.append("CInit 0")
    order = list(range(1, nn + 1)); rng.shuffle(order)
    lst = []
    for i, n in enumerate(order):
        if i % 7 == 3:
            lines.append("%s %d 0" % (front, n)); lst.insert(0, n)
        else:
            lines.append("%s %d 0" % (back, n)); lst.append(n)
    for _ in range(30):
        r = rng.random()
        if flavor == "cxx" and r < 0.3: lines.append("PopFront 0"); lst[:1] = []
        elif flavor == "cxx" and r < 0.6: lines.append("PopBack 0"); lst[-1:] = []
        elif lst:
            n = rng.choice(lst); lines.append(("Unlink %d" if flavor == "cxx" else "DelInit %d") % n); lst.remove(n)
    if flavor == "cxx": lines.append("Clear 0")
    return lines


def random_sh(rng, kind, nn, nops):
    lines = ["R %s %d" % (kind, nn)]
    lst = []; fresh = set(range(1, nn + 1))
    for _ in range(nops):
        r = rng.random()
        out = [n for n in range(1, nn + 1) if n not in lst]
        if r < 0.4 and out:
            n = rng.choice(out); lines.append("AddFront %d" % n); lst.insert(0, n); fresh.discard(n)
        elif r < 0.6 and out and lst and kind != "slistxx":
            n = rng.choice(out); a = rng.choice(lst); lines.append("AddAfter %d %d" % (n, a)); lst.insert(lst.index(a) + 1, n); fresh.discard(n)
        elif kind == "slist":
            lines.append("PopFirst"); lst[:1] = []
        elif kind == "hlist":
            cand = lst + list(fresh)
            if cand:
                n = rng.choice(cand); lines.append("Del %d" % n)
                if n in lst: lst.remove(n)
    return lines


def check(ctx):
    drv = ctx.cxx("drv_lists", ["drv_lists.cpp"] + REPO_SRC)
    drvs = ctx.cxx("drv_shlist", ["drv_shlist.cpp"])
    r = ctx.tlc("Lists", "ListsMCthorough.cfg" if ctx.thorough else "ListsMC.cfg", workers=16, timeout=1500, coverage=not ctx.thorough)
    if not r.ok:
        ctx.model_violation(r, "Lists invariants")
    if ctx.thorough:   # beyond the exhaustive bound: random behaviours with 3 heads x 6 nodes
        r = ctx.tlc("Lists", "ListsSim.cfg", workers=16, simulate=20000, depth=80, coverage=False, timeout=1500)
        if not r.ok:
            ctx.model_violation(r, "Lists invariants (simulation, 3 heads x 6 nodes)")
    r = ctx.tlc("SHList", "SHListMC.cfg", workers=4)
    if not r.ok:
        ctx.model_violation(r, "SHList invariants")
    r, g = ctx.tlc_graph("Lists", "ListsGraph.cfg", workers=8)
    if not r.ok:
        ctx.model_violation(r, "Lists graph")
    script, ncov, total = scripts_from_graph(ctx, g, lambda s: "R %s %d %d" % (s["flavor"], s["nh"], s["nn"]))
    r, g2 = ctx.tlc_graph("SHList", "SHListGraph.cfg", workers=4)
    script2, ncov2, total2 = scripts_from_graph(ctx, g2, lambda s: "R %s %d" % (s["kind"], s["nn"]))
    ctx.extra["edges_total"] = total + total2
    ctx.extra["edges_replayed"] = ncov + ncov2
    ctx.samples.append({"edge_cover_walk_prefix": script[:10]})
    nrand = 1500 if ctx.thorough else 300
    rnd = []
    for i in range(nrand):
        rnd += random_dlist(ctx.rng, "cxx" if i % 2 else "c", ctx.rng.randrange(1, 4), ctx.rng.randrange(1, 9), 150 if ctx.thorough else 80)
    rnd2 = []
    for i in range(nrand // 2):
        rnd2 += random_sh(ctx.rng, ["slist", "slistxx", "hlist"][i % 3], ctx.rng.randrange(1, 9), 60)
    t1 = ctx.drive(drv, script, "lists_cover")
    t2 = ctx.drive(drv, rnd, "lists_random")
    bad = ctx.judge("ListsTrace", [t1, t2])
    for b in bad: b["driver"] = "drv_lists"
    ctx.report(bad)
    # items whose link fields lie more than 4 GiB behind the start of the object (member offsets that do not fit 32 bits): a second build
    # of the driver with such an item type, C++ lists only, a few random scripts
    drvh = ctx.cxx("drv_lists_huge", ["drv_lists.cpp"] + REPO_SRC, flags=["-DHUGE_ITEMS=8"])
    hs = []
    for i in range(40 if ctx.thorough else 8):
        hs += random_dlist(ctx.rng, "cxx", ctx.rng.randrange(1, 4), ctx.rng.randrange(1, 7), 60)
    th = ctx.drive(drvh, hs, "lists_huge", lines_per_proc=100)
    bad = ctx.judge("ListsTrace", [th], label="ListsHugeItems")
    for b in bad: b["driver"] = "drv_lists_huge"
    ctx.report(bad)
    # long lists (more than a thousand nodes): reference = the sequence of nodes, judged by ListsBigTrace.tla
    big = []
    for i, nn in enumerate([1100, 1500] + ([1001, 1999] if ctx.thorough else [])):
        big += big_list_script(ctx.rng, "cxx" if i % 2 == 0 else "c", nn)
    tb = ctx.drive(drv, big, "lists_big", lines_per_proc=500)
    bad = ctx.judge("ListsBigTrace", [tb], shards=4)
    for b in bad: b["driver"] = "drv_lists"; b["script"] = None
    ctx.report(bad)
    t3 = ctx.drive(drvs, script2 + rnd2, "shlist")
    bad = ctx.judge("SHListTrace", [t3])
    for b in bad: b["driver"] = "drv_shlist"
    ctx.report(bad)
    ctx.assumptions += [
        "API contract encoded as enabling conditions: C dlist_add*/move_sorted/insert_instead take an entry that is not linked; dlist_move(x, x) is outside the contract (as in the Linux list API); hlist_del only on a linked or never-added node",
        "C++ move of a node next to itself is modelled as the library documents it (unlink first): the node ends unlinked",
        "destroyed nodes keep their storage so dangling links stay observable; ASan observes the rest",
    ]
    return ctx.finish(rule="every edge of the TLC state graphs (ListsGraph.cfg: 2 heads x 3 nodes, both flavours; SHListGraph.cfg) replayed on the real lists + seeded random scripts up to 3 heads x 8 nodes + lists of 1100 and 1500 nodes (ListsBigTrace); every event judged by ListsTrace/ListsBigTrace/SHListTrace")


def replay(ctx, path):
    d = json.load(open(path))
    name = d.get("driver") or "drv_lists"
    drv = ctx.cxx(name, ["drv_lists.cpp"] + REPO_SRC, flags=["-DHUGE_ITEMS=8"]) if name == "drv_lists_huge" else ctx.cxx(name, [name + ".cpp"] + (REPO_SRC if name == "drv_lists" else []))
    lines = []
    for e in d["execution"]:
        if e["e"] == "Reset":
            lines.append("R %s %d %d" % (e["flavor"], e["nh"], e["nn"]) if "flavor" in e else "R %s %d" % (e["kind"], e["nn"]))
        elif e["e"] == "Fault":
            pass
        elif e["e"] == "PopFirst":
            lines.append("PopFirst")
        else:
            lines.append(" ".join([e["e"]] + [str(e[k]) for k in ("a", "b") if e.get(k, -1) != -1]))
    t = ctx.drive(drv, lines + core.fault_line(d), "replay")
    ctx.report(ctx.judge("ListsTrace" if name == "drv_lists" else "SHListTrace", [t]))
    return ctx.finish(rule="replay of " + path)
