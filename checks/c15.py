"""C15 - line editor and terminal.  Spec LineEdit.tla, trace spec LineEditTrace.tla, drivers drv_term*.cpp"""
import json
from vlib import core

KEYS = [97, 98, 8, 27, 91, 65, 66, 67, 68, 51, 126, 13, 10, 3]


def build(ctx, alt=False):
    R = core.REPO
    # the C++ twin needs -fno-access-control; build it as a separate object
    import os, subprocess
    obj = os.path.join(ctx.work, "drv_term_xx%s.o" % ("_alt" if alt else ""))
    ctx.sh(["g++", "-std=gnu++20", "-g"] + core.opt_flags(alt) + core.cov_flags() + ["-fsanitize=address", "-fno-omit-frame-pointer", "-fno-access-control", "-w",
            "-I" + R, "-I" + core.HARNESS, "-c", os.path.join(core.HARNESS, "drv_term_xx.cpp"), "-o", obj], timeout=600)
    return ctx.cxx("drv_term" + ("_alt" if alt else ""), ["drv_term.cpp", R + "/igris/shell/vterm.c", R + "/igris/shell/vtermxx.cpp", R + "/igris/util/numconvert.c"], objs=[obj], alt=alt)


def random_keys(rng, kind, cap, depth, n):
    lines = ["R %s %d %d" % (kind, cap, depth)]
    for _ in range(n):
        r = rng.random()
        if rng.random() < 0.012:      # the same terminal object initialised again with another capacity / history depth (smaller as well as larger)
            lines.append("Reinit %d %d" % (rng.choice([2, 3, 4, 8, 16, cap]), rng.choice([1, 1, 2, 3, 5, depth])))
            continue
        if r < 0.35:
            seq = [rng.choice([97, 98, 99, 32, 91, 65, 51, 126, 127, 255])]
        elif r < 0.45:
            seq = [8]
        elif r < 0.70:
            seq = [27, 91, rng.choice([65, 66, 67, 68, 51, 65, 66])]
            if seq[-1] == 51:
                seq.append(rng.choice([126, 126, 97]))
        elif r < 0.75:
            seq = [27, rng.choice([91, 97, 27, 13, 3])]
        elif r < 0.93:
            seq = rng.choice([[13], [10], [13, 10], [10, 13], [13, 13], [13, 10, 13, 10]])
        else:
            seq = [3]
        lines += ["Key %d" % k for k in seq]
    return lines


def huge_history(rng, kind, cap, depth, nlines):
    """a history buffer of more than 2 GiB (cap * depth > 2^31, byte offsets that do not fit 31 bits): nlines short lines are entered, the
    last ones are recalled with Up and one is executed"""
    lines = ["R %s %d %d" % (kind, cap, depth)]
    for i in range(nlines):
        lines += ["Key %d" % ord(ch) for ch in "c%d" % i] + ["Key 13"]
    for _ in range(40):
        lines += ["Key 27", "Key 91", "Key 65"]
    lines.append("Key 13")
    return lines


def big_history(rng, kind, cap, depth):
    """a history buffer of more than 64 KiB (cap * depth): more distinct lines than fit below 2^16 bytes are entered, then the
    whole history is walked with Up and back with Down, and an old line is executed"""
    lines = ["R %s %d %d" % (kind, cap, depth)]
    nlines = min(depth + 3, 65536 // cap + 8)
    for i in range(nlines):
        for ch in ("c%d" % i):
            lines.append("Key %d" % ord(ch))
        lines.append("Key 13")
    ups = min(depth, nlines) + 2
    for _ in range(ups):
        lines += ["Key 27", "Key 91", "Key 65"]
    for _ in range(rng.randrange(0, 4)):
        lines += ["Key 27", "Key 91", "Key 66"]
    lines.append("Key 13")
    for _ in range(3):
        lines += ["Key 27", "Key 91", "Key 65"]
    lines.append("Key 13")
    return lines


def random_sl(rng, kind, cap, n):
    lines = ["R %s %d" % (kind, cap)]
    for _ in range(n):
        r = rng.random()
        # the line buffer is also used as a raw byte buffer (gstuff receiver): control bytes are ordinary contents for it
        if r < 0.25: lines.append("SlPut %d" % rng.choice([97, 98, 0, 255, 13, 10, 8, 127, 27]))
        elif r < 0.45: lines.append("SlNew %s" % (",".join(str(rng.choice([13, 10, 13, 10, 8, 27, 127, 0, 97]) if rng.random() < 0.4 else rng.randrange(1, 256)) for _ in range(rng.randrange(0, cap + 3))) or "-"))
        elif r < 0.55: lines.append("SlBs %d" % rng.randrange(0, cap + 2))
        elif r < 0.65: lines.append("SlDel %d" % rng.randrange(0, cap + 2))
        elif r < 0.75: lines.append("SlLeft")
        elif r < 0.85: lines.append("SlRight")
        elif r < 0.97: lines.append("SlGet")
        else: lines.append("SlReset")
    return lines


def check(ctx):
    drv = build(ctx)
    r = ctx.tlc("LineEdit", "LineEditMCthorough.cfg" if ctx.thorough else "LineEditMC.cfg", workers=16, timeout=1500)
    if not r.ok:
        ctx.model_violation(r, "LineEdit invariants")
    if ctx.thorough:   # beyond the exhaustive bound: random behaviours with capacities 5 and 8, history depth 3
        r = ctx.tlc("LineEdit", "LineEditSim.cfg", workers=16, simulate=20000, depth=80, coverage=False, timeout=1500)
        if not r.ok:
            ctx.model_violation(r, "LineEdit invariants (simulation)")
    r, g = ctx.tlc_graph("LineEdit", "LineEditMC.cfg", workers=8)
    walks, ncov, total = core.edge_cover_walks(g, ctx.rng, max_len=400)
    ctx.extra["edges_total"] = total; ctx.extra["edges_replayed"] = ncov
    script = []
    for i, w in enumerate(walks):
        st0 = core.parse_state(g.state[w[0][1]])
        for kind in (["c", "xx"] if ctx.thorough else [["c", "xx"][i % 2]]):
            script.append("R %s %d %d" % (kind, st0["cap"], st0["depth"]))
            script += ["Key %d" % core.parse_label(lab)[1][0] for (lab, s, d) in w]
    ctx.samples.append({"edge_cover_walk_prefix": script[:14]})
    rnd = []
    n = 2000 if ctx.thorough else 400
    for i in range(n):
        rnd += random_keys(ctx.rng, ["c", "xx"][i % 2], ctx.rng.choice([2, 3, 4, 5, 8, 16]), ctx.rng.choice([1, 2, 3, 5]), 80)
        if i % 4 == 0:
            rnd += random_sl(ctx.rng, ["sl", "slxx"][(i // 4) % 2], ctx.rng.choice([2, 3, 4, 8]), 60)
    # histories larger than 64 KiB (byte offsets that do not fit 16 bits) and lines longer than 255 characters
    # ... and history depths around 2^8 (the selectors were 8-bit counters: depth 256 divided by zero, deeper ones were cut)
    for i, (cap, depth) in enumerate([(1024, 80), (300, 250), (6, 255), (6, 256), (6, 257)] + ([(4096, 20), (70, 1000), (8, 512), (7, 300)] if ctx.thorough else [])):
        rnd += big_history(ctx.rng, ["c", "xx"][i % 2], cap, depth)
        rnd += big_history(ctx.rng, ["xx", "c"][i % 2], cap, depth)
    # a history of 2.25 GiB (capacity 2^20, depth 2304): slots beyond offset 2^31 are written and recalled
    huge = huge_history(ctx.rng, "c", 2 ** 20, 2304, 2100) + (huge_history(ctx.rng, "xx", 2 ** 20, 2304, 2100) if ctx.thorough else [])
    # the cursor-left sequence for every magnitude of the column count (lines longer than 2^8 / 2^15 / 2^16 columns: the terminals
    # themselves are only driven to 4096 columns, the judge being linear in the line length per key)
    rnd.append("R sl 4")
    for nn in list(range(0, 13)) + [99, 100, 255, 256, 999, 1000, 9999, 10000, 32767, 32768, 65535, 65536, 65537, 70000, 99999, 100000, 131072, 2 ** 24 + 1, 2 ** 31 - 1] + [ctx.rng.randrange(0, 2 ** 31) for _ in range(30)]:
        rnd.append("VtLeft %d" % nn)
    t1 = ctx.drive(drv, script, "term_cover")
    t2 = ctx.drive(drv, rnd, "term_random")
    t3 = ctx.drive(drv, huge, "term_huge", timeout=1500, par=2, lines_per_proc=1000)
    bad = ctx.judge("LineEditTrace", [t1, t2, t3])
    for b in bad: b["driver"] = "drv_term"
    # the second build configuration (size-optimised, plain char unsigned) on part of the executions
    drva = build(ctx, alt=True)
    ta = [ctx.drive(drva, core.subset_executions(script, ctx.seed, 1.0 if ctx.thorough else 0.25), "term_cover_alt"), ctx.drive(drva, core.subset_executions(rnd, ctx.seed, 1.0 if ctx.thorough else 0.34), "term_random_alt")]
    bada = ctx.judge("LineEditTrace", ta)
    for b in bada: b["driver"] = "drv_term@alt"
    bad += bada
    ctx.report(bad)
    ctx.assumptions += [
        "key semantics are those stated at the top of LineEdit.tla (delete acts at the '3' of ESC [ 3 ~; a CR/LF swallowed by an escape still pairs)",
        "screen model: unbounded width, printable/CR/LF/ESC[D/ESC[nD/ESC[C/ESC[K; the prompt may be printed lazily (C++ twin) - an empty row with an empty line is accepted",
        "C buffers are exactly sized between guard bytes; C++ twin buffers are heap blocks watched by ASan",
    ]
    return ctx.finish(rule="edge cover of the reference editor graph (cap 2-3, depth 1-2, 14 keys) replayed on vterm_automate and vtermxx + random key streams (cap up to 16, depth up to 5) + random sline API scripts; every key judged (exec lines, signal, len/cursor, VT100 screen, guards)")


def replay(ctx, path):
    d = json.load(open(path))
    drv = build(ctx, alt=core.is_alt(d))
    lines = []
    for e in d["execution"]:
        n = e["e"]
        if n == "Reset": lines.append("R %s %d %d" % (e["kind"], e["cap"], e["depth"]))
        elif n == "Key": lines.append("Key %d" % e["k"])
        elif n == "Reinit": lines.append("Reinit %d %d" % (e["cap"], e["depth"]))
        elif n == "SlPut": lines.append("SlPut %d" % e["c"])
        elif n == "SlNew": lines.append("SlNew %s" % (",".join(map(str, e["s"])) or "-"))
        elif n in ("SlBs", "SlDel"): lines.append("%s %d" % (n, e["n"]))
        elif n == "VtLeft": lines.append("VtLeft %d" % e["n"])
        elif n != "Fault": lines.append(n)
    t = ctx.drive(drv, lines + core.fault_line(d), "replay")
    ctx.report(ctx.judge("LineEditTrace", [t]))
    return ctx.finish(rule="replay of " + path)
