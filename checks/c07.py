"""C07 - integer <-> text.  Spec NumText.tla (byte-array arithmetic), laws NumTextMC.tla, trace spec NumTextTrace.tla, driver drv_numconv.cpp"""
import json
from vlib import core

WIDTH = {"i8": 1, "u8": 1, "i16": 2, "u16": 2, "i32": 4, "u32": 4, "i64": 8, "u64": 8, "itoa": 4, "utoa": 4, "ltoa": 8, "ultoa": 8}
DPR = {"dec_i8": 1, "dec_i16": 2, "dec_i32": 4, "dec_i64": 8, "dec_il": 8, "dec_u8": 1, "dec_u16": 2, "dec_u32": 4, "dec_u64": 8, "dec_uc": 1, "dec_ul": 8,
       "hex_u8": 1, "hex_u16": 2, "hex_u32": 4, "hex_u64": 8, "bin_u8": 1, "bin_u16": 2, "bin_u32": 4, "bin_u64": 8,
       "dec_us": 2, "dec_ui": 4, "hex_c": 1, "hex_uc": 1, "hex_sc": 1, "hex_us": 2, "hex_ss": 2, "hex_ui": 4, "hex_si": 4, "hex_ul": 8, "hex_sl": 8, "hex_ull": 8, "hex_sll": 8, "hex_ptr": 8}
DIG = "0123456789abcdefghijklmnopqrstuvwxyz"


def fmt(v):
    return ",".join(str(x) for x in v) if v else "-"


def le(v, w):
    return list((v & (2 ** (8 * w) - 1)).to_bytes(w, "little"))


def render(v, base):
    if v == 0: return "0"
    s = ""
    while v: s = DIG[v % base] + s; v //= base
    return s


def build(ctx, alt=False):
    R = core.REPO
    return ctx.cxx("drv_numconv" + ("_alt" if alt else ""), ["drv_numconv.cpp", R + "/igris/util/numconvert.c", R + "/compat/libc/stdlib/itoa.c", R + "/igris/dprint/dprint_func_impl.c"], alt=alt)


def boundary(w):
    b = 8 * w
    vals = {0, 1, 2, 9, 10, 11, 35, 36, 37, 2 ** (b - 1) - 1, 2 ** (b - 1), 2 ** (b - 1) + 1, 2 ** b - 1, 2 ** b - 2}
    for k in range(1, b):
        vals |= {2 ** k - 1, 2 ** k, 2 ** k + 1}
    # multiples of 2^32 and 2^16 (zero low words), small multiples of powers of two above the word size
    if w == 8:
        for a in list(range(1, 40)) + [100, 255, 256, 1000, 65535, 65536, 2 ** 31 - 1]:
            vals |= {a << 32, (a << 32) + 1, (a << 32) - 1, a << 48, a << 40}
    if w >= 4:
        for a in range(1, 20):
            vals |= {a << 16, (a << 16) - 1}
    return sorted(v for v in vals if 0 <= v < 2 ** b)


def check(ctx):
    drv = build(ctx)
    r = ctx.tlc("NumTextMC", "NumTextMCthorough.cfg" if ctx.thorough else "NumTextMC.cfg", workers=16, timeout=2400, coverage=False)
    if not r.ok:
        ctx.model_violation(r, "render/parse laws")
    rng = ctx.rng
    lines = []
    bases_all = list(range(2, 37))
    for fn, w in WIDTH.items():
        if w == 1:
            vals = range(256)
            bases = bases_all
        elif w == 2:
            vals = range(65536) if ctx.thorough else boundary(2) + [rng.randrange(65536) for _ in range(150)]
            bases = bases_all if not ctx.thorough else [2, 3, 8, 10, 16, 36]
        else:
            vals = boundary(w) + [rng.getrandbits(8 * w) for _ in range(3000 if ctx.thorough else 60)]
            bases = bases_all if ctx.thorough else [2, 7, 8, 10, 16, 36] + rng.sample(bases_all, 3)
        for v in vals:
            for b in (bases if w > 1 or ctx.thorough else [2, 8, 10, 16, 36, rng.choice(bases_all)]):
                lines.append("Toa %s %s %d" % (fn, fmt(le(v, w)), b))
    # parsing: rendered texts in either case followed by any terminator; texts around each base's alphabet edge
    terms = [[], [32], [46], [45], [103], [71], [122], [48], [57], [0, 49]]
    for fn in ["i8", "u8", "i16", "u16", "i32", "u32", "i64", "u64"]:
        w = WIDTH[fn]
        for i in range(15000 if ctx.thorough else 250):
            base = rng.choice(bases_all) if i % 3 else rng.choice([2, 8, 10, 16, 36])
            v = rng.choice(boundary(w)) if i % 2 else rng.getrandbits(8 * w)
            txt = render(v, base)
            if rng.random() < 0.5: txt = txt.upper()
            neg = fn[0] == "i" and rng.random() < 0.4
            t = ([45] if neg else []) + [ord(c) for c in txt]
            k = rng.random()
            if k < 0.5:
                t += rng.choice(terms)
            elif k < 0.7:      # a digit that is not a digit of this base
                t += [ord(DIG[base])] if base < 36 else [ord("{")]
                t += [ord("1")]
            lines.append("Ato %s %s %d" % (fn, fmt(t), base))
        # the "any terminator character" quantifier: every byte value after a short number
        for term in range(1, 256):
            for base in ([2, 10, 16, 36] if fn in ("u32", "i64") or ctx.thorough else [rng.choice([2, 8, 10, 16, 36])]):
                body = render(rng.choice([0, 1, base - 1, base, 5 * base + 1]), base)
                lines.append("Ato %s %s %d" % (fn, fmt([ord(c) for c in body] + [term] + ([49] if rng.random() < 0.5 else [])), base))
        for txt in ["", "-", "--1", "+1", " 1", "x", "-x", "0", "00", "0x10", "9", "a", "A", "z", "Z", "g", "1g", "fF", "7f", "80", "ff"]:
            for base in [2, 8, 10, 16, 36]:
                lines.append("Ato %s %s %d" % (fn, fmt([ord(c) for c in txt]), base))
    for fn, w in DPR.items():
        vals = list(range(256)) if w == 1 else boundary(w) + [rng.getrandbits(8 * w) for _ in range(100)]
        for v in vals:
            lines.append("Dpr %s %s" % (fn, fmt(le(v, w))))
            if rng.random() < 0.2:     # the same print with a debug sink that itself prints numbers after every character it receives
                lines.append("Dprn %s %s" % (fn, fmt(le(v, w))))
    # renderings interrupted at instruction boundaries by another complete rendering (an interrupt handler that formats a number while the
    # main program does): each call's text depends on its own arguments only
    nest = []
    fam = ["i8", "i16", "i32", "i64", "u8", "u16", "u32", "u64", "itoa", "utoa", "ltoa", "ultoa"]
    for fn in fam:
        for fn2 in [fn, rng.choice(fam)] + ([rng.choice(fam)] if ctx.thorough else []):
            w1, w2 = WIDTH[fn], WIDTH[fn2]
            v1 = rng.choice([2 ** (8 * w1) - 1, 2 ** (8 * w1 - 1), rng.getrandbits(8 * w1) | 1 << (8 * w1 - 2)]); v2 = rng.choice([0, 7, rng.getrandbits(8 * w2)])
            nest.append("ToaI %s %s %d %s %s %d %d" % (fn, fmt(le(v1, w1)), rng.choice([2, 10, 16]), fn2, fmt(le(v2, w2)), rng.choice([10, 16, 36]), 400 if ctx.thorough else 100))
    # memory images of 0..40 bytes (and 255 / 256 / 300 bytes) through debug_writehex / debug_writebin and their reversed forms
    for n in list(range(0, 12)) + [16, 31, 40, 255, 256, 300]:
        for fn in ("mem_hex", "mem_hexr", "mem_bin", "mem_binr"):
            lines.append("Dpr %s %s" % (fn, fmt([rng.choice([0, 255, 128, 1, rng.randrange(256)]) for _ in range(n)])))
    script = []
    for i, ln in enumerate(lines):
        if i % 500 == 0: script.append("R")
        script.append(ln)
    ctx.samples.append({"calls": [script[1], script[len(script) // 2], script[-1]]})
    t = ctx.drive(drv, script, "numconv")
    nscript = []
    for i, ln in enumerate(nest):
        if i % 3 == 0: nscript.append("R")
        nscript.append(ln)
    tn = ctx.drive(drv, nscript, "numconv_nest", timeout=1500, lines_per_proc=4)
    ctx.extra["interrupted_renderings"] = len(nest)
    bad = ctx.judge("NumTextTrace", [t, tn], shards=16)
    for b in bad: b["driver"] = "drv_numconv"
    # the second build configuration (size-optimised, plain char unsigned) on part of the executions
    ta = ctx.drive(build(ctx, alt=True), core.subset_executions(script, ctx.seed, 1.0 if ctx.thorough else 0.34), "numconv_alt")
    bada = ctx.judge("NumTextTrace", [ta], shards=16)
    for b in bada: b["driver"] = "drv_numconv@alt"
    bad += bada
    ctx.report(bad)
    ctx.assumptions += [
        "letter case as documented per API: igris_i*toa and the itoa family lower case, igris_u*toa and the debug printers upper case; parsers accept either",
        "parsing wraps modulo 2^width (the statement only fixes the value for texts that were rendered from a value of that width)",
        "debug hex/binary printers are fixed width (zero padded), their decimal printers canonical",
        "LP64: int 32 bit, long 64 bit",
    ]
    return ctx.finish(rule="all 8-bit values x bases, 16-bit boundary+random (exhaustive in thorough), 32/64-bit boundary patterns (2^k-1, 2^k, 2^k+1, min, max) + random, x bases 2..36; rendered texts parsed back in either case with terminators; every call judged against NumText.tla")


def replay(ctx, path):
    d = json.load(open(path))
    drv = build(ctx, alt=core.is_alt(d))
    e = d["event"]
    if e.get("e") == "Fault":
        return core.replay_fault(ctx, d, drv, "NumTextTrace", path)
    if e.get("nestline"): ln = e["nestline"]
    elif e["e"] == "Toa": ln = "Toa %s %s %d" % (e["fn"], fmt(e["val"]), e["base"])
    elif e["e"] == "Ato": ln = "Ato %s %s %d" % (e["fn"], fmt(e["text"]), e["base"])
    else: ln = "%s %s %s" % ("Dprn" if e.get("nested") else "Dpr", e["fn"], fmt(e["val"]))
    t = ctx.drive(drv, ["R", ln], "replay")
    ctx.report(ctx.judge("NumTextTrace", [t]))
    return ctx.finish(rule="replay of " + path)
