"""C14 - fixed-capacity containers: static_vector<T,N>, static_string<N> and their twins in std_portable.h.
Specs VecLife.tla (cap = N: every result is the std::vector result cut to N elements; lifetime ledger over the inline storage),
FixedStr.tla; trace specs VecLifeTrace.tla, FixedStrTrace.tla; drivers drv_vector.cpp, drv_sstring.cpp (each also built with -DUSE_STD_PORTABLE)."""
import json
from vlib import core
from checks import veccommon as vc
from checks import c02


def build(ctx):
    return (ctx.cxx("drv_vector", ["drv_vector.cpp"]), ctx.cxx("drv_vector_sp", ["drv_vector.cpp"], flags=["-DUSE_STD_PORTABLE"]),
            ctx.cxx("drv_sstring", ["drv_sstring.cpp"]), ctx.cxx("drv_sstring_sp", ["drv_sstring.cpp"], flags=["-DUSE_STD_PORTABLE"]))


def fmtb(v):
    return ",".join(str(x) for x in v) if v else "-"


def str_label(lab):
    name, args = core.parse_label(lab)
    if name == "CtorCStr": return "CtorCStr " + fmtb(args[0])
    if name == "CtorBuf": return "CtorBuf %s %d" % (fmtb(args[0]), args[1])
    return " ".join([name] + [str(a) for a in args])


def str_scripts(ctx, g, twin):
    walks, ncov, total = core.edge_cover_walks(g, ctx.rng, max_len=120)
    out = []
    for w in walks:
        st0 = core.parse_state(g.state[w[0][1]])
        ok = True
        lines = ["R %d" % st0["cap"]]
        for (lab, s, d) in w:
            name, args = core.parse_label(lab)
            if not twin and name in ("CtorBuf", "PlusEq", "Clear"):
                ok = False; break
            if name == "CtorCStr" and 0 in args[0]:
                continue_src = list(args[0])[:list(args[0]).index(0)]   # a C string ends at its first NUL: same abstract step as the shorter source
                lines.append("CtorCStr " + fmtb(continue_src)); continue
            lines.append(str_label(lab))
            if ctx.rng.random() < 0.2 and name != "Destroy": lines.append("Copy")
        if ok or len(lines) > 1:
            out += lines
    return out, ncov, total


def str_random(rng, twin, n):
    out = []
    for _ in range(n):
        cap = rng.choice([1, 2, 3, 4, 7, 8, 16, 16, 255, 256, 300])
        out.append("R %d" % cap)
        for _ in range(rng.randrange(1, 4)):
            r = rng.random()
            src = [rng.choice([65, 66, 0x7f, 0x80, 0xff, 1]) for _ in range(rng.randrange(0, 2 * cap + 3))]
            if r < 0.3: out.append("CtorDefault")
            elif r < 0.7 or not twin: out.append("CtorCStr " + fmtb(src))
            else: out.append("CtorBuf %s %d" % (fmtb(src), rng.randrange(0, len(src) + 1)))
            for _ in range(rng.randrange(0, cap + 4)):
                q = rng.random()
                if q < 0.6: out.append("PushBack %d" % rng.choice([0, 65, 66, 255, 128]))
                elif q < 0.75 and twin: out.append("PlusEq %d" % rng.choice([65, 66, 200]))
                elif q < 0.8 and twin: out.append("Clear")
                else: out.append("Copy")
            out.append("Destroy")
    return out


def str_big(rng, twin):
    """static_string<N> at the 16-bit boundary: C strings of N-2 .. N+3 characters, then push_back up to and beyond capacity"""
    out = []
    for cap in (65535, 65536, 65537):
        out.append("R %d" % cap)
        for n in (cap + 3, cap - 2):
            out.append("CtorCStr " + fmtb([rng.choice([65, 66, 0x7f, 0x80, 0xff, 1]) for _ in range(n)]))
            out += ["PushBack 65", "PushBack 66", "Copy", "PushBack 67", "PushBack 68"]
            if twin: out += ["PlusEq 69", "Clear", "PushBack 70"]
            out.append("Destroy")
    return out


def check(ctx):
    drv, drv_sp, drs, drs_sp = build(ctx)
    r, g = ctx.tlc_graph("VecLife", "VecLifeStaticGraphThorough.cfg" if ctx.thorough else "VecLifeStaticGraph.cfg", workers=8, timeout=1800)
    if not r.ok:
        ctx.model_violation(r, "capacity-cut vector laws")
    r2, g2 = ctx.tlc_graph("FixedStr", "FixedStrMC.cfg", workers=4)
    if not r2.ok:
        ctx.model_violation(r2, "fixed string laws")
    kinds = [("svec", "tracked"), ("svec", "int")]
    s_main, ncov, total = vc.graph_scripts(ctx, g, kinds, keep=False)
    s_sp, _, _ = vc.graph_scripts(ctx, g, kinds, keep=True)
    ctx.extra["edges_total"] = total; ctx.extra["edges_replayed"] = ncov
    rnd_main, rnd_sp = [], []
    for i in range(1200 if ctx.thorough else 300):
        cap = ctx.rng.choice([1, 2, 3, 5])
        el = "tracked" if i % 3 else ("int" if i % 2 else "sp")      # sp: trivially destructible, not trivially copyable (self pointer)
        rnd_main += vc.random_script(ctx.rng, "svec", el, cap, 60)
        rnd_sp += vc.random_script(ctx.rng, "svec", el, cap, 60, old_iface=True)
    for el in ("tracked", "int"):
        rnd_main += vc.big_static_script(ctx.rng, el)
        rnd_sp += vc.big_static_script(ctx.rng, el, old_iface=True)
        for N in (255, 256):
            rnd_main += vc.big_static_script(ctx.rng, el, N=N)
            rnd_sp += vc.big_static_script(ctx.rng, el, old_iface=True, N=N)
    # capacities at the 16-bit boundary (a size counter or index narrower than size_t): N = 65535, 65536, 65537, filled to exactly N
    for N in (65535, 65536, 65537):
        rnd_main += vc.big_static_script(ctx.rng, "int", N=N)
        rnd_sp += vc.big_static_script(ctx.rng, "int", old_iface=True, N=N)
    traces = [(drv, s_main, "svec_cover"), (drv, rnd_main, "svec_random"), (drv_sp, s_sp, "svec_sp_cover"), (drv_sp, rnd_sp, "svec_sp_random")]
    for (d, sc, name) in traces:
        t = ctx.drive(d, sc, name)
        bad = ctx.judge("VecLifeTrace", [t], label=name)
        for b in bad:
            b["driver"] = "drv_vector_sp" if "_sp_" in name else "drv_vector"
            b["script"] = c02.vec_script([json.loads(x) for x in b["exec"][:b["exec_pos"] + 1]])
        ctx.report(bad)
    for (d, twin, name) in ((drs, False, "sstring"), (drs_sp, True, "sstring_sp")):
        sc, nc, tot = str_scripts(ctx, g2, twin)
        ctx.extra[name + "_edges"] = [nc, tot]
        sc += str_random(ctx.rng, twin, 2000 if ctx.thorough else 400)
        sc += str_big(ctx.rng, twin)
        t = ctx.drive(d, sc, name)
        bad = ctx.judge("FixedStrTrace", [t], label=name)
        for b in bad: b["driver"] = "drv_sstring_sp" if twin else "drv_sstring"
        ctx.report(bad)
    ctx.assumptions += [
        "capacities N in {1,2,3,5,255,256,300,65535,65536,65537} (static_vector; the last three with int elements) and {1,2,3,4,7,8,16,255,256,300,65535,65536,65537} (static_string); constructor sources of length 0..2N(+2)",
        "the inline storage of a static_vector is registered as one block of N slots; the lifetime ledger of VecLife.tla judges every element event in it; the bytes around each object are guard bytes that every event reports",
        "std_portable.h static_vector is the older interface (no range/list constructor, no erase); its move constructor leaves the moved-from elements in the source, which the model allows (their values are adopted from the observation, their number and lifetime are checked)",
        "igris/container/static_string.h operator[] does not instantiate (returns the address of a char as a char reference) and is not part of the check; unbounded_array.h is not part of the property statement and is not judged",
    ]
    return ctx.finish(rule="edge cover of the capacity-cut two-container graph (N in 1..3, sources up to length 5) replayed on static_vector<Tracked|int,N> of both headers + random scripts (N up to 5); FixedStr graph (N in 1..3) + random histories on static_string<N> of both headers; every operation judged for size <= N, contents = std result cut to N, guard bytes, element lifetimes")


def replay(ctx, path):
    d = json.load(open(path))
    drv, drv_sp, drs, drs_sp = build(ctx)
    name = d.get("driver") or "drv_vector"
    if name.startswith("drv_sstring"):
        lines = []
        for e in d["execution"]:
            if e["e"] == "Reset": lines.append("R %d" % e["cap"])
            elif e["e"] == "S":
                op = e["op"]
                if op == "CtorCStr": lines.append("CtorCStr " + fmtb(e["src"]))
                elif op == "CtorBuf": lines.append("CtorBuf %s %d" % (fmtb(e["src"]), e["n"]))
                elif op in ("PushBack", "PlusEq"): lines.append("%s %d" % (op, e["n"]))
                else: lines.append(op)
        t = ctx.drive(drs_sp if name.endswith("_sp") else drs, lines + core.fault_line(d), "replay")
        ctx.report(ctx.judge("FixedStrTrace", [t]))
    else:
        t = ctx.drive(drv_sp if name.endswith("_sp") else drv, (d.get("script") or c02.vec_script(d["execution"])) + core.fault_line(d), "replay")
        ctx.report(ctx.judge("VecLifeTrace", [t]))
    return ctx.finish(rule="replay of " + path)
