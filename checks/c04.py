"""C04 - gstuff framing round trip.  Spec Gstuff.tla (Encode), GstuffEncMC.tla (spec-level round trip), GstuffTrace.tla (Encode events)."""
import json, itertools
from vlib import core
from checks import gstuff_common as gc
from checks import c05


def partitions(rng, p, exhaustive):
    """scatter-gather partitions of payload p as strings a,b|c|..."""
    n = len(p)
    out = []
    if exhaustive and n <= 4:
        for mask in range(1 << max(0, n - 1)):
            parts, cur = [], [p[0]] if n else []
            for i in range(1, n):
                if mask >> (i - 1) & 1:
                    parts.append(cur); cur = [p[i]]
                else:
                    cur.append(p[i])
            parts.append(cur)
            out.append(parts)
        out.append([[]] + out[0] if out else [[]])      # a leading empty piece
    else:
        for _ in range(2):
            cuts = sorted(rng.sample(range(n + 1), min(n + 1, rng.randrange(0, 4))))
            parts, prev = [], 0
            for c in cuts + [n]:
                parts.append(p[prev:c]); prev = c
            out.append(parts)
    return ["|".join(gc.fmt(x) for x in parts) for parts in out]


def check(ctx):
    drv = gc.build(ctx)
    r = ctx.tlc("GstuffEncMC", "GstuffEncMCthorough.cfg" if ctx.thorough else "GstuffEncMC.cfg", workers=16, timeout=1500)
    if not r.ok:
        ctx.model_violation(r, "Encode/receiver round trip at specification level")
    # behaviours out of TLC: payloads whose frame reaches the bound 2n+4 (found by TLC, GstuffWorst.tla)
    rw = ctx.tlc("GstuffWorst", "GstuffWorstthorough.cfg" if ctx.thorough else "GstuffWorst.cfg", workers=8, timeout=900, coverage=False)
    if not rw.ok:
        ctx.model_violation(rw, "frame length bound 2n+4")
    import re
    worst = {"default": [], "v0": []}
    for m in re.finditer(r'<<"WORST", "(\w+)", (<<[^>]*>>)>>', rw.out):
        worst[m.group(1)].append(core.parse_tla(m.group(2)))
    worst["legacy"] = worst["v0"]
    ctx.extra["worst_case_payloads_from_tlc"] = sum(len(v) for v in worst.values())
    if not worst["default"] or not worst["v0"]:
        raise core.InfraError("TLC produced no worst-case payloads")
    rng = ctx.rng
    lines = []
    for name in gc.NAMES:
        sp = gc.special_bytes(name)
        crcsp = [b for b in range(256) if gc.crc8([b]) in sp]
        alpha = sp + crcsp + [0, 97]
        lines.append("R %s 8" % name)
        maxlen = 4 if ctx.thorough and name != "legacy" else 3
        for n in range(0, maxlen + 1):
            for p in itertools.product(alpha, repeat=n):
                p = list(p)
                if name == "legacy":
                    lines.append("Enc plain %s" % gc.fmt(p))
                    continue
                lines.append("Enc plain %s" % gc.fmt(p))
                lines.append("Enc vecbuf %s" % gc.fmt(p))
                for part in partitions(rng, p, True):
                    lines.append("Enc iov %s" % part)
                    lines.append("Enc vec %s" % part)
        for p in worst[name]:
            if name == "legacy":
                lines.append("Enc plain %s" % gc.fmt(p)); continue
            lines += ["Enc plain %s" % gc.fmt(p), "Enc vecbuf %s" % gc.fmt(p)]
            for part in partitions(rng, p, False):
                lines += ["Enc iov %s" % part, "Enc vec %s" % part]
        # random payloads of all lengths
        for i in range(200000 if ctx.thorough else 300):
            p = gc.rand_payload(rng, name, rng.choice([0, 1, 2, 3, 7, 8, 31, 64, 300]))
            if name == "legacy":
                lines.append("Enc plain %s" % gc.fmt(p))
            else:
                v = rng.choice(["plain", "vecbuf", "iov", "vec"])
                lines.append("Enc %s %s" % (v, partitions(rng, p, False)[0] if v in ("iov", "vec") else gc.fmt(p)))
        # lengths around the 8-bit boundary and beyond (size computations and counters that do not fit a byte); frames of
        # 32 KiB and more are not generated: TLC's evaluation of Encode is quadratic in the frame length
        for n in [253, 254, 255, 256, 257, 258, 511, 512, 1023, 2049]:
            for rep in range(2 if n < 1000 else 1):
                sp = gc.special_bytes(name)
                p = [rng.choice(sp) if rng.random() < (0.5 if rep else 0.03) else rng.randrange(256) for _ in range(n)]
                if name == "legacy":
                    lines.append("Enc plain %s" % gc.fmt(p))
                else:
                    for v in (["plain", "vecbuf", "iov", "vec"] if n < 1000 else [rng.choice(["plain", "vecbuf"]), rng.choice(["iov", "vec"])]):
                        lines.append("Enc %s %s" % (v, partitions(rng, p, False)[0] if v in ("iov", "vec") else gc.fmt(p)))
    # payloads ending in a control byte whose CRC-8 is a control byte too (all 81 pairs of NUL BS TAB LF CR ESC SP DEL FF)
    for name in gc.NAMES:
        lines.append("R %s 8" % name)
        for p in gc.control_tail_payloads(rng):
            if name == "legacy":
                lines.append("Enc plain %s" % gc.fmt(p))
            else:
                v = rng.choice(["plain", "vecbuf", "iov", "vec"])
                lines.append("Enc %s %s" % (v, partitions(rng, p, False)[0] if v in ("iov", "vec") else gc.fmt(p)))
    # worst-case contents (every byte a marker / escape byte: the frame reaches 2n+4) at lengths around the powers of two up to 4096
    # (and up to 65536 in the thorough tier) - where a fixed-size staging buffer or a doubled size computation would give way
    for name in gc.NAMES:
        sp = gc.special_bytes(name)
        cx = gc.cx_of(name)
        lines.append("R %s 8" % name)
        # (round decimal lengths and network sizes too: a staging buffer is as likely to be sized 1500 or 2000 as 2048)
        for n in list(range(1, 131)) + [150, 200, 250, 300, 400, 500, 576, 750, 999, 1000, 1001, 1200, 1400, 1472, 1480, 1499, 1500, 1501, 1514, 1518, 1600, 2000, 2500, 3000, 3500, 4000]:
            p = [cx["START"]] * n if n % 2 else [rng.choice([cx["START"], cx["STOP"], cx["STUB"]]) for _ in range(n)]
            if name == "legacy": lines.append("Enc plain %s" % gc.fmt(p))
            else:
                lines.append("Enc vecbuf %s" % gc.fmt(p)); lines.append("Enc vec %s" % partitions(rng, p, False)[0])
        big = [127, 128, 129, 255, 256, 257, 511, 512, 513, 1023, 1024, 1025, 2046, 2047, 2048, 2049, 4095, 4096, 4097]
        if ctx.thorough: big += [8191, 8192, 16383, 16384, 32767, 32768, 65535, 65536]
        for n in big:
            fills = [[cx["START"]] * n, [cx["STUB"]] * n, [rng.choice([cx["START"], cx["STOP"], cx["STUB"]]) for _ in range(n)]]
            one = [cx["STOP"]] * n; one[rng.randrange(n)] = rng.randrange(256); fills.append(one)
            for p in (fills if n <= 4097 else fills[:2]):
                if name == "legacy":
                    lines.append("Enc plain %s" % gc.fmt(p))
                else:
                    for v in (["plain", "vecbuf", "iov", "vec"] if n <= 1025 else ["vecbuf", "vec", rng.choice(["plain", "iov"])]):
                        lines.append("Enc %s %s" % (v, partitions(rng, p, False)[0] if v in ("iov", "vec") else gc.fmt(p)))
    # executions of moderate size
    script = []
    cur_name = None
    k = 0
    for ln in lines:
        if ln.startswith("R "):
            cur_name = ln; script.append(ln); k = 0
        else:
            if k and k % 200 == 0:
                script.append(cur_name)
            script.append(ln); k += 1
    ctx.samples.append({"script_prefix": script[:6]})
    t = ctx.drive(drv, script, "gstuff_enc")
    bad = ctx.judge("GstuffTrace", [t])
    for b in bad: b["driver"] = "drv_gstuff"
    # the second build configuration (size-optimised, plain char unsigned) on a third of the executions
    ta = ctx.drive(gc.build(ctx, alt=True), core.subset_executions(script, ctx.seed, 1.0 if ctx.thorough else 0.34, always=("worst",)), "gstuff_enc_alt")
    bada = ctx.judge("GstuffTrace", [ta])
    for b in bada: b["driver"] = "drv_gstuff@alt"
    bad += bada
    ctx.report(bad)
    ctx.assumptions += [
        "the receiver used for the round trip is the real one with a buffer of n+8 bytes; its per-byte behaviour on arbitrary streams is C05",
        "output buffers are exactly 2n+4 bytes between guard bytes; the self-sizing overloads are additionally watched by ASan",
    ]
    return ctx.finish(rule="all payloads up to length 2-3 over {marker/escape bytes, single bytes whose CRC is a marker, 0x00, 0x61} x every encoder variant x every iovec partition + random payloads up to 300 bytes; each Encode event judged against Encode(cx,p) and the one-packet-on-last-byte rule")


replay = c05.replay
