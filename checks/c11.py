"""C11 - strto*/ato*, qsort, bsearch.  Specs StrTo.tla (+laws StrToMC), SortSearch.tla (+self-test SortSearchMC), trace spec StdlibTrace.tla"""
import json, os, itertools
from vlib import core

DIG = "0123456789abcdefghijklmnopqrstuvwxyz"
FNS = ["strtol", "strtoul", "strtoll", "strtoull", "strtoimax", "strtoumax"]


def fmt(v):
    return ",".join(str(x) for x in v) if v else "-"


def render(v, base):
    if v == 0: return "0"
    s = ""
    while v: s = DIG[v % base] + s; v //= base
    return s


def build(ctx, alt=False):
    R = core.REPO
    flags = ["-fno-builtin", "-include", "stdint.h", "-include", os.path.join(core.HARNESS, "rename_libc.h"), "-include", os.path.join(R, "igris/util/errno.h")]
    objs = []
    for i, src in enumerate(["stdlib/strtol.c", "stdlib/strtoul.c", "stdlib/strtoll.c", "stdlib/strtoull.c", "inttypes/strtoimax.c", "inttypes/strtoumax.c",
                             "stdlib/atol.c", "stdlib/qsort.c", "stdlib/bsearch.c", "stdlib/rand.c"]):
        o = os.path.join(ctx.work, "libc%s%d.o" % ("_alt" if alt else "", i))
        ctx.sh(["gcc", "-std=c11", "-D_POSIX_C_SOURCE=200809L", "-g"] + core.opt_flags(alt) + core.cov_flags() + ["-fsanitize=address", "-fno-omit-frame-pointer", "-w", "-I" + R] + flags + ["-c", os.path.join(R, "compat/libc", src), "-o", o], timeout=300)
        objs.append(o)
    return ctx.cxx("drv_stdlib" + ("_alt" if alt else ""), ["drv_stdlib.cpp"], objs=objs, alt=alt)


def texts(rng, thorough):
    out = []
    ws = ["", " ", "\t\n ", "\v\f\r"]
    signs = ["", "-", "+"]
    limits = [2 ** 63 - 1, 2 ** 63, 2 ** 63 + 1, 2 ** 64 - 1, 2 ** 64, 2 ** 64 + 1, 2 ** 31 - 1, 2 ** 31, 2 ** 32 - 1, 2 ** 32, 0, 1, 7, 8, 9, 10, 15, 16, 35, 36]
    for base in ([0, 2, 8, 10, 16, 36] + (list(range(3, 36)) if thorough else [3, 7, 35])):
        b = base if base else 10
        for lim in limits + [l * b for l in limits[:6]] + [l // b for l in limits[:6]]:
            for sg in signs:
                body = render(lim, b)
                pref = rng.choice(["", "", "0x", "0X", "0"]) if base in (0, 16) else ""
                if base == 0 and pref == "": body = render(lim, 10)
                if base == 0 and pref == "0": body = render(lim, 8)
                if base == 0 and pref in ("0x", "0X"): body = render(lim, 16)
                tail = rng.choice(["", "", " ", "g", "z", ".", DIG[b] if b < 36 else "{", DIG[b - 1].upper(), chr(rng.randrange(1, 128)), chr(rng.randrange(1, 48))])
                out.append((rng.choice(ws) + sg + pref + (body.upper() if rng.random() < 0.3 else body) + tail, base))
    edge = ["", " ", "-", "+", "+-1", "0x", "0X", "0xg", "0x 1", "-0x", "0", "00", "08", "09", "0b1", "x1", " 0x1F", "-0X7f", "0x0", "1 2", "--1", "  +42abc", "zz", "Zz", "1e5", "12.5",
            "9223372036854775807", "9223372036854775808", "-9223372036854775808", "-9223372036854775809", "18446744073709551615", "18446744073709551616", "-18446744073709551615", "-18446744073709551616",
            "99999999999999999999999999", "-99999999999999999999999999", "0x7fffffffffffffff", "0x8000000000000000", "0xffffffffffffffff", "0x10000000000000000", "01777777777777777777777", "02000000000000000000000"]
    for e in edge:
        for base in [0, 2, 8, 10, 16, 36]:
            out.append((e, base))
    return out


def check(ctx):
    drv = build(ctx)
    r = ctx.tlc("StrToMC", "StrToMCthorough.cfg" if ctx.thorough else "StrToMC.cfg", workers=16, timeout=2400, coverage=False)
    if not r.ok:
        ctx.model_violation(r, "strto laws")
    r = ctx.tlc("SortSearchMC", "SortSearchMC.cfg", workers=16, timeout=1200, coverage=False)
    if not r.ok:
        ctx.model_violation(r, "qsort/bsearch monitor self-test")
    rng = ctx.rng
    lines = []
    tx = texts(rng, ctx.thorough)
    for (s, base) in tx:
        bs = [ord(c) for c in s]
        for fn in (FNS if ctx.thorough else [rng.choice(FNS[0::2]), rng.choice(FNS[1::2])] + rng.sample(FNS, 2)):
            lines.append("Strto %s %s %d" % (fn, fmt(bs), base))
        if base == 10:
            lines.append("Strto atol %s 10" % fmt(bs)); lines.append("Strto atoi %s 10" % fmt(bs))
    # all short texts over the alphabet of the TLC configuration, strtol/strtoul, base 0 and 16
    alpha = [32, 45, 43, 48, 49, 55, 120, 70, 103]
    for n in range(0, 4 if ctx.thorough else 3):
        for t in itertools.product(alpha, repeat=n):
            for base in (0, 16, 8):
                lines.append("Strto %s %s %d" % (rng.choice(["strtol", "strtoul"]), fmt(t), base))
    # qsort: all arrays up to length 5 (6) over 3 keys, sizes 1..32, two comparators; random longer arrays
    maxn = 6 if ctx.thorough else 5
    for n in range(0, maxn + 1):
        for ks in itertools.product([0, 1, 2], repeat=n):
            size = rng.choice([1, 2, 3, 4, 7, 8, 12, 16, 31, 32])
            lines.append("Qsort %d %d %s" % (size, rng.choice([1, 1, 2]), fmt(ks)))
    for i in range(30000 if ctx.thorough else 800):
        n = rng.choice([4, 5, 6, 7, 8, 9, 15, 16, 17, 33, 64])
        ks = [rng.randrange(rng.choice([2, 3, 8, 256])) for _ in range(n)]
        lines.append("Qsort %d %d %s" % (rng.randrange(1, 33), rng.choice([1, 2, 16]), fmt(ks)))
    # bsearch: sorted arrays incl. empty, keys present and absent
    for n in range(0, maxn + 1):
        for ks in itertools.combinations_with_replacement([1, 3, 5], n):
            for key in range(0, 7):
                lines.append("Bsearch %d 1 %s %d" % (rng.choice([1, 2, 4, 8, 32]), fmt(ks), key))
    for i in range(30000 if ctx.thorough else 800):
        n = rng.choice([0, 1, 2, 3, 7, 8, 9, 31, 32, 33, 64])
        div = rng.choice([1, 2])
        ks = sorted(rng.randrange(0, 250) for _ in range(n))
        key = rng.choice(ks) if ks and rng.random() < 0.5 else rng.randrange(0, 256)
        lines.append("Bsearch %d %d %s %d" % (rng.randrange(1, 33), div, fmt(ks), key))
    # array lengths and element sizes around and beyond the 8-bit boundary (300, 1000 elements; elements of 255..300 bytes)
    for n, size in ((255, 8), (256, 4), (257, 12), (300, 16), (1000, 8), (40, 255), (40, 256), (33, 300)):
        ks = [rng.randrange(rng.choice([3, 50, 256])) for _ in range(n)]
        lines.append("Qsort %d %d %s" % (size, rng.choice([1, 2]), fmt(ks)))
        sk = sorted(rng.randrange(0, 250) for _ in range(n))
        for key in (sk[0], sk[-1], sk[n // 2], 251, rng.randrange(0, 256)):
            lines.append("Bsearch %d 1 %s %d" % (size, fmt(sk), key))
    script = []
    for i, ln in enumerate(lines):
        if i % 400 == 0: script.append("R %d" % rng.randrange(1, 10 ** 6))
        script.append(ln)
        # re-entrant use: the comparator itself sorts and searches another array through the library every third call
        if ln[0] in "QB" and rng.random() < 0.12:
            w = ln.split(" ", 1); script.append(w[0] + "N " + w[1])
    ctx.samples.append({"calls": [script[1], script[len(script) // 2], script[-1]]})
    t = ctx.drive(drv, script, "stdlib")
    # texts of 2 GiB and more: 2^31 (+ a little) white-space characters or leading zeros in front of a short numeral - consumed-character
    # counts and end offsets that do not fit 31 bits; one process, the buffer is filled once per (character, count)
    big = ["R 1"]
    fns = ["strtol", "strtoimax", "strtoul", "strtoll"] + (["strtoull", "strtoumax", "atol", "atoi"] if ctx.thorough else [])
    for ch, k in ((48, 2 ** 31 + 3), (32, 2 ** 31 + 1)) + (((48, 2 ** 31 - 1), (32, 2 ** 32 + 5)) if ctx.thorough else ()):
        for fn in fns:
            tail = rng.choice(["12345", "-77", "9", "+4096 "]) if ch == 32 else rng.choice(["12345", "7x", "", "00019 "])
            big.append("StrtoBig %s %d %d %s %d" % (fn, ch, k, fmt([ord(c) for c in tail]), 10))
    tb = ctx.drive(drv, big, "stdlib_big", timeout=1500, par=1)
    # sorts interrupted at an instruction boundary by a complete sort + search of another array (interrupt / signal handler that sorts):
    # each call's result depends on its own arguments only
    inter = []
    for size, n in ((4, 6), (8, 5), (3, 7), (64, 4)) + (((16, 5), (1, 12), (65, 4), (2, 20), (32, 16), (12, 30), (100, 6)) if ctx.thorough else ()):
        inter += ["R %d" % rng.randrange(1, 10 ** 6), "QsortI %d 1 %s %d" % (size, fmt([rng.randrange(0, 9) for _ in range(n)]), 600 if ctx.thorough else 60)]
    ti = ctx.drive(drv, inter, "stdlib_interrupted", timeout=1500, lines_per_proc=2)
    bad = ctx.judge("StdlibTrace", [t, tb, ti], shards=16)
    for b in bad: b["driver"] = "drv_stdlib"
    # the second build configuration (size-optimised, plain char unsigned) on part of the executions
    ta = ctx.drive(build(ctx, alt=True), core.subset_executions(script, ctx.seed, 1.0 if ctx.thorough else 0.34), "stdlib_alt")
    bada = ctx.judge("StdlibTrace", [ta], shards=16)
    for b in bada: b["driver"] = "drv_stdlib@alt"
    bad += bada
    ctx.report(bad)
    ctx.assumptions += [
        "LP64: long, long long and intmax_t are 64 bit, int 32 bit; atoi/atol are compared only where the value is representable (ISO leaves overflow undefined)",
        "qsort elements carry their identity in the payload so that the permutation check is on whole elements; comparators are key and key div d (consistent weak orders); compat rand() is seeded per execution so pivots vary",
        "re-entrant use: a sample of the qsort/bsearch calls is repeated with a comparator that itself calls qsort and bsearch on another array every third comparison",
        "bsearch comparator calls are logged with the positions of both arguments: key first, an element of the array second",
    ]
    return ctx.finish(rule="numeric texts around every base's alphabet edge, 0x/0 prefixes and each type's overflow boundary x bases {0,2,8,10,16,36,...}; all short texts over a 9-character alphabet; qsort on all arrays up to length 5 over 3 keys + random arrays up to 64 with element sizes 1..32; bsearch on sorted arrays incl. empty with present and absent keys; each call judged by StdlibTrace.tla")


def replay(ctx, path):
    d = json.load(open(path))
    drv = build(ctx, alt=core.is_alt(d))
    e = d["event"]
    if e.get("e") == "Fault":
        return core.replay_fault(ctx, d, drv, "StdlibTrace", path)
    if e["e"] == "StrtoBig":
        t = ctx.drive(drv, ["R 1", "StrtoBig %s %d %s %s %d" % (e["fn"], e["ch"], e["ks"], fmt(e["tail"]), e["base"])], "replay", timeout=1500)
        ctx.report(ctx.judge("StdlibTrace", [t]))
        return ctx.finish(rule="replay of " + path)
    if e["e"] == "Strto": ln = "Strto %s %s %d" % (e["fn"], fmt(e["text"]), e["base"])
    elif e.get("nestline"): ln = e["nestline"]
    elif e["e"] == "Qsort": ln = "Qsort%s %d %d %s" % ("N" if e.get("nested") else "", e["size"], e["div"], fmt(e["keys"]))
    else: ln = "Bsearch%s %d %d %s %d" % ("N" if e.get("nested") else "", e["size"], e["div"], fmt(e["keys"]), e["key"])
    t = ctx.drive(drv, ["R 1", ln], "replay")
    ctx.report(ctx.judge("StdlibTrace", [t]))
    return ctx.finish(rule="replay of " + path)
