"""C18 - hexascii and base64 codecs.  Spec Codec.tla, laws CodecMC.tla, trace spec CodecTrace.tla, driver drv_codec.cpp"""
import json, itertools, base64
from vlib import core

ENC = ["hexenc_c", "hexenc_ptr", "hexenc_string", "hexenc_buffer", "b64enc_ptr", "b64enc_string", "b64urlenc_ptr", "b64urlenc_string"]


def fmt(v):
    return ",".join(str(x) for x in v) if v else "-"


# inputs for decoders are produced with Python's encoders (input generation only; TLC judges the output)
def hexenc(b): return list(bytes(b).hex().upper().encode())
def b64enc(b): return list(base64.b64encode(bytes(b)))
def b64urlenc(b): return list(base64.urlsafe_b64encode(bytes(b)))


def calls_for(x):
    out = ["Codec %s %s" % (fn, fmt(x)) for fn in ENC]
    out.append("Codec hexdec_c %s" % fmt(hexenc(x)))
    out.append("Codec hexdec_c_inplace %s" % fmt(hexenc(x)))
    out.append("Codec b64dec %s" % fmt(b64enc(x)))
    out.append("Codec b64urldec %s" % fmt(b64urlenc(x)))
    return out


def check(ctx):
    R = core.REPO
    drv = ctx.cxx("drv_codec", ["drv_codec.cpp", R + "/igris/util/hexascii.c", R + "/igris/string/hexascii_string.cpp", R + "/igris/util/base64.cpp"])
    r = ctx.tlc("CodecMC", "CodecMCthorough.cfg" if ctx.thorough else "CodecMC.cfg", workers=16, timeout=2400, coverage=False)
    if not r.ok:
        ctx.model_violation(r, "codec laws (round trip, lengths, alphabets, RFC 4648 vectors)")
    rng = ctx.rng
    lines = []
    # all byte strings of length <= 1 (<= 2 thorough) + length <= 4 over a reduced alphabet
    for b in range(256):
        lines += calls_for([b])
    lines += calls_for([])
    if ctx.thorough:
        for a in range(256):
            for b in range(0, 256, 1 if a % 16 == 0 else 17):
                lines += calls_for([a, b])
    alpha = [0, 127, 128, 251, 255]
    for n in range(2, 5):
        for x in itertools.product(alpha, repeat=n):
            lines += calls_for(list(x))
    for i in range(20000 if ctx.thorough else 300):
        lines += calls_for([rng.randrange(256) for _ in range(rng.choice([1, 2, 3, 4, 5, 6, 7, 30, 31, 32, 33, 200]))])
    # hexadecimal texts with a dangling last character (lengths 1, 3, 5 ...): only memory safety is required
    for n in (0, 1, 2, 3, 7, 32):
        lines.append("Codec hexdec_c_odd %s" % fmt(hexenc([rng.randrange(256) for _ in range(n)]) + [rng.choice([48, 65, 70, 57])]))
    # base64 of inputs beyond 2^16 bytes and beyond 2^16 three-byte groups (judged by the position-by-position form of the definition)
    for n in ([65535, 65536, 65537, 196607, 196608, 196609, 200000] if ctx.thorough else [65536, 196608, 196610]):
        x = [rng.randrange(256) for _ in range(n)]
        lines.append("Codec %s %s" % (rng.choice(["b64enc_ptr", "b64enc_string"]), fmt(x)))
        lines.append("Codec %s %s" % (rng.choice(["b64urlenc_ptr", "b64urlenc_string"]), fmt(x)))
        lines.append("Codec b64dec %s" % fmt(b64enc(x)))
    # fixed width helpers: 8/16 bit exhaustive, 32/64 boundary biased
    for v in range(256):
        lines.append("Codec u8hex %d" % v)
        lines.append("Codec hexu8 %s" % fmt(hexenc([v])))
    for v in (range(65536) if ctx.thorough else list(range(0, 65536, 37)) + [65535, 255, 256, 4095, 4096]):
        le = [v & 255, v >> 8]
        lines.append("Codec u16hex %s" % fmt(le))
        lines.append("Codec hexu16 %s" % fmt(hexenc(le[::-1])))
    edge = [0, 1, 0x7f, 0x80, 0xff, 0x100, 0xffff, 0x10000, 0x7fffffff, 0x80000000, 0xffffffff, 0x100000000, 0x0123456789abcdef, 0xfedcba9876543210, 2**63 - 1, 2**63, 2**64 - 1]
    for w, name in ((4, "32"), (8, "64")):
        vals = [e & (2 ** (8 * w) - 1) for e in edge] + [rng.getrandbits(8 * w) for _ in range(5000 if ctx.thorough else 150)]
        for v in vals:
            le = list(v.to_bytes(w, "little"))
            lines.append("Codec u%shex %s" % (name, fmt(le)))
            lines.append("Codec hexu%s %s" % (name, fmt(hexenc(le[::-1]))))
    script = []
    for i, ln in enumerate(lines):
        if i % 500 == 0:
            script.append("R")
        script.append(ln)
    ctx.samples.append({"calls": script[1:6]})
    t = ctx.drive(drv, script, "codec")
    bad = ctx.judge("CodecTrace", [t], shards=16)
    for b in bad: b["driver"] = "drv_codec"
    # the second build configuration (size-optimised, plain char unsigned) on part of the executions
    ta = ctx.drive(ctx.cxx("drv_codec_alt", ["drv_codec.cpp", R + "/igris/util/hexascii.c", R + "/igris/string/hexascii_string.cpp", R + "/igris/util/base64.cpp"], alt=True), core.subset_executions(script, ctx.seed, 1.0 if ctx.thorough else 0.34), "codec_alt")
    bada = ctx.judge("CodecTrace", [ta], shards=16)
    for b in bada: b["driver"] = "drv_codec@alt"
    bad += bada
    ctx.report(bad)
    ctx.assumptions += [
        "decoders are exercised on everything the encoders can produce (upper-case hex; padded RFC 4648 text in both alphabets), as the statement requires; their behaviour on malformed text is not constrained",
        "igris::hexascii_decode(std::string/buffer) is declared but not defined in the library, so only the C decoder exists to be checked",
    ]
    return ctx.finish(rule="all 1-byte strings (2-byte thorough), all strings up to length 4 over {00,7F,80,FB,FF}, random strings up to 200 bytes through every encoder form and the decoders; 8/16-bit fixed-width helpers exhaustively (quick: stride 37), 32/64-bit boundary-biased; each call judged against Codec.tla")


def replay(ctx, path):
    d = json.load(open(path))
    R = core.REPO
    drv = ctx.cxx("drv_codec", ["drv_codec.cpp", R + "/igris/util/hexascii.c", R + "/igris/string/hexascii_string.cpp", R + "/igris/util/base64.cpp"], alt=core.is_alt(d))
    e = d["event"]
    if e.get("e") == "Fault":
        return core.replay_fault(ctx, d, drv, "CodecTrace", path)
    t = ctx.drive(drv, ["R", "Codec %s %s" % (e["fn"], fmt(e["in"]))], "replay")
    ctx.report(ctx.judge("CodecTrace", [t]))
    return ctx.finish(rule="replay of " + path)
