"""C03 - ring buffers.  Spec: specs/Ring.tla, trace spec: specs/RingTrace.tla,
driver: harness/drv_ring.cpp (+ drv_cyclic for ring_counter/cyclic_buffer)."""
import json, os
from vlib import core


def fmt_list(v):
    return ",".join(str(x) for x in v) if v else "-"


def label_to_line(label):
    name, args = core.parse_label(label)
    if name in ("Putc", "Read", "MoveTail"):
        return "%s %d" % (name, args[0])
    if name in ("Write", "MoveHead"):
        return "%s %s" % (name, fmt_list(args[0]))
    return name


def queries(rng, kind, size, fill):
    """state-preserving accessor calls valid for the current fill"""
    out = []
    if kind == "c":
        out.append("Iter")
        out.append("Fixup %d" % rng.randrange(0, 3 * size))
        return out
    if fill > 0:
        out += ["Last", "TailV"]
        off = rng.randrange(0, fill + 1)
        cnt = rng.randrange(0, fill - off + 1)
        out.append("GetLast %d %d %d" % (off, cnt, rng.randrange(2)))
    out.append("Fixup %d" % rng.randrange(-size, 3 * size))
    out.append("Distance %d %d" % (rng.randrange(size), rng.randrange(size)))
    return out


BOUNDS = [2 ** 31 - 1, 2 ** 31, 2 ** 31 + 5, 2 ** 32 - 1]


def big_script(rng, kind, size):
    """a short history on a large ring: bulk writes / reads / head and tail moves of tens of thousands of bytes, so that the
    indices pass 2^15 and 2^16 and wrap around the end"""
    cap = size - 1; fill = 0
    lines = ["R %s %d" % (kind, size)]
    def data(n, base):
        return fmt_list([(base + j * 7) % 251 + 1 for j in range(n)])
    for step in range(10):
        n = rng.choice([cap - fill, (cap - fill) // 2, min(cap - fill, 30000), min(cap - fill, 40000)])
        if step % 2 == 0:
            lines.append("Write %s" % data(n, step)); fill += n
        else:
            lines.append("MoveHead %s" % data(n, step)); fill += n
        k = rng.choice([fill, fill // 2, min(fill, 30000), min(fill, 33000)])
        lines.append("Read %d" % k if step % 3 else "MoveTail %d" % k); fill -= k
        lines.append("Putc %d" % (step + 1)); fill = min(cap, fill + 1)
    return lines


def random_script(rng, kind, size, nops, full_bytes=True):
    cap = size - 1
    fill = 0
    lines = ["R %s %d" % (kind, size)]
    def rb():
        r = rng.random()
        if r < 0.25:
            return rng.choice([0, 255, 254, 128, 127, 1])
        return rng.randrange(256)
    for _ in range(nops):
        r = rng.random()
        if kind == "xt" and r < 0.08:
            lines.append("PutcFail %d" % rb())              # element construction throws: nothing may change
        elif kind in ("xi", "xc") and r < 0.04:
            lines.append("Dup %s" % rng.choice(["copy", "copy", "move", "assign", "moveassign"]))     # the ring replaced by a copy of itself
        elif r < 0.22:
            lines.append("Putc %d" % rb()); fill = min(cap, fill + 1)
        elif r < 0.40:
            lines.append("Getc"); fill = max(0, fill - 1)
        elif r < 0.55:
            n = rng.randrange(0, size + 3)
            # the C ring and ring<char> have bulk calls taking a bound; "write what fits": a bound above the length of a data block
            # that holds at least room() bytes
            w = "Write" if kind != "xc" or rng.random() < 0.5 else "BWrite"
            if kind not in ("xi", "xt", "xl") and n >= cap - fill and (w == "BWrite" or kind == "c") and rng.random() < 0.3:
                lines.append("%s %s %d" % (w, fmt_list([rb() for _ in range(n)]) if n else "-", rng.choice(BOUNDS)))
            else:
                lines.append("%s %s" % (w, fmt_list([rb() for _ in range(n)])))
            fill = min(cap, fill + n)
        elif r < 0.68:
            k = rng.randrange(0, size + 3)
            w = "Read" if kind != "xc" or rng.random() < 0.5 else "BRead"
            if (w == "BRead" or kind == "c") and rng.random() < 0.15:
                k = rng.choice(BOUNDS)         # "read everything": a bound far above what is queued
            lines.append("%s %d" % (w, k)); fill = max(0, fill - k)
        elif r < 0.78:
            n = rng.randrange(0, cap - fill + 1)
            lines.append("MoveHead %s" % fmt_list([rb() for _ in range(n)])); fill += n
        elif r < 0.88:
            k = rng.randrange(0, fill + 1)
            lines.append("MoveTail %d" % k); fill -= k
        elif r < 0.90:
            lines.append(rng.choice(["Clean", "ClearPop"])); fill = 0
        elif r < 0.92 and kind != "c":
            size = rng.randrange(2, 12); cap = size - 1; fill = 0
            lines.append("Resize %d" % cap)
        else:
            qs = queries(rng, kind, size, fill); lines += rng.sample(qs, min(2, len(qs)))
    return lines


def fill_after(state):
    return len(state["q"])


def check(ctx):
    drv = ctx.cxx("drv_ring", ["drv_ring.cpp"])
    drvc = ctx.cxx("drv_cyclic", ["drv_cyclic.cpp"])
    # 1. the specification itself: invariants over all reachable states
    r = ctx.tlc("Ring", "RingMCthorough.cfg" if ctx.thorough else "RingMC.cfg", workers=16, timeout=2400, coverage=not ctx.thorough)
    if not r.ok:
        ctx.model_violation(r, "Ring invariants")
    if ctx.thorough:   # size 8 (the next power of two) with two byte values; sizes 2..7 above with three
        r = ctx.tlc("Ring", "RingMCthorough8.cfg", workers=16, timeout=1500)
        if not r.ok:
            ctx.model_violation(r, "Ring invariants (size 8)")
    if ctx.thorough:   # beyond the exhaustive bound: random behaviours of rings of 9..17 slots, invariants checked in every state
        r = ctx.tlc("Ring", "RingSim.cfg", workers=16, simulate=3000, depth=80, coverage=False, timeout=1500)
        if not r.ok:
            ctx.model_violation(r, "Ring invariants (simulation, sizes 9..17)")
    r = ctx.tlc("Cyclic", "CyclicMC.cfg", workers=4, timeout=600)
    if not r.ok:
        ctx.model_violation(r, "Cyclic invariants")
    # 2. behaviours out of TLC: labelled state graph -> edge-covering walks
    r, g = ctx.tlc_graph("Ring", "RingGraph.cfg", workers=8)
    if not r.ok:
        ctx.model_violation(r, "Ring graph")
    walks, ncov, total = core.edge_cover_walks(g, ctx.rng, max_len=600)
    ctx.extra["edges_total"] = total
    ctx.extra["edges_replayed"] = ncov
    script = []
    kinds = ["c", "xc", "xi"]
    for wi, w in enumerate(walks):
        st0 = core.parse_state(g.state[w[0][1]])
        for kind in (kinds if ctx.thorough else [kinds[wi % 3], "c"] if wi % 3 else ["c"]):
            script.append("R %s %d" % (kind, st0["size"]))
            for (lab, src, dst) in w:
                ln = label_to_line(lab)
                if kind == "xc" and ln.split()[0] in ("Read", "Write") and ctx.rng.random() < 0.5:
                    ln = "B" + ln          # the bulk calls of ring<char>
                script.append(ln)
                if ctx.rng.random() < 0.08:
                    st = core.parse_state(g.state[dst])
                    qs = queries(ctx.rng, kind, st["size"], fill_after(st)); script += ctx.rng.sample(qs, min(2, len(qs)))
    ctx.samples.append({"edge_cover_walk_prefix": script[:12]})
    # 3. random / boundary-biased scripts beyond the exhaustive bounds
    nrand = 2500 if ctx.thorough else 400
    rnd = []
    for i in range(nrand):
        kind = (kinds + ["xt", "xl"])[i % 5]    # xt: elements whose constructors can throw; xl: elements that also have an initializer_list constructor
        size = ctx.rng.choice([2, 3, 4, 5, 6, 7, 8, 9, 15, 16, 17, 31, 32, 33]) if i % 4 else ctx.rng.randrange(2, 34)
        rnd += random_script(ctx.rng, kind, size, 120 if ctx.thorough else 60)
    # a few rings around the 8-bit boundary (indices and counts that do not fit a byte)
    for i in range(24 if ctx.thorough else 6):
        rnd += random_script(ctx.rng, kinds[i % 3], [255, 256, 257, 258, 300, 511][i % 6], 40)
    # a few rings around the 15/16-bit boundaries: indices and bulk moves that do not fit 16 bits (few operations, large bulk counts)
    for i, size in enumerate([32767, 32769, 50000, 65535, 65536, 65537, 70000][: (7 if ctx.thorough else 4) ] if ctx.thorough else [32769, 50000, 65536, 70000]):
        rnd += big_script(ctx.rng, kinds[i % 3], size)
    # 4. run the real code
    t1 = ctx.drive(drv, script, "ring_cover")
    t2 = ctx.drive(drv, rnd, "ring_random")
    # 5. TLC judges every recorded event
    bad = ctx.judge("RingTrace", [t1, t2])
    for b in bad:
        b["driver"] = "drv_ring"
    ctx.report(bad)
    # ring_counter / cyclic_buffer
    cy = cyclic_scripts(ctx)
    t3 = ctx.drive(drvc, cy, "cyclic")
    bad = ctx.judge("CyclicTrace", [t3])
    for b in bad:
        b["driver"] = "drv_cyclic"
    ctx.report(bad)
    ctx.assumptions += [
        "exhaustive model: ring sizes and byte alphabet of RingMC*.cfg; edge replay: RingGraph.cfg; beyond: random scripts sizes 2..33, all byte values",
        "typed-ring push/emplace are called only when room() > 0 (API contract: the caller checks)",
        "out-of-window writes/reads are observed by ASan and guard bytes and enter the trace as Fault events",
    ]
    return ctx.finish(rule="every edge of the TLC state graph of RingGraph.cfg replayed on ring_head, ring<char>, ring<int>; plus seeded random scripts; every event judged by RingTrace.tla")


def cyclic_scripts(ctx):
    lines = []
    n = 300 if ctx.thorough else 80
    for i in range(n):
        size = ctx.rng.choice([1, 2, 3, 4, 5, 7, 8, 9]) if i % 2 else ctx.rng.randrange(1, 20)
        lines.append("R cb %d" % size)
        pushes = 0
        for _ in range(60):
            r = ctx.rng.random()
            if r < 0.5:
                lines.append("Push %d" % ctx.rng.randrange(256)); pushes += 1
            elif pushes > 0:
                lines.append("Index %d" % ctx.rng.randrange(0, min(pushes, size)))
        lines.append("R rc %d" % size)
        for _ in range(40):
            r = ctx.rng.random()
            if r < 0.4:
                lines.append("Inc %d" % ctx.rng.randrange(0, 2 * size + 1))
            elif r < 0.6:
                lines.append("Prev %d" % ctx.rng.randrange(0, 2 * size + 1))
            elif r < 0.8:
                lines.append("LastN %d" % ctx.rng.randrange(-size, 2 * size + 1))
            elif r < 0.9:
                lines.append("FixupPos %d" % ctx.rng.randrange(-2 * size, 3 * size))
            else:
                lines.append("Set %d" % ctx.rng.randrange(0, 2 * size))
    return lines


def replay(ctx, path):
    d = json.load(open(path))
    drvname = d.get("driver") or "drv_ring"
    drv = ctx.cxx(drvname, [drvname + ".cpp"])
    lines = events_to_script(d["execution"])
    t = ctx.drive(drv, lines + core.fault_line(d), "replay")
    bad = ctx.judge("RingTrace" if drvname == "drv_ring" else "CyclicTrace", [t])
    ctx.report(bad)
    return ctx.finish(rule="replay of " + path)


def events_to_script(evs):
    out = []
    for e in evs:
        n = e["e"]
        if n == "Reset":
            out.append("R %s %d" % (e["kind"], e.get("req", e["size"])))
        elif n in ("Putc",):
            out.append("Putc %d" % e["b"])
        elif n in ("Write", "MoveHead"):
            out.append("%s%s %s%s" % ("B" if e.get("bulk") else "", n, fmt_list(e["s"]), " " + e["ns"] if e.get("ns") else ""))
        elif n in ("Read", "MoveTail"):
            out.append("%s%s %s" % ("B" if e.get("bulk") else "", n, e.get("ks") or e["k"]))
        elif n == "GetLast":
            out.append("GetLast %d %d %d" % (e["off"], e["cnt"], e["fe"]))
        elif n == "Fixup":
            out.append("Fixup %d" % e["i"])
        elif n == "Distance":
            out.append("Distance %d %d" % (e["a"], e["b"]))
        elif n == "Push":
            out.append("Push %d" % e["v"])
        elif n == "Dup":
            out.append("Dup %s" % e["how"])
        elif n in ("Index", "Inc", "Prev", "LastN", "FixupPos", "Set"):
            out.append("%s %d" % (n, e["i"]))
        elif n == "Fault":
            pass
        else:
            out.append(n)
    return out
