"""shared by C02 and C14: scripts for the vector driver from the TLC graph of VecLife.tla and random generators"""
from vlib import core


def fmt(v):
    return ",".join(str(x) for x in v) if v else "-"


def label_to_line(lab, rng, no_list=False, input_it=False):
    name, args = core.parse_label(lab)
    if name == "CreateFrom":
        if input_it and rng.random() < 0.3:
            return "CreateFrom %d %s 2" % (args[0], fmt(args[1]))      # range given by single-pass input iterators
        return "CreateFrom %d %s %d" % (args[0], fmt(args[1]), 1 if not no_list and len(args[1]) <= 5 and rng.random() < 0.5 else 0)
    return " ".join([name] + [str(a) for a in args])


def queries(rng, st, kind, old_vec=False):
    out = []
    for c in (0, 1):
        if not st["ex"][str(c)] if isinstance(st["ex"], dict) and str(c) in st["ex"] else not st["ex"][c]:
            continue
        el = st["el"][c] if not isinstance(st["el"], dict) else st["el"][c]
        n = len(el)
        if n:
            out.append("Index %d %d" % (c, rng.randrange(n))); out.append("Front %d" % c); out.append("Back %d" % c)
        if kind == "vec":
            if not old_vec: out.append("At %d %d" % (c, rng.randrange(0, n + 2)))
            other = 1 - c
            ok = st["ex"][other]
            if ok:
                out.append("Eq %d %d" % (c, other))
                if not old_vec: out.append("Less %d %d" % (c, other))
            out.append("Eq %d %d" % (c, c))
    return out


def graph_scripts(ctx, g, kinds, keep=False, old_vec=False):
    """kinds: list of (kind, elem); the graph's cap selects vec (0) or svec (N); keep selects the walks of that flavour"""
    walks, ncov, total = core.edge_cover_walks(g, ctx.rng, max_len=200)
    out = []
    for wi, w in enumerate(walks):
        st0 = core.parse_state(g.state[w[0][1]])
        cap = st0["cap"]
        if bool(st0.get("keep", False)) != keep:
            continue
        for (kind, elem) in kinds:
            if (kind == "vec") != (cap == 0):
                continue
            out.append("R %s %s %d" % (kind, elem, cap))
            for (lab, s, d) in w:
                out.append(label_to_line(lab, ctx.rng, no_list=old_vec, input_it=(kind == "svec" and not keep)))
                if ctx.rng.random() < 0.15:
                    st = core.parse_state(g.state[d])
                    qs = queries(ctx.rng, st, kind, old_vec)
                    if qs: out.append(ctx.rng.choice(qs))
            out.append("End")
    return out, ncov, total


def random_script(rng, kind, elem, cap, nops, old_iface=False, old_vec=False):
    """old_iface: the std_portable static_vector (no range/list constructor, no erase; its move constructor keeps the source's size)"""
    lines = ["R %s %s %d" % (kind, elem, cap)]
    ex = [False, False]; el = [[], []]
    def cut(s): return s if cap == 0 else s[:cap]
    for _ in range(nops):
        c = rng.randrange(2); d = 1 - c
        v = rng.randrange(1, 100)
        if not ex[c]:
            r = rng.random()
            if r < 0.4: lines.append("Create %d" % c); ex[c] = True; el[c] = []
            elif (r < 0.7 or not ex[d]) and old_iface: lines.append("Create %d" % c); ex[c] = True; el[c] = []
            elif r < 0.7 or not ex[d]:
                s = [rng.randrange(1, 100) for _ in range(rng.randrange(0, (2 * cap + 1) if cap else 7))]
                il = 1 if not old_vec and len(s) <= 5 and rng.random() < 0.5 else 0
                if kind == "svec" and not old_iface and rng.random() < 0.25: il = 2
                elif not old_iface and rng.random() < 0.2: il = 3           # pointers to a class derived from the element type
                lines.append("CreateFrom %d %s %d" % (c, fmt(s), il)); ex[c] = True; el[c] = cut(s)
            elif r < 0.85: lines.append("CopyCtor %d %d" % (c, d)); ex[c] = True; el[c] = list(el[d])
            else:
                lines.append("MoveCtor %d %d" % (c, d)); ex[c] = True; el[c] = list(el[d])
                if not old_iface: el[d] = []
            continue
        n = len(el[c]); r = rng.random()
        if r < 0.05 and kind == "vec" and n:      # the argument is an element of the vector itself
            i = rng.randrange(0, n); w = rng.choice(["PushBackSelf", "EmplaceBackSelf", "InsertSelf"])
            if w == "InsertSelf":
                p = rng.randrange(0, n + 1); lines.append("InsertSelf %d %d %d" % (c, p, i)); el[c].insert(p, el[c][i])
            else:
                lines.append("%s %d %d" % (w, c, i)); el[c] = el[c] + [el[c][i]]
        elif r < 0.09 and elem == "tracked":
            # injected failures: the constructor of the new element throws / the allocator refuses; the operation has no effect and the
            # container stays usable (the operations that follow are judged as always)
            w = rng.choice(["PushBack", "EmplaceBack", "Resize", "Reserve"] if kind == "vec" else ["PushBack", "EmplaceBack", "Resize"])
            if w == "Reserve": lines += ["Arm alloc", "Reserve %d %d" % (c, 3000 + rng.randrange(0, 5000))]
            elif w == "Resize":
                m = n + rng.randrange(1, 4)
                if cap == 0 or n < cap: lines += ["Arm ctor 1", "Resize %d %d" % (c, m)]
            else: lines += ["Arm ctor 1", "%s %d %d" % (w, c, v)]
        elif r < 0.18: lines.append("PushBack %d %d" % (c, v)); el[c] = cut(el[c] + [v])
        elif r < 0.26: lines.append("EmplaceBack %d %d" % (c, v)); el[c] = cut(el[c] + [v])
        elif r < 0.38 and kind == "vec":
            p = rng.randrange(0, n + 1); lines.append("%s %d %d %d" % (rng.choice(["Insert", "Emplace"]), c, p, v)); el[c].insert(p, v)
        elif r < 0.50 and not old_iface:
            a = rng.randrange(0, n + 1); b = rng.randrange(a, n + 1); lines.append("Erase %d %d %d" % (c, a, b)); del el[c][a:b]
        elif r < 0.54 and kind == "vec" and n:
            a = rng.randrange(0, n); lines.append("EraseAt %d %d" % (c, a)); del el[c][a]
        elif r < 0.58 and kind == "vec" and n: lines.append("PopBack %d" % c); el[c].pop()
        elif r < 0.66:
            m = rng.randrange(0, (cap + 2) if cap else 9); lines.append("Resize %d %d" % (c, m)); el[c] = cut(el[c][:m] + [0] * max(0, m - n))
        elif r < 0.70 and kind == "vec": lines.append("Reserve %d %d" % (c, rng.randrange(0, 12)))
        elif r < 0.74: lines.append("Clear %d" % c); el[c] = []
        elif r < 0.80 and ex[d]: lines.append("CopyAssign %d %d" % (c, d)); el[c] = list(el[d])
        elif r < 0.84 and ex[d]: lines.append("MoveAssign %d %d" % (c, d)); el[c] = list(el[d]); el[d] = []
        elif r < 0.86: lines.append("CopyAssign %d %d" % (c, c))
        elif r < 0.90: lines.append("Destroy %d" % c); ex[c] = False; el[c] = []
        else:
            if n: lines.append("Index %d %d" % (c, rng.randrange(n)))
            if kind == "vec":
                if not old_vec: lines.append("At %d %d" % (c, rng.randrange(0, n + 2)))
                if ex[d]: lines.append("%s %d %d" % (rng.choice(["Eq"] if old_vec else ["Eq", "Less"]), c, d))
    lines.append("End")
    return lines


def big_script(rng, elem, n):
    """a short history on vectors of n elements (n around 256 for the tracked type, 70000 for int): sizes and indices that do
    not fit 8 / 16 bits; growth across many reallocations"""
    vals = [rng.randrange(1, 100) for _ in range(n)]
    lines = ["R vec %s 0" % elem, "CreateFrom 0 %s 0" % fmt(vals), "Create 1"]
    lines += ["PushBack 0 7", "Insert 0 %d 9" % (n // 2), "Insert 0 0 3", "Erase 0 %d %d" % (n // 3, n // 3 + 300 if n > 1000 else n // 3 + 5),
              "CopyAssign 1 0", "Eq 0 1", "EraseAt 1 %d" % (n // 2), "Less 1 0", "Resize 1 %d" % (n + 10), "Resize 1 %d" % (n - 7),
              "MoveAssign 0 1", "PushBack 0 5", "PopBack 0", "At 0 %d" % (n - 8), "At 0 %d" % (n + 500), "Index 0 %d" % (n - 9), "Clear 0", "End"]
    return lines


def big_static_script(rng, elem, old_iface=False, N=300):
    """static_vector<T,N> for N = 255, 256, 300 and 65535..65537: sources of more than N elements, sizes and indices beyond the 8- and
    16-bit boundaries, filled to exactly N and one more"""
    lines = ["R svec %s %d" % (elem, N)]
    if N > 1000:      # fill through resize, then exactly to capacity and beyond with push_back / emplace_back
        lines += ["Create 0", "Resize 0 %d" % (N - 2), "PushBack 0 5", "EmplaceBack 0 6", "PushBack 0 7", "EmplaceBack 0 8", "Resize 0 %d" % (N - 1), "PushBack 0 9", "PushBack 0 10"]
        if not old_iface:
            lines += ["Destroy 0", "CreateFrom 0 %s %d" % (fmt([rng.randrange(1, 100) for _ in range(N + 3)]), rng.choice([0, 2]))]
    elif old_iface:
        lines += ["Create 0"] + ["PushBack 0 %d" % rng.randrange(1, 100) for _ in range(N + 5)]
    else:
        lines += ["CreateFrom 0 %s 0" % fmt([rng.randrange(1, 100) for _ in range(2 * N)])]
    lines += ["CopyCtor 1 0", "Resize 0 %d" % (N - 40), "PushBack 0 7", "EmplaceBack 0 8"]
    if not old_iface:
        lines += ["Erase 0 10 %d" % (N // 2), "Erase 1 0 %d" % N]
    lines += ["Resize 1 %d" % (N + 100), "CopyAssign 0 1", "MoveAssign 1 0", "Clear 1", "Index 1 0" if False else "Clear 0", "End"]
    return lines


def double_script(rng):
    """vectors of double with +0.0 / -0.0 / NaN elements (codes 1000 / 1001 / 1002): equality and ordering are value comparisons"""
    n = rng.randrange(1, 6)
    a = [rng.choice([1, 2, 3, 1000, 1001, 1002, 1000, 1001]) for _ in range(n)]
    b = list(a)
    for _ in range(rng.randrange(0, 3)):
        i = rng.randrange(n); b[i] = rng.choice([1000, 1001, 1002, b[i], 2])
    if rng.random() < 0.2: b = b[:-1]
    lines = ["R vec dbl 0", "CreateFrom 0 %s 0" % fmt(a), "CreateFrom 1 %s 0" % fmt(b), "Eq 0 1", "Eq 1 0", "Less 0 1", "Less 1 0", "Eq 0 0",
             "Destroy 1", "CopyCtor 1 0", "Eq 0 1", "Less 0 1", "PushBack 1 %d" % rng.choice([1000, 1001, 1002, 1]), "PushBack 0 %d" % rng.choice([1000, 1001, 1002, 1]),
             "Eq 0 1", "Less 1 0", "End"]
    return lines
