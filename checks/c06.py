"""C06 - printf engine, integer/char/string/pointer conversions.  Spec Printf.tla (+laws PrintfMC.tla), trace spec PrintfTrace.tla, driver drv_printf.cpp"""
import json, os, itertools
from vlib import core

LENS = {"hh": 1, "h": 2, "": 4, "l": 8, "ll": 8, "j": 8, "z": 8, "t": 8}


def fmt(v):
    return ",".join(str(x) for x in v) if v else "-"


def le8(v):
    return list((v & (2 ** 64 - 1)).to_bytes(8, "little"))


def build(ctx, alt=False):
    R = core.REPO
    o = os.path.join(ctx.work, "sprintf%s.o" % ("_alt" if alt else ""))
    ctx.sh(["gcc", "-std=gnu11", "-g"] + core.opt_flags(alt) + core.cov_flags() + ["-fsanitize=address", "-fno-omit-frame-pointer", "-w", "-fno-builtin", "-I" + R,
            "-Dsprintf=igv_sprintf", "-Dvsprintf=igv_vsprintf", "-Dsnprintf=igv_snprintf", "-c", R + "/compat/libc/stdio/sprintf.c", "-o", o], timeout=300)
    return ctx.cxx("drv_printf" + ("_alt" if alt else ""), ["drv_printf.cpp", R + "/igris/util/printf_impl.c"], objs=[o], libs=["-lm"], alt=alt)


def int_args(w, signed):
    b = 8 * w
    vals = [0, 1, 42, 2 ** b - 1, 2 ** (b - 1), 2 ** (b - 1) - 1, 7, 8, 10, 255, 256]
    if signed: vals += [-1, -42, -(2 ** (b - 1))]
    return vals


def digit_pattern_values(rng, w, signed, n):
    """values chosen for their digit strings rather than their bit patterns: zeros in the middle of the decimal / octal / hexadecimal text
    (a digit generator that works in chunks must keep the leading zeros of the lower chunks), powers of ten and of the radix +-1, and
    uniformly random values of every decimal length"""
    b = 8 * w; top = 2 ** (b - 1) - 1 if signed else 2 ** b - 1
    out = []
    for k in range(1, 20):
        for v in (10 ** k, 10 ** k - 1, 10 ** k + 1, 3 * 10 ** k + 7, 4 * 10 ** k + 12345678 % 10 ** max(k - 1, 1), 10 ** k + 10 ** (k // 2)):
            if v <= top: out.append(v)
    for k in (4, 8, 9, 12, 16):
        for v in (16 ** k, 16 ** k + 1, 8 ** k, 8 ** k + 5, 5 * 16 ** k + 0xABC):
            if v <= top: out.append(v)
    for _ in range(n):
        digits = rng.randrange(1, len(str(top)) + 1)
        v = rng.randrange(10 ** (digits - 1), 10 ** digits)
        s = list(str(v))
        for j in range(len(s)):
            if j and rng.random() < 0.35: s[j] = "0"
        v = int("".join(s))
        if v <= top: out.append(v)
    if signed: out += [-x for x in out[::3]]
    return out


def directive_cases(rng, thorough):
    flagsets = [""] + ["".join(c) for n in range(1, 6) for c in itertools.combinations("-+ #0", n)]
    widths = ["", "0", "1", "5", "12", "*"]
    precs = ["", ".", ".0", ".1", ".5", ".*"]
    out = []
    combos = list(itertools.product(flagsets, widths, precs, LENS.keys(), "diuoxX"))
    if not thorough:
        rng.shuffle(combos)
        combos = combos[:5000]
    for (fl, wd, pr, ln, cv) in combos:
        if wd == "0" and "0" not in fl: continue      # "%0d" is the 0 flag
        w = LENS[ln]
        vals = int_args(w, cv in "di")
        for v in (vals if thorough else rng.sample(vals, 3)):
            args = []
            if wd == "*": args.append("i:" + fmt(le8(rng.choice([0, 1, 7, -7, 12, -1]))))
            if pr == ".*": args.append("i:" + fmt(le8(rng.choice([0, 1, 6, -1, -5]))))
            # the argument is passed as the promoted type: sign- or zero-extended from its width
            if cv in "di":
                sv = v if v < 2 ** (8 * w - 1) else v - 2 ** (8 * w)
                slot = sv if w >= 4 else sv            # promoted to int (sign extended)
            else:
                slot = v & (2 ** (8 * w) - 1)
            # garbage in the unused upper half of the slot must not matter for int-sized arguments
            if w <= 4 and rng.random() < 0.3 and cv not in "di":
                slot |= 0xABCD << 32
            # hh / h: the int argument is converted to the narrow type before printing, whatever its upper bytes hold
            if w < 4 and rng.random() < 0.4:
                slot = (slot & (2 ** (8 * w) - 1)) | (rng.choice([0x5A, 0xFF, 0x01, 0x80]) << (8 * w))
            args.append("i:" + fmt(le8(slot)))
            pre = rng.choice(["", "a", "x=", "%%"]); post = rng.choice(["", "b", "\n", "%%", " %%z"])
            # flags may come in any order and may be repeated
            fl_ = list(fl); rng.shuffle(fl_)
            if fl_ and rng.random() < 0.15: fl_.insert(rng.randrange(len(fl_) + 1), rng.choice(fl_))
            f = pre + "%" + "".join(fl_) + (wd if wd != "0" else "") + pr + ln + cv + post
            out.append("Pf %s %s" % (fmt([ord(c) for c in f]), " ".join(args)))
    return out


def other_cases(rng, thorough):
    out = []
    # values chosen for their digit strings (zeros inside the text, powers of ten and of the radix, every decimal length) through every
    # integer conversion and length modifier, with a few flag / width / precision combinations
    for ln, w in LENS.items():
        for cv in "diuoxX":
            vals = digit_pattern_values(rng, w, cv in "di", 60 if thorough else 12)
            for v in vals:
                f = "%" + rng.choice(["", "", "+", "0", "-", "#", "+0"]) + rng.choice(["", "", "15", "3"]) + rng.choice(["", "", ".12"]) + ln + cv
                slot = v if cv in "di" else v & (2 ** (8 * w) - 1)
                out.append("Pf %s i:%s" % (fmt([ord(x) for x in f]), fmt(le8(slot))))
    # %c (every byte), %s (empty, unterminated with precision, long), %p, %%, literal text
    for c in range(256):
        for f in ["%c", "%3c", "%-3c", "[%c]"]:
            if rng.random() < (1.0 if thorough else 0.3) or c in (0, 37, 255):
                out.append("Pf %s i:%s" % (fmt([ord(x) for x in f]), fmt(le8(c))))
    strs = [[], [97], [104, 105], [37, 100], list(range(1, 60)), [255, 128, 1], [32] * 5]
    for s in strs:
        for f in ["%s", "%5s", "%-5s|", "%.0s", "%.1s", "%.3s", "%10.2s", "%-10.2s|", "%.*s", "%*s", "%-*.*s|"]:
            nstar = f.count("*")
            args = []
            starvals = []
            for _ in range(nstar):
                v = rng.choice([0, 1, 2, 3, 8, -4]); starvals.append(v); args.append("i:" + fmt(le8(v)))
            # unterminated only when a precision bounds the read
            prec = None
            if ".*" in f: prec = starvals[-1]
            elif "." in f: prec = int("0" + "".join(ch for ch in f.split(".")[1] if ch.isdigit()))
            unterminated = prec is not None and prec >= 0 and prec <= len(s) and rng.random() < 0.7
            args.append("s:%s:%d" % (fmt(s), 0 if unterminated else 1))
            out.append("Pf %s %s" % (fmt([ord(x) for x in f]), " ".join(args)))
    # widths, precisions and strings around and beyond the 8-bit boundary (and one beyond 16 bits): counts that do not fit a byte
    for w in [127, 128, 255, 256, 257, 300, 1000]:
        for f in ["%%%dd" % w, "%%-%dd|" % w, "%%0%dd" % w, "%%.%dd" % w, "%%%d.%dx" % (w, w - 3), "%%%ds" % w, "%%-%ds|" % w, "%%%dc" % w, "%%#%do" % w]:
            arg = "s:%s:1" % fmt([97 + (i % 26) for i in range(rng.choice([0, 3, w - 1, w, w + 1]))]) if "s" in f[-2:] else "i:" + fmt(le8(rng.choice([0, -1, 42, 2 ** 63])))
            out.append("Pf %s %s" % (fmt([ord(x) for x in f]), arg))
        out.append("Pf %s i:%s i:%s i:%s" % (fmt([ord(x) for x in "%*.*d"]), fmt(le8(w)), fmt(le8(w - 1)), fmt(le8(-7))))
        out.append("Pf %s i:%s i:%s" % (fmt([ord(x) for x in "%*d"]), fmt(le8(-w)), fmt(le8(7))))
    out.append("Pf %s i:%s" % (fmt([ord(x) for x in "%70000d"]), fmt(le8(5))))
    # two directives in one format string: what the first one parsed (precision, width, flags, length modifier) must not leak into the
    # second - in particular when the second takes its precision / width from a negative * argument (= "not given")
    for c1 in "dxsuo":
        for first in ("%.8" + c1, "%12.5" + c1, "%-#9.3" + c1, "%+08" + c1, "%ll" + c1 if c1 != "s" else "%.2s"):
            a1 = ("s:%s:1" % fmt([104, 101, 108, 108, 111, 33, 33])) if c1 == "s" else "i:%s" % fmt(le8(rng.choice([255, 42, 7, 123456])))
            for c2 in "diuoxX":
                for second, extra in (("%.*" + c2, [-1]), ("%.*" + c2, [-5]), ("%*" + c2, [-6]), ("%" + c2, []), ("%.*" + c2, [2])):
                    if rng.random() < (1.0 if thorough else 0.35):
                        f = first + "|" + second
                        args = [a1] + ["i:%s" % fmt(le8(x)) for x in extra] + ["i:%s" % fmt(le8(rng.choice([42, 5, 300, -17])))]
                        if len(args) <= 3:
                            out.append("Pf %s %s" % (fmt([ord(x) for x in f]), " ".join(args)))
    # precisions written with leading zeros and with ten and more digit characters (a digit counter instead of a value bound), and
    # widths of many digit characters after a non-zero first digit
    for zeros in (1, 2, 8, 9, 10, 11, 15, 30):
        for pv in (0, 3, 12):
            for cv in "dxs":
                f = "%." + "0" * zeros + str(pv) + cv
                arg = ("s:%s:%d" % (fmt([65 + (i % 26) for i in range(20)]), 1)) if cv == "s" else "i:%s" % fmt(le8(rng.choice([0, 7, 123456, -45])))
                out.append("Pf %s %s" % (fmt([ord(x) for x in f]), arg))
            f = "%1" + "0" * 0 + "." + "0" * zeros + "4s"
            out.append("Pf %s s:%s:0" % (fmt([ord(x) for x in f]), fmt([97, 98, 99, 100])))        # unterminated argument of exactly 4 bytes
    out.append("Pf %s s:%s:1" % (fmt([ord(x) for x in "%.300s"]), fmt([65 + (i % 26) for i in range(700)])))
    for p in [0, 1, 0xdeadbeef, 2 ** 47 - 1, 2 ** 64 - 1, 0x1000, 0xabcdef0123]:
        for f in ["%p", "%20p", "%-20p", "%3p"]:
            out.append("Pf %s i:%s" % (fmt([ord(x) for x in f]), fmt(le8(p))))
    for f in ["", "plain text", "100%%", "%%%%", "a%%b%dc", "%d%d%d", "%d %s %c", "\x01\xff%%"]:
        nd = f.replace("%%", "").count("%")
        args = []
        conv = [ch for i, ch in enumerate(f.replace("%%", "")) if i > 0 and f.replace("%%", "")[i - 1] == "%"]
        for ch in conv:
            args.append("s:104,105:1" if ch == "s" else "i:" + fmt(le8(rng.choice([0, 65, -3, 12345]))))
        out.append("Pf %s %s" % (fmt([ord(x) if ord(x) < 256 else 63 for x in f]), " ".join(args)))
    return out


def check(ctx):
    drv = build(ctx)
    r = ctx.tlc("PrintfMC", "PrintfMCthorough.cfg" if ctx.thorough else "PrintfMC.cfg", workers=16, timeout=3000, coverage=False)
    if not r.ok:
        ctx.model_violation(r, "printf laws")
    lines = directive_cases(ctx.rng, ctx.thorough) + other_cases(ctx.rng, ctx.thorough)
    script = []
    for i, ln in enumerate(lines):
        if i % 300 == 0: script.append("R")
        script.append(ln)
        # re-entrant use: the same call once more with an output callback that itself formats numbers through the engine after
        # every character (a logging sink printing a counter): both outputs must be what they are alone
        if ctx.rng.random() < 0.12 and len(ln) < 4000:
            script.append("Pfn" + ln[2:])
    ctx.samples.append({"calls": [script[1], script[len(script) // 2], script[-1]]})
    t = ctx.drive(drv, script, "printf")
    bad = ctx.judge("PrintfTrace", [t], shards=16)
    for b in bad: b["driver"] = "drv_printf"
    # the second build configuration (size-optimised, plain char unsigned) on part of the executions
    ta = ctx.drive(build(ctx, alt=True), core.subset_executions(script, ctx.seed, 1.0 if ctx.thorough else 0.34), "printf_alt")
    bada = ctx.judge("PrintfTrace", [ta], shards=16)
    for b in bada: b["driver"] = "drv_printf@alt"
    bad += bada
    ctx.report(bad)
    ctx.assumptions += [
        "LP64 System V ABI: integer and pointer arguments travel in 8-byte slots; int-sized arguments are passed promoted (garbage in the upper half of the slot must be ignored)",
        "combinations ISO C leaves undefined are not generated ('0' flag with c/s, flags on %%, '#' with d/u/c/s is generated only where ISO ignores it)",
        "%p is implementation-defined: required is optional padding, 0x, hex digits that parse back to the pointer, and the field width",
        "every call runs under a 2 s watchdog (non-termination enters the trace as a Fault); %s arguments live in exactly sized blocks, unterminated when the precision bounds the read",
    ]
    return ctx.finish(rule="32 flag subsets x widths {none,1,5,12,*} x precisions {none,.,.0,.1,.5,.*} x 8 length modifiers x {d,i,u,o,x,X} x boundary arguments (sampled 5000 directives in quick, all in thorough), %c of every byte, %s incl. unterminated-with-precision, %p, %% and literal mixes; every call judged against Printf.tla; the sprintf shim compared byte for byte")


def replay(ctx, path):
    d = json.load(open(path))
    drv = build(ctx, alt=core.is_alt(d))
    e = d["event"]
    if e.get("e") == "Fault":
        return core.replay_fault(ctx, d, drv, "PrintfTrace", path)
    args = []
    for a in e["args"]:
        args.append("s:%s:1" % fmt(a["s"]) if a["s"] else "i:" + fmt(a["v"]))
    t = ctx.drive(drv, ["R", "%s %s %s" % ("Pfn" if e.get("nested") else "Pf", fmt(e["fmt"]), " ".join(args))], "replay")
    ctx.report(ctx.judge("PrintfTrace", [t]))
    return ctx.finish(rule="replay of " + path)
