// C++ twin of the terminal (vtermxx + readlinexx + container/sline.h); own TU because the C and C++
// headers share include guards.  Compiled with -fno-access-control to read len/cursor.
#include <igris/shell/vtermxx.h>
#include <vector>
#include <string>
#include <memory>
static std::unique_ptr<igris::vtermxx> X;
static std::vector<unsigned char> *g_out; static std::vector<std::vector<unsigned char>> *g_exec; static std::vector<int> *g_nul; static int *g_sig;
static void xw(const char *d, unsigned int n) { g_out->insert(g_out->end(), (const unsigned char *)d, (const unsigned char *)d + n); }
static void xe(const char *d, unsigned int n) { g_exec->push_back(std::vector<unsigned char>((const unsigned char *)d, (const unsigned char *)d + n)); g_nul->push_back((unsigned char)d[n]); }
static void xs(int) { ++*g_sig; }
void xx_bind(std::vector<unsigned char> *o, std::vector<std::vector<unsigned char>> *e, std::vector<int> *nul, int *sig) { g_out = o; g_exec = e; g_nul = nul; g_sig = sig; }
void xx_init(int cap, int depth) {
    X.reset(new igris::vtermxx()); X->init(cap, depth);
    X->set_write_callback(igris::make_delegate(xw)); X->set_execute_callback(igris::make_delegate(xe)); X->set_signal_callback(igris::make_delegate(xs));
    X->init_step();
}
// the same object initialised again (a console reconfigured at run time): init() must leave nothing of the earlier configuration behind
void xx_reinit(int cap, int depth) { X->init(cap, depth);
    X->set_write_callback(igris::make_delegate(xw)); X->set_execute_callback(igris::make_delegate(xe)); X->set_signal_callback(igris::make_delegate(xs));   // (init() clears them)
    X->init_step(); }
void xx_key(int c) { X->newdata((int16_t)c); }
int xx_len() { return (int)X->rl._line.current_size(); }
int xx_cursor() { return (int)X->rl._line.sl.cursor; }
