// C04/C05 driver: gstuff encoders and receivers (configurable default / v0 contexts, legacy C codec).
#include "common/vlog.h"
#include <igris/protocols/gstuff.h>
#include <memory>
extern "C" { void v1_init(void *buf, int len); int v1_newchar(char c); int v1_size(void); const char *v1_data(void); int v1_encode(char *data, int size, char *out); }
using namespace vlog;
static const int G = 8;
static std::string name; static int cap; static unsigned char *blk = nullptr;
static std::unique_ptr<gstuff_autorecv> RX;
// "default", "v0"/"legacy" (the shipped alphabets) or "cx:START:STOP:STUB:SSTART:SSTOP:SSTUB" (any configured context)
static gstuff_context ctx_of(const std::string &n) {
    if (n.rfind("cx:", 0) == 0) { int v[6] = {0, 0, 0, 0, 0, 0}; sscanf(n.c_str() + 3, "%d:%d:%d:%d:%d:%d", v, v + 1, v + 2, v + 3, v + 4, v + 5);
        gstuff_context c; c.GSTUFF_START = (char)v[0]; c.GSTUFF_STOP = (char)v[1]; c.GSTUFF_STUB = (char)v[2]; c.GSTUFF_STUB_START = (char)v[3]; c.GSTUFF_STUB_STOP = (char)v[4]; c.GSTUFF_STUB_STUB = (char)v[5]; return c; }
    return n == "default" ? gstuff_context() : gstuff_context_v0(); }
static std::vector<long long> ctx_bytes(const std::string &n) { gstuff_context c = ctx_of(n);
    return {(unsigned char)c.GSTUFF_START, (unsigned char)c.GSTUFF_STOP, (unsigned char)c.GSTUFF_STUB, (unsigned char)c.GSTUFF_STUB_START, (unsigned char)c.GSTUFF_STUB_STOP, (unsigned char)c.GSTUFF_STUB_STUB}; }

struct Rx {   // a receiver with an exactly sized buffer between guard bytes
    std::string n; int cap; unsigned char *blk; std::unique_ptr<gstuff_autorecv> rx;
    Rx(const std::string &n_, int cap_) : n(n_), cap(cap_) { blk = (unsigned char *)malloc(cap + 2 * G); memset(blk, 0xA5, cap + 2 * G);
        if (n == "legacy") v1_init(blk + G, cap); else { rx.reset(new gstuff_autorecv(ctx_of(n))); rx->init(blk + G, cap); } }
    ~Rx() { free(blk); }
    int feed(unsigned char c) { return n == "legacy" ? v1_newchar((char)c) : rx->newchar((char)c); }
    int size() { return n == "legacy" ? v1_size() : (int)rx->size(); }
    const unsigned char *data() { return blk + G; }
};
static std::unique_ptr<Rx> R;

static std::vector<std::vector<unsigned char>> parts_of(const std::string &s) {
    std::vector<std::vector<unsigned char>> out; size_t i = 0;
    while (i <= s.size()) { size_t j = s.find('|', i); if (j == std::string::npos) j = s.size(); out.push_back(blist(s.substr(i, j - i))); i = j + 1; }
    return out;
}

int main(int argc, char **argv) {
    return run(argc, argv, [&](const std::vector<std::string> &t) {
        const std::string &op = t[0];
        if (op == "R") { name = t[1]; cap = num(t[2]); R.reset(new Rx(name, cap)); Ev e("Reset"); e.str("name", name.rfind("cx:", 0) == 0 ? "custom" : name.c_str()).ints("cx", ctx_bytes(name)).i("cap", cap); e.end(); }
        else if (op == "Reinit") {   // the same receiver object is initialised again (init / setbuf in the middle of a stream): it must forget the frame in progress
            if (name == "legacy") v1_init(R->blk + G, cap); else R->rx->init(R->blk + G, cap);
            Ev e("Reinit"); e.i("size", R->size()).bytes("gl", R->blk, G).bytes("gr", R->blk + G + cap, G); e.end(); }
        else if (op == "Feed") {
            // bytes that are none of the six context bytes and for which the receiver reports status 0 with intact guards are merged into one
            // RecvRun event (frames of tens of kilobytes are then judged in linear time); every other byte is an event of its own
            auto cb = ctx_bytes(name); auto is_ctx = [&](unsigned char c) { for (auto x : cb) if ((unsigned char)x == c) return true; return false; };
            std::vector<unsigned char> run; int run_size = 0, run_max = 0;
            auto guards_ok = [&]() { for (int j = 0; j < G; ++j) if (R->blk[j] != 0xA5 || R->blk[G + cap + j] != 0xA5) return false; return true; };
            auto flush_run = [&]() { if (run.empty()) return; Ev e("RecvRun"); e.bytes("cs", run.data(), run.size()).i("size", run_size).i("maxsize", run_max).bytes("gl", R->blk, G).bytes("gr", R->blk + G + cap, G); e.end(); run.clear(); run_max = 0; };
            for (unsigned char c : blist(t[1])) {
                int st = R->feed(c); int sz = R->size();
                if (st == 0 && !is_ctx(c) && guards_ok()) { run.push_back(c); run_size = sz; if (sz > run_max) run_max = sz; continue; }
                flush_run();
                Ev e("Recv"); e.i("c", c).i("st", st).i("size", sz);
                if (st == 1) e.bytes("out", R->data(), sz < 0 ? 0 : (sz > cap ? cap : sz)); else e.bytes("out", R->data(), 0);
                e.bytes("gl", R->blk, G).bytes("gr", R->blk + G + cap, G); e.end();
            }
            flush_run();
        }
        else if (op == "Enc") {          // Enc <variant> <parts>   (encode with name's codec, then decode with a roomy receiver)
            const std::string &variant = t[1]; auto parts = parts_of(t[2]);
            std::vector<unsigned char> p; for (auto &x : parts) p.insert(p.end(), x.begin(), x.end());
            size_t n = p.size(); size_t osz = 2 * n + 4;
            unsigned char *ob = (unsigned char *)malloc(osz + 2 * G); memset(ob, 0xA5, osz + 2 * G);
            // every part lives in its own exactly sized heap block
            std::vector<char *> blocks; std::vector<iovec> iov;
            for (auto &x : parts) { char *b = (char *)malloc(x.size() ? x.size() : 1); memcpy(b, x.data(), x.size()); blocks.push_back(b); iov.push_back(iovec{b, x.size()}); }
            char *whole = (char *)malloc(n ? n : 1); memcpy(whole, p.data(), n);
            long ret = -1; std::vector<unsigned char> out;
            if (name == "legacy") { ret = v1_encode(whole, (int)n, (char *)ob + G); }
            else if (variant == "plain") ret = gstuffing(whole, n, (char *)ob + G, ctx_of(name));
            else if (variant == "iov") ret = gstuffing_v(iov.data(), iov.size(), (char *)ob + G, ctx_of(name));
            else if (variant == "vec") { auto v = gstuffing_v(iov.data(), iov.size(), ctx_of(name)); ret = v.size(); memcpy(ob + G, v.data(), v.size() > osz ? osz : v.size()); }
            else if (variant == "vecbuf") { auto v = gstuffing(igris::buffer(whole, n), ctx_of(name)); ret = v.size(); memcpy(ob + G, v.data(), v.size() > osz ? osz : v.size()); }
            size_t olen = ret < 0 ? 0 : ((size_t)ret > osz ? osz : (size_t)ret);
            // decode with a receiver whose buffer is large enough
            Rx big(name, (int)n + 8); std::vector<long long> sts; std::vector<unsigned char> delivered; long npk = 0, at = 0;
            for (size_t i = 0; i < olen; ++i) { int st = big.feed(ob[G + i]); sts.push_back(st); if (st == 1) { ++npk; at = i + 1; delivered.assign(big.data(), big.data() + big.size()); } }
            Ev e("Encode"); e.str("variant", variant.c_str()).bytes("p", p.data(), n).i("nparts", parts.size()).i("ret", ret).bytes("out", ob + G, olen)
                .bytes("gl", ob, G).bytes("gr", ob + G + osz, G).bytes("tail", ob + G + olen, osz - olen).i("npk", npk).i("at", at).bytes("delivered", delivered.data(), delivered.size()).ints("sts", sts);
            e.end();
            for (auto b : blocks) free(b); free(whole); free(ob);
        }
        else { fprintf(stderr, "bad op %s\n", op.c_str()); exit(3); }
    });
}
