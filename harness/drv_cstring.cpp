// C08 driver: compat/libc/string mem*/str* (symbols renamed igv_*), arguments are offsets into one heap arena.
#include "common/vlog.h"
#include "common/sstep.h"
#include <sys/mman.h>
#include <strings.h>
using namespace vlog;
extern "C" {
void *igv_memchr(const void *, int, size_t); int igv_memcmp(const void *, const void *, size_t); void *igv_memcpy(void *, const void *, size_t);
void *igv_memmove(void *, const void *, size_t); void *igv_memrchr(const void *, int, size_t); void *igv_memset(void *, int, size_t);
int igv_strcasecmp(const char *, const char *); char *igv_strcasestr(const char *, const char *); char *igv_strcat(char *, const char *);
char *igv_strchr(const char *, int); char *igv_strchrnul(const char *, int); int igv_strcmp(const char *, const char *); char *igv_strcpy(char *, const char *);
size_t igv_strcspn(const char *, const char *); char *igv_strdup(const char *); size_t igv_strlcpy(char *, const char *, size_t); size_t igv_strlen(const char *);
char *igv_strlwr(char *); int igv_strncasecmp(const char *, const char *, size_t); char *igv_strncat(char *, const char *, size_t); int igv_strncmp(const char *, const char *, size_t);
char *igv_strncpy(char *, const char *, size_t); char *igv_strndup(const char *, size_t); size_t igv_strnlen(const char *, size_t); char *igv_strpbrk(const char *, const char *);
char *igv_strrchr(const char *, int); size_t igv_strspn(const char *, const char *); char *igv_strstr(const char *, const char *);
char *igv_strtok(char *, const char *); char *igv_strtok_r(char *, const char *, char **); char *igv_strupr(char *);
}
static int sgn(long x) { return x < 0 ? -1 : x > 0 ? 1 : 0; }
// one call of a function without allocation and without documented static state, on arena M (offsets a, b); the function is
// selected by an index so that the single-stepped region holds little besides the call itself
static const char *PLAIN[] = {"memcpy", "memmove", "memset", "memcmp", "memchr", "memrchr", "strlen", "strnlen", "strcpy", "strncpy", "strlcpy", "strcat", "strncat", "strcmp", "strncmp",
    "strcasecmp", "strncasecmp", "strchr", "strrchr", "strchrnul", "strstr", "strcasestr", "strspn", "strcspn", "strpbrk", "strlwr", "strupr"};
static int plain_index(const std::string &fn) { for (unsigned i = 0; i < sizeof PLAIN / sizeof *PLAIN; ++i) if (fn == PLAIN[i]) return (int)i; return -1; }
static bool call_plain(int fi, unsigned char *M, long a, long b, size_t n, long &ret) {
    char *A = (char *)M + a, *B = (char *)M + b;
#define OFF(p_) ({ const void *q_ = (p_); q_ ? (long)((const unsigned char *)q_ - M) : -1; })
    switch (fi) {
    case 0: ret = OFF(igv_memcpy(A, B, n)); break; case 1: ret = OFF(igv_memmove(A, B, n)); break; case 2: ret = OFF(igv_memset(A, (int)b, n)); break;
    case 3: ret = sgn(igv_memcmp(A, B, n)); break; case 4: ret = OFF(igv_memchr(A, (int)b, n)); break; case 5: ret = OFF(igv_memrchr(A, (int)b, n)); break;
    case 6: ret = igv_strlen(A); break; case 7: ret = igv_strnlen(A, n); break;
    case 8: ret = OFF(igv_strcpy(A, B)); break; case 9: ret = OFF(igv_strncpy(A, B, n)); break; case 10: ret = igv_strlcpy(A, B, n); break;
    case 11: ret = OFF(igv_strcat(A, B)); break; case 12: ret = OFF(igv_strncat(A, B, n)); break;
    case 13: ret = sgn(igv_strcmp(A, B)); break; case 14: ret = sgn(igv_strncmp(A, B, n)); break;
    case 15: ret = sgn(igv_strcasecmp(A, B)); break; case 16: ret = sgn(igv_strncasecmp(A, B, n)); break;
    case 17: ret = OFF(igv_strchr(A, (int)b)); break; case 18: ret = OFF(igv_strrchr(A, (int)b)); break; case 19: ret = OFF(igv_strchrnul(A, (int)b)); break;
    case 20: ret = OFF(igv_strstr(A, B)); break; case 21: ret = OFF(igv_strcasestr(A, B)); break;
    case 22: ret = igv_strspn(A, B); break; case 23: ret = igv_strcspn(A, B); break; case 24: ret = OFF(igv_strpbrk(A, B)); break;
    case 25: ret = OFF(igv_strlwr(A)); break; case 26: ret = OFF(igv_strupr(A)); break;
    default: return false; }
    return true;
}
struct Inner { int fn; unsigned char *M; long a, b; size_t n; long ret; bool ran; };
static void inner_call(void *p) { Inner *x = (Inner *)p; call_plain(x->fn, x->M, x->a, x->b, x->n, x->ret); x->ran = true; }
int main(int argc, char **argv) {
    return run(argc, argv, [&](const std::vector<std::string> &t) {
        if (t[0] == "R") { Ev e("Reset"); e.end(); return; }
        if (t[0] == "MemBig") {   // MemBig fn span dst src n c marks probes : memcpy / memmove / memset on an object of `span` bytes (more than 4 GiB) of lazily
            // committed, zero-filled memory; marks = pos:byte,... are written first, probes = pos,... are read back afterwards.  Positions are
            // logged as <<high, low 16 bits>> (TLC integers have 32 bits).
            auto pair = [](unsigned long long v) { return "[" + std::to_string((long long)(v >> 16)) + "," + std::to_string((long long)(v & 0xffff)) + "]"; };
            const std::string &fn = t[1]; unsigned long long span = strtoull(t[2].c_str(), 0, 10), d = strtoull(t[3].c_str(), 0, 10), sdx = strtoull(t[4].c_str(), 0, 10), n = strtoull(t[5].c_str(), 0, 10); int c = num(t[6]);
            unsigned char *base = (unsigned char *)mmap(nullptr, span + 8192, PROT_READ | PROT_WRITE, MAP_PRIVATE | MAP_ANONYMOUS | MAP_NORESERVE, -1, 0);
            if (base == (unsigned char *)MAP_FAILED) { perror("mmap"); exit(3); }
            mprotect(base + ((span + 4095) / 4096) * 4096, 4096, PROT_NONE);          // the page behind the object is not accessible
            std::string marks = "["; { size_t i = 0; const std::string &ms = t[7]; bool first = true; while (ms != "-" && i < ms.size()) { size_t j = ms.find(',', i); if (j == std::string::npos) j = ms.size(); std::string it = ms.substr(i, j - i); size_t q = it.find(':');
                unsigned long long pos = strtoull(it.substr(0, q).c_str(), 0, 10); int b = atoi(it.substr(q + 1).c_str()); base[pos] = (unsigned char)b; if (!first) marks += ","; first = false; marks += "[" + std::to_string((long long)(pos >> 16)) + "," + std::to_string((long long)(pos & 0xffff)) + "," + std::to_string(b) + "]"; i = j + 1; } } marks += "]";
            unsigned keep = g_op_timeout; if (keep) { g_op_timeout = 900; watchdog(true); g_op_timeout = keep; }
            void *r = fn == "memcpy" ? igv_memcpy(base + d, base + sdx, n) : fn == "memmove" ? igv_memmove(base + d, base + sdx, n) : igv_memset(base + d, c, n);
            std::string probes = "["; { size_t i = 0; const std::string &ps = t[8]; bool first = true; while (ps != "-" && i < ps.size()) { size_t j = ps.find(',', i); if (j == std::string::npos) j = ps.size(); unsigned long long pos = strtoull(ps.substr(i, j - i).c_str(), 0, 10);
                if (!first) probes += ","; first = false; probes += "[" + std::to_string((long long)(pos >> 16)) + "," + std::to_string((long long)(pos & 0xffff)) + "," + std::to_string((int)base[pos]) + "]"; i = j + 1; } } probes += "]";
            unsigned long long ro = (unsigned char *)r - base;
            Ev e("MemBig"); e.str("fn", fn.c_str()).str("args", (t[2] + " " + t[3] + " " + t[4] + " " + t[5] + " " + t[6] + " " + t[7] + " " + t[8]).c_str()).raw("d", pair(d)).raw("s", pair(sdx)).raw("n", pair(n)).i("c", c).raw("marks", marks).raw("probes", probes).raw("ret", pair(ro)); e.end();
            munmap(base, span + 8192); return; }
        if (t[0] == "Nest") {   // Nest fn mem a b n fn2 mem2 a2 b2 n2 kspec : the call fn(mem, a, b, n) is interrupted after its k-th instruction by a
            // complete call fn2(mem2, a2, b2, n2) on the same stack (what an interrupt or signal handler does), for every k (kspec "all"), for about
            // <num> evenly spread k (kspec "s<num>") or for one k (kspec "k<num>").  Both calls are logged as ordinary Str events (fresh arenas each
            // time); consecutive k with identical observations are merged into one pair of events (nest = first k, nest_to = last k).
            const std::string &fn = t[1], &fn2 = t[6]; auto m = blist(t[2]), m2 = blist(t[7]); long a = num(t[3]), b = num(t[4]), a2 = num(t[8]), b2 = num(t[9]); size_t n = num(t[5]), n2 = num(t[10]);
            std::vector<unsigned char> w(m), w2(m2); long r0 = 0;
            unsigned keep = g_op_timeout; if (keep) { g_op_timeout = 60; watchdog(true); g_op_timeout = keep; }
            int fi = plain_index(fn), fi2 = plain_index(fn2); if (fi < 0 || fi2 < 0) { fprintf(stderr, "bad Nest fn\n"); exit(3); }
            Inner in{fi2, w2.data(), a2, b2, n2, 0};
            call_plain(fi, w.data(), a, b, n, r0); w = m;            // (first use: lazy symbol binding would be counted otherwise)
            { std::vector<unsigned char> x2(m2); long rr = 0; call_plain(fi2, x2.data(), a2, b2, n2, rr); }
            long N = sstep::run(0, [&] { call_plain(fi, w.data(), a, b, n, r0); }, inner_call, &in);
            std::vector<long> ks; const std::string &ksp = t[11];
            if (ksp[0] == 'k') ks.push_back(atol(ksp.c_str() + 1));
            else { long want = ksp == "all" ? N : atol(ksp.c_str() + 1); long step = N <= want ? 1 : (N + want - 1) / want; for (long k = 1 + (step > 1 ? (long)(m.size() + m2.size()) % step : 0); k <= N; k += step) ks.push_back(k); }
            bool have = false; long first = 0, last = 0, pret = 0, piret = 0; std::vector<unsigned char> pw, pw2;
            auto emit = [&] {
                std::string ln = "Nest " + t[1] + " " + t[2] + " " + t[3] + " " + t[4] + " " + t[5] + " " + t[6] + " " + t[7] + " " + t[8] + " " + t[9] + " " + t[10] + " k" + std::to_string(first);
                Ev e("Str"); e.str("fn", fn.c_str()).bytes("mem", m.data(), m.size()).i("a", a).i("b", b).i("n", (long long)n).str("ns", t[5].c_str()).i("pad", 0).i("ret", pret).bytes("mem2", pw.data(), pw.size())
                    .i("nest", first).i("nest_to", last).i("steps", N).str("role", "interrupted").str("nestline", ln.c_str()); e.end();
                Ev f("Str"); f.str("fn", fn2.c_str()).bytes("mem", m2.data(), m2.size()).i("a", a2).i("b", b2).i("n", (long long)n2).str("ns", t[10].c_str()).i("pad", 0).i("ret", piret).bytes("mem2", pw2.data(), pw2.size())
                    .i("nest", first).i("nest_to", last).i("steps", N).str("role", "interrupting").str("nestline", ln.c_str()); f.end(); };
            for (long k : ks) {
                w = m; w2 = m2; long r = 0; in.M = w2.data(); in.ret = 0; in.ran = false;
                sstep::run(k, [&] { call_plain(fi, w.data(), a, b, n, r); }, inner_call, &in);
                if (!in.ran) break;          // the interrupted call ended before its k-th instruction: nothing was nested
                if (have && r == pret && in.ret == piret && w == pw && w2 == pw2) { last = k; continue; }
                if (have) emit();
                have = true; first = last = k; pret = r; piret = in.ret; pw = w; pw2 = w2;
            }
            if (have) emit();
            return; }
        // Str fn mem a b n pad
        const std::string &fn = t[1]; auto m = blist(t[2]); long a = num(t[3]), b = num(t[4]); size_t n = t[5][0] == '-' ? (size_t)num(t[5]) : (size_t)strtoull(t[5].c_str(), 0, 10); size_t pad = num(t[6]);
        // a count that does not fit TLC's integers (2^31 and more, or "negative" = near SIZE_MAX) is logged as -1 ("more than any object") and exactly as text
        long long nlog = n > 2147483647ull ? -1 : (long long)n;
        size_t sz = m.size(); unsigned char *blk = (unsigned char *)malloc(pad + sz ? pad + sz : 1); unsigned char *M = blk + pad; memcpy(M, m.data(), sz);
        char *A = (char *)M + a, *B = (char *)M + b; long ret = 0; std::vector<long long> list; bool islist = false; std::vector<unsigned char> dup; bool isdup = false;
        auto off = [&](const void *p) -> long { return p ? (long)((const unsigned char *)p - M) : -1; };
        if (fn == "memcpy") ret = off(igv_memcpy(A, B, n)); else if (fn == "memmove") ret = off(igv_memmove(A, B, n)); else if (fn == "memset") ret = off(igv_memset(A, (int)b, n));
        else if (fn == "memcmp") ret = sgn(igv_memcmp(A, B, n)); else if (fn == "memchr") ret = off(igv_memchr(A, (int)b, n)); else if (fn == "memrchr") ret = off(igv_memrchr(A, (int)b, n));
        else if (fn == "strlen") ret = igv_strlen(A); else if (fn == "strnlen") ret = igv_strnlen(A, n);
        else if (fn == "strcpy") ret = off(igv_strcpy(A, B)); else if (fn == "strncpy") ret = off(igv_strncpy(A, B, n)); else if (fn == "strlcpy") ret = igv_strlcpy(A, B, n);
        else if (fn == "strcat") ret = off(igv_strcat(A, B)); else if (fn == "strncat") ret = off(igv_strncat(A, B, n));
        else if (fn == "strcmp") ret = sgn(igv_strcmp(A, B)); else if (fn == "strncmp") ret = sgn(igv_strncmp(A, B, n));
        else if (fn == "strcasecmp") ret = sgn(igv_strcasecmp(A, B)); else if (fn == "strncasecmp") ret = sgn(igv_strncasecmp(A, B, n));
        else if (fn == "strchr") ret = off(igv_strchr(A, (int)b)); else if (fn == "strrchr") ret = off(igv_strrchr(A, (int)b)); else if (fn == "strchrnul") ret = off(igv_strchrnul(A, (int)b));
        else if (fn == "strstr") ret = off(igv_strstr(A, B)); else if (fn == "strcasestr") ret = off(igv_strcasestr(A, B));
        else if (fn == "strspn") ret = igv_strspn(A, B); else if (fn == "strcspn") ret = igv_strcspn(A, B); else if (fn == "strpbrk") ret = off(igv_strpbrk(A, B));
        else if (fn == "strlwr") ret = off(igv_strlwr(A)); else if (fn == "strupr") ret = off(igv_strupr(A));
        else if (fn == "strdup") { char *d = igv_strdup(A); isdup = true; if (d) { dup.assign((unsigned char *)d, (unsigned char *)d + strlen(d) + 1); free(d); } }
        else if (fn == "strndup") { char *d = igv_strndup(A, n); isdup = true; if (d) { dup.assign((unsigned char *)d, (unsigned char *)d + strlen(d) + 1); free(d); } }
        else if (fn == "strtok_r" || fn == "strtok") { islist = true; char *save = 0; char *tk = fn == "strtok" ? igv_strtok(A, B) : igv_strtok_r(A, B, &save);
            for (int k = 0; tk && k < 64; ++k) { list.push_back(off(tk)); tk = fn == "strtok" ? igv_strtok(0, B) : igv_strtok_r(0, B, &save); }
            list.push_back(off(tk));   // the NULL that ended the loop, then two further searches: they must return NULL as well
            for (int k = 0; k < 2; ++k) { tk = fn == "strtok" ? igv_strtok(0, B) : igv_strtok_r(0, B, &save); list.push_back(off(tk)); } }
        else { fprintf(stderr, "bad fn %s\n", fn.c_str()); exit(3); }
        Ev e("Str"); e.str("fn", fn.c_str()).bytes("mem", m.data(), sz).i("a", a).i("b", b).i("n", nlog).str("ns", t[5].c_str()).i("pad", pad);
        if (islist) e.ints("ret", list); else if (isdup) e.bytes("ret", dup.data(), dup.size()); else e.i("ret", ret);
        e.bytes("mem2", M, sz); e.end(); free(blk);
    });
}
