/* forced include for compat/libc sources: every libc symbol they define is renamed igv_*,
   so the igris implementations live next to the host libc */
#ifndef VERIF_RENAME_LIBC_H
#define VERIF_RENAME_LIBC_H
#define strtol igv_strtol
#define strtoul igv_strtoul
#define strtoll igv_strtoll
#define strtoull igv_strtoull
#define strtoimax igv_strtoimax
#define strtoumax igv_strtoumax
#define strtoq igv_strtoq
#define strtouq igv_strtouq
#define atol igv_atol
#define atoi igv_atoi
#define qsort igv_qsort
#define bsearch igv_bsearch
#define upper_bound igv_upper_bound
#define lower_bound igv_lower_bound
#define rand igv_rand
#define srand igv_srand
#define rand_r igv_rand_r
#endif
