// C03 driver (second part): ring_counter and igris::cyclic_buffer<int>.
#include "common/vlog.h"
#include <igris/datastruct/ring_counter.h>
#include <igris/container/cyclic_buffer.h>
#include <memory>
using namespace vlog;
static std::unique_ptr<igris::cyclic_buffer<int>> CB;
static ring_counter RC;
static std::string kind;
int main(int argc, char **argv) {
    return run(argc, argv, [&](const std::vector<std::string> &t) {
        const std::string &op = t[0];
        if (op == "R") { kind = t[1]; long s = num(t[2]);
            if (kind == "cb") CB.reset(new igris::cyclic_buffer<int>(s)); else ring_counter_init(&RC, s);
            Ev e("Reset"); e.str("kind", kind.c_str()).i("size", s); e.end(); }
        else if (op == "Push") { int r = CB->push(num(t[1])); Ev e("Push"); e.i("v", num(t[1])).i("ret", r).i("size", CB->size()); e.end(); }
        else if (op == "Index") { int r = (*CB)[num(t[1])]; Ev e("Index"); e.i("i", num(t[1])).i("ret", r); e.end(); }
        else if (op == "Inc") { ring_counter_increment(&RC, num(t[1])); Ev e("Inc"); e.i("i", num(t[1])).i("counter", ring_counter_get(&RC)); e.end(); }
        else if (op == "Set") { ring_counter_set(&RC, num(t[1])); Ev e("Set"); e.i("i", num(t[1])).i("counter", ring_counter_get(&RC)); e.end(); }
        else if (op == "Prev") { Ev e("Prev"); e.i("i", num(t[1])).i("ret", ring_counter_prev(&RC, num(t[1]))); e.end(); }
        else if (op == "LastN") { Ev e("LastN"); e.i("i", num(t[1])).i("ret", ring_counter_last(&RC, num(t[1]))); e.end(); }
        else if (op == "FixupPos") { Ev e("FixupPos"); e.i("i", num(t[1])).i("ret", ring_counter_fixup_pos(&RC, num(t[1]))); e.end(); }
        else { fprintf(stderr, "bad op %s\n", op.c_str()); exit(3); }
    });
}
