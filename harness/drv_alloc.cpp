// C10 driver: bare-metal heap (lin_malloc/lin_realloc, symbols renamed igv_*) and the fixed-block pools.
#include "common/vlog.h"
#include <igris/datastruct/pool.h>
#include <igris/container/pool.h>
#include <igris/container/static_object_pool.h>
#include <map>
#include <memory>
#include <compat/mem/lin_malloc.h>
using namespace vlog;
extern "C" { void *igv_malloc(size_t); void igv_free(void *); void *igv_realloc(void *, size_t); }
#include <sys/mman.h>
extern char *__brkval; extern struct __freelist *__flp; extern int __allocation_counter; extern char *__malloc_heap_start;
static const size_t ARENA = 1 << 20;
char _heap_start[ARENA] __attribute__((aligned(64)));
// "R heapbig": an arena of 12 GiB of lazily committed address space, for requests of 2 GiB, 4 GiB and more.  Offsets, break and free list
// are then logged in units of 8 bytes (unit = 8) with the remainders summed in "rem", request sizes as nh * 2^20 + nl: TLC integers have 32 bits.
static const size_t BIGARENA = (size_t)12 << 30;
static char *bigbase = nullptr; static char *base = _heap_start; static long unit = 1; static long rem = 0;
struct Blk { unsigned char *p; size_t n; };
static std::map<int, Blk> live;
static long off(const void *p) { if (!p) return -1; long d = (long)((const char *)p - base); if (unit > 1) { rem += ((d % unit) + unit) % unit; d = (d - ((d % unit) + unit) % unit) / unit; } return d; }
static long sz(size_t v) { if (unit > 1) { rem += v % unit; return (long)(v / unit); } return (long)v; }
// blocks of more than 1 MiB carry the pattern in their first and last 4 KiB only
static const size_t SPARSE = 1 << 20, EDGE = 4096;
static unsigned char pat(int id, size_t i) { return (unsigned char)(id * 31 + i * 7 + 1); }
static void fill(int id, unsigned char *p, size_t n, size_t from = 0) {
    if (n <= SPARSE) { for (size_t i = from; i < n; ++i) p[i] = pat(id, i); return; }
    for (size_t i = from; i < EDGE; ++i) p[i] = pat(id, i);
    for (size_t i = (from > n - EDGE ? from : n - EDGE); i < n; ++i) p[i] = pat(id, i); }
static long bad_at(int id, const unsigned char *p, size_t n) {
    if (n <= SPARSE) { for (size_t i = 0; i < n; ++i) if (p[i] != pat(id, i)) return (long)i; return -1; }
    for (size_t i = 0; i < EDGE; ++i) if (p[i] != pat(id, i)) return (long)i;
    for (size_t i = n - EDGE; i < n; ++i) if (p[i] != pat(id, i)) return (long)(i >> 20) + EDGE;   // position in MiB: must fit 32 bits
    return -1; }
static void req(Ev &e, size_t n) { if (unit > 1) e.i("nh", (long long)(n >> 20)).i("nl", (long long)(n & ((1 << 20) - 1))).i("n", 0); else e.i("n", n); }
static void heap_obs(Ev &e) {
    std::vector<long long> corrupt; for (auto &kv : live) if (bad_at(kv.first, kv.second.p, kv.second.n) >= 0) corrupt.push_back(kv.first);
    std::string fl = "["; int k = 0; for (struct __freelist *f = __flp; f && k < 300; f = f->nx, ++k) { if (k) fl += ","; fl += "[" + std::to_string(off(f)) + "," + std::to_string(sz(f->sz)) + "]"; } fl += "]";
    e.i("brk", off(__brkval)).raw("fl", fl).ints("corrupt", corrupt).i("nlive", live.size()).i("unit", unit).i("rem", rem); rem = 0;
}
// ---- pools ----
static std::string pk; static int pcap, pel; static unsigned char *zone = nullptr; static pool_head PH; static std::unique_ptr<igris::pool> IP;
template <size_t S> struct Obj { char d[S]; };
struct alignas(64) ObjA { char d[128]; };     // over-aligned element (a cache line / DMA descriptor): blocks must be 64-byte aligned
static igris::static_object_pool<ObjA, 3> *SA3;
static igris::static_object_pool<Obj<8>, 4> *S84; static igris::static_object_pool<Obj<24>, 3> *S243; static igris::static_object_pool<Obj<64>, 1> *S641; static igris::static_object_pool<Obj<12>, 5> *S125;
static std::vector<void *> plive;
// an element whose constructor uses the pool it is being created in (a node that creates its first child, a handle that retires its
// predecessor): mode 1 creates another object in the same pool, mode 2 destroys the object `victim`
struct ObjR; static igris::static_object_pool<ObjR, 4> *SR4; static ObjR *g_nested = nullptr; static ObjR *g_victim = nullptr; static bool g_ctor_ran = false;
struct ObjR { char d[32]; ObjR(int mode = 0); };
ObjR::ObjR(int mode) { g_ctor_ran = true; memset(d, 0x5C, sizeof d); if (mode == 1) g_nested = SR4->create(0); else if (mode == 2 && g_victim) { SR4->destroy(g_victim); g_victim = nullptr; } }
// a second zone engaged later into the same pool_head (kind "ph"): cells pcap0 .. pcap0 + n2 - 1
static unsigned char *zone2 = nullptr; static int pcap0 = 0, n2cells = 0;
static void *pbase() { if (pk == "sop") { if (pel == 128) return SA3->storage.data(); if (pel == 8) return S84->storage.data(); if (pel == 24) return S243->storage.data(); if (pel == 64) return S641->storage.data(); if (pel == 32) return SR4->storage.data(); return S125->storage.data(); } return zone + 64; }
static size_t pstride() { if (pk == "sop") { if (pel == 128) return sizeof(SA3->storage[0]); if (pel == 8) return sizeof(S84->storage[0]); if (pel == 24) return sizeof(S243->storage[0]); if (pel == 64) return sizeof(S641->storage[0]); if (pel == 32) return sizeof(SR4->storage[0]); return sizeof(S125->storage[0]); } return pel; }
static pool_head *phead() { if (pk == "ph") return &PH; if (pk == "sop") { if (pel == 128) return SA3->freelist(); if (pel == 8) return S84->freelist(); if (pel == 24) return S243->freelist(); if (pel == 64) return S641->freelist(); if (pel == 32) return SR4->freelist(); return S125->freelist(); } return nullptr; }
static void *cell_addr(int i) { if (zone2 && i >= pcap0) return zone2 + 64 + (size_t)(i - pcap0) * pel; return (char *)pbase() + (size_t)i * pstride(); }
static long cell_of(void *p) { if (!p) return -1;
    if (zone2) { long d2 = (char *)p - (char *)(zone2 + 64); if (d2 >= 0 && d2 < (long)n2cells * pel) return d2 % pel ? -2 : pcap0 + d2 / pel; }
    long d = (char *)p - (char *)pbase(); if (d < 0 || d % (long)pstride()) return -2; return d / (long)pstride(); }
static void pool_obs(Ev &e) {
    std::vector<long long> alloc; long avail = -1, room = -1;
    if (pk == "ip") { avail = IP->avail(); room = (long)IP->room(); for (int i = 0; i < pcap; ++i) alloc.push_back(IP->cell_is_allocated(i) ? 1 : 0); }
    else { avail = pool_avail(phead()); room = avail; for (int i = 0; i < pcap; ++i) alloc.push_back(pool_in_freelist(phead(), cell_addr(i)) ? 0 : 1); }
    e.i("avail", avail).i("room", room).ints("alloc", alloc);
    if (pk != "sop") e.bytes("gl", zone + 56, 8).bytes("gr", zone + 64 + pcap0 * pel, 8); else e.bytes("gl", "", 0).bytes("gr", "", 0);
    if (zone2) { unsigned char g[16]; memcpy(g, zone2 + 56, 8); memcpy(g + 8, zone2 + 64 + n2cells * pel, 8); e.bytes("g2", g, 16); } else e.bytes("g2", "", 0);
}
int main(int argc, char **argv) {
    return run(argc, argv, [&](const std::vector<std::string> &t) {
        const std::string &op = t[0];
        if (op == "R") {
            if (t[1] == "heap" || t[1] == "heapbig") { live.clear(); __brkval = 0; __flp = 0; __allocation_counter = 0; rem = 0;
                if (t[1] == "heapbig") { if (!bigbase) { bigbase = (char *)mmap(nullptr, BIGARENA, PROT_READ | PROT_WRITE, MAP_PRIVATE | MAP_ANONYMOUS | MAP_NORESERVE, -1, 0); if (bigbase == (char *)MAP_FAILED) { perror("mmap"); exit(3); } }
                    base = bigbase; unit = 8; } else { base = _heap_start; unit = 1; }
                __malloc_heap_start = base; memset(base, 0xEE, 4096); Ev e("Reset"); e.str("kind", "heap").i("cap", 0).i("el", 0); heap_obs(e); e.end(); }
            else { pk = t[1]; pcap = num(t[2]); pel = num(t[3]); plive.clear(); pcap0 = pcap; free(zone2); zone2 = nullptr; n2cells = 0;
                if (pk != "sop") { free(zone); zone = (unsigned char *)aligned_alloc(64, ((128 + pcap * pel + 64 + 63) / 64) * 64); memset(zone, 0xA5, 128 + pcap * pel); }
                if (pk == "ph") { pool_init(&PH); pool_engage(&PH, zone + 64, pcap * pel, pel); }
                else if (pk == "ip") IP.reset(new igris::pool(zone + 64, pcap * pel, pel));
                else { delete SA3; SA3 = new igris::static_object_pool<ObjA, 3>(); delete S84; delete S243; delete S641; delete S125; S84 = new igris::static_object_pool<Obj<8>, 4>(); S243 = new igris::static_object_pool<Obj<24>, 3>(); S641 = new igris::static_object_pool<Obj<64>, 1>(); S125 = new igris::static_object_pool<Obj<12>, 5>(); delete SR4; SR4 = new igris::static_object_pool<ObjR, 4>(); }
                Ev e("Reset"); e.str("kind", pk.c_str()).i("cap", pcap).i("el", pel); pool_obs(e); e.end(); }
            return; }
        if (op == "Malloc") { int id = num(t[1]); size_t n = num(t[2]); unsigned char *p = (unsigned char *)igv_malloc(n); if (p) { fill(id, p, n); live[id] = Blk{p, n}; }
            Ev e("Malloc"); e.i("id", id); req(e, n); e.i("offr", p ? (long)(((char *)p - base) % 8) : 0); rem = 0; e.i("off", off(p)); rem = 0; heap_obs(e); e.end(); }
        else if (op == "Free") { int id = num(t[1]); Blk b = live[id]; long bad = bad_at(id, b.p, b.n); live.erase(id); igv_free(b.p); Ev e("Free"); e.i("id", id).i("bad_at", bad); heap_obs(e); e.end(); }
        else if (op == "FreeNull") { igv_free(0); Ev e("FreeNull"); heap_obs(e); e.end(); }
        else if (op == "Realloc") { int id = num(t[1]); size_t n = num(t[2]); Blk b = live[id]; unsigned char *p = (unsigned char *)igv_realloc(b.p, n); long bad = -1;
            if (p) { size_t keep = b.n < n ? b.n : n; if (b.n > SPARSE && keep > EDGE) keep = EDGE; bad = bad_at(id, p, keep); fill(id, p, n, keep); live[id] = Blk{p, n}; }
            Ev e("Realloc"); e.i("id", id); req(e, n); e.i("offr", p ? (long)(((char *)p - base) % 8) : 0); rem = 0; e.i("off", off(p)); rem = 0; e.i("bad_at", bad); heap_obs(e); e.end(); }
        else if (op == "PEngage") { int n2 = num(t[1]); if (pk != "ph" || zone2) { Ev e("PSkip"); e.end(); return; }
            n2cells = n2; zone2 = (unsigned char *)aligned_alloc(64, ((128 + n2 * pel + 64 + 63) / 64) * 64); memset(zone2, 0xA5, 128 + n2 * pel); pool_engage(&PH, zone2 + 64, n2 * pel, pel); pcap += n2;
            Ev e("PEngage"); e.i("n2", n2); pool_obs(e); e.end(); }
        else if (op == "PAlloc") { void *p = nullptr;
            if (pk == "ph") p = pool_alloc(&PH); else if (pk == "ip") p = IP->get();
            else if (pel == 128) p = SA3->create();
            else if (pel == 8) p = S84->create(); else if (pel == 24) p = S243->create(); else if (pel == 64) p = S641->create(); else if (pel == 32) p = SR4->create(0); else p = S125->create();
            if (p) { memset(p, 0x5C, pk == "sop" ? pel : pel); plive.push_back(p); }
            Ev e("PAlloc"); e.i("cell", cell_of(p)).i("al", p ? (long)((uintptr_t)p % (pk == "sop" ? (pel == 128 ? 64 : 8) : (pel % 8 == 0 ? 8 : 4))) : 0); pool_obs(e); e.end(); }
        else if (op == "PAllocN") {   // create() of an element whose constructor creates another element in the same pool: outer cell, then inner cell
            if (pk != "sop" || pel != 32) { Ev e("PSkip"); e.end(); return; }
            g_nested = nullptr; g_ctor_ran = false; ObjR *p = SR4->create(1); ObjR *q = g_nested; if (p) plive.push_back(p); if (q) plive.push_back(q);
            std::vector<long long> cs{cell_of(p), cell_of(q)}; Ev e("PAlloc2"); e.ints("cells", cs).i("ctor_ran", g_ctor_ran ? 1 : 0); pool_obs(e); e.end(); }
        else if (op == "PAllocF") {   // create() of an element whose constructor destroys the live element number k of the same pool
            size_t k = num(t[1]); if (pk != "sop" || pel != 32 || k >= plive.size()) { Ev e("PSkip"); e.end(); return; }
            ObjR *v = (ObjR *)plive[k]; g_victim = v; g_ctor_ran = false; ObjR *p = SR4->create(2); bool freed = g_victim == nullptr; g_victim = nullptr;
            if (freed) plive.erase(plive.begin() + k); if (p) plive.push_back(p);
            Ev e("PAllocF"); e.i("cell", cell_of(p)).i("freed", freed ? cell_of(v) : -1).i("ctor_ran", g_ctor_ran ? 1 : 0); pool_obs(e); e.end(); }
        else if (op == "PFree") { size_t k = num(t[1]); if (k >= plive.size()) { Ev e("PSkip"); e.end(); return; } void *p = plive[k]; plive.erase(plive.begin() + k); long c = cell_of(p);
            if (pk == "ph") pool_free(&PH, p); else if (pk == "ip") IP->put(p);
            else if (pel == 128) SA3->destroy((ObjA *)p);
            else if (pel == 8) S84->destroy((Obj<8> *)p); else if (pel == 24) S243->destroy((Obj<24> *)p); else if (pel == 64) S641->destroy((Obj<64> *)p); else if (pel == 32) SR4->destroy((ObjR *)p); else S125->destroy((Obj<12> *)p);
            Ev e("PFree"); e.i("cell", c); pool_obs(e); e.end(); }
        else { fprintf(stderr, "bad op %s\n", op.c_str()); exit(3); }
    });
}
