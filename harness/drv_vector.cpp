// C02 / C14 driver: igris::vector<T> and static_vector<T,N> with a lifetime-tracking element type and a
// tracking allocator.  Script:  R <kind> <elem> <N>    kind: vec | svec   elem: tracked | int   N: capacity (svec)
//   ops: Create c | CreateFrom c vals | Destroy c | PushBack c v | EmplaceBack c v | Insert c p v | Emplace c p v |
//        Erase c a b | EraseAt c a | PopBack c | Resize c n | Reserve c n | Clear c | CopyCtor c d | MoveCtor c d |
//        CopyAssign c d | MoveAssign c d | Eq c d | Less c d | At c i | Index c i | End
#include "common/vlog.h"
#include <type_traits>
#ifdef USE_STD_PORTABLE
#include <igris/container/std_portable.h>
#define KEEP_ON_MOVE 1      // the amalgamated static_vector's move constructor leaves the moved-from elements in the source
#define FLAVOUR "std_portable"
#else
#define KEEP_ON_MOVE 0
#define FLAVOUR "igris"
#include <igris/container/vector.h>
#include <igris/container/static_vector.h>
#endif
#include <new>
#include <stdexcept>
#include <iterator>
#include <cmath>
using namespace vlog;

// ---- block registry: which allocation (and slot) an address belongs to ------------------------------
struct Block { char *p; size_t n, elsz; int id; bool alive; };
static std::vector<Block> g_blocks; static int g_next_id = 1;
static void locate(const void *q, int &b, long &i) {
    for (auto it = g_blocks.rbegin(); it != g_blocks.rend(); ++it) {
        if ((const char *)q >= it->p && (const char *)q < it->p + it->n * it->elsz + (it->n ? 0 : 0)) { b = it->id; i = ((const char *)q - it->p) / (long)it->elsz; return; }
    }
    b = -1; i = -1;
}
static int reg_block(void *p, size_t n, size_t elsz) { g_blocks.push_back(Block{(char *)p, n, elsz, g_next_id, true}); Ev e("Alloc"); e.i("b", g_next_id).i("n", n); e.end(); return g_next_id++; }
static void unreg_block(void *p) { for (auto it = g_blocks.rbegin(); it != g_blocks.rend(); ++it) if (it->p == (char *)p && it->alive) { it->alive = false; Ev e("Dealloc"); e.i("b", it->id); e.end(); return; }
    Ev e("Dealloc"); e.i("b", -1); e.end(); }
static int block_of(const void *p) { if (!p) return -1; int b; long i; locate(p, b, i); return b; }

// ---- injected failures: "Arm ctor <n>" makes the n-th counted construction of a Tracked element (from a value or by copy) throw, "Arm alloc" makes
// the next allocation throw std::bad_alloc; the next operation runs with the knob set and is logged with threw = 1 if the exception came out of it
struct Boom {};
static long g_throw_in = 0, g_pend_ctor = 0; static bool g_fail_alloc = false, g_pend_alloc = false; static const char *g_armed = ""; static long g_armn = 0;
static void activate() { g_throw_in = g_pend_ctor; g_fail_alloc = g_pend_alloc; g_pend_ctor = 0; g_pend_alloc = false; }
static void disarm() { g_throw_in = 0; g_fail_alloc = false; }
template <class F> static void guarded(int &threw, F &&f) { activate(); try { f(); } catch (const Boom &) { threw = 1; } catch (const std::bad_alloc &) { threw = 1; } disarm(); }
template <class T> struct TrackAlloc {
    typedef T value_type;
    TrackAlloc() {} template <class U> TrackAlloc(const TrackAlloc<U> &) {}
    T *allocate(size_t n) { if (g_fail_alloc) { g_fail_alloc = false; throw std::bad_alloc(); } size_t bytes = n * sizeof(T); T *p = (T *)malloc(bytes ? bytes : 1); memset((void *)p, 0xCD, bytes); reg_block(p, n, sizeof(T)); return p; }
    void deallocate(T *p, size_t) { if (!p) return; unreg_block(p); free(p); }
    template <class U> struct rebind { typedef TrackAlloc<U> other; };
    bool operator==(const TrackAlloc &) const { return true; } bool operator!=(const TrackAlloc &) const { return false; }
};

// ---- element type that reports every lifetime event that touches a registered block --------------------
static const unsigned MAGIC = 0x7EAC0DE5;
struct Tracked {
    unsigned magic; int *p;
    bool ok() const { return magic == MAGIC; }
    int value() const { return ok() && p ? *p : -1; }
    static void ev(const char *k, const void *dst, const void *src, int v) { int b, sb; long i, si; locate(dst, b, i); if (src) locate(src, sb, si); else { sb = -1; si = -1; }
        if (b == -1 && sb == -1) return; Ev e("El"); e.str("k", k).i("b", b).i("i", i).i("v", v).i("sb", sb).i("si", si); e.end(); }
    Tracked() : magic((maybe_throw0(), MAGIC)), p(new int(0)) { ev("ctor", this, 0, 0); }
    static void maybe_throw0() { if (g_throw_in > 0 && --g_throw_in == 0) throw Boom(); }
    static void maybe_throw() { if (g_throw_in > 0 && --g_throw_in == 0) throw Boom(); }
    Tracked(int v) : magic((maybe_throw(), MAGIC)), p(new int(v)) { ev("ctor", this, 0, v); }
    Tracked(const Tracked &o) : magic((maybe_throw(), MAGIC)), p(new int(o.value())) { ev("cctor", this, &o, *p); }
    Tracked(Tracked &&o) : magic(MAGIC), p(0) { int v = o.value(); ev("mctor", this, &o, v); if (o.ok()) { p = o.p; o.p = 0; } else p = new int(v); }
    Tracked &operator=(const Tracked &o) { int v = o.value(); ev("cassign", this, &o, v); if (ok()) { if (p) *p = v; else p = new int(v); } return *this; }
    Tracked &operator=(Tracked &&o) { int v = o.value(); ev("massign", this, &o, v); if (this == &o) return *this; if (ok()) { delete p; p = 0; if (o.ok()) { p = o.p; o.p = 0; } else p = new int(v); } return *this; }
    ~Tracked() { ev("dtor", this, 0, 0); if (ok()) { delete p; p = 0; magic = 0xDEAD; } }
    bool operator==(const Tracked &o) const { ev("read", this, 0, value()); ev("read", &o, 0, o.value()); return value() == o.value(); }
    bool operator!=(const Tracked &o) const { return !(*this == o); }
    bool operator<(const Tracked &o) const { ev("read", this, 0, value()); ev("read", &o, 0, o.value()); return value() < o.value(); }
};
static int val_of(const Tracked &t) { return t.value(); }
static int val_of(int t) { return t; }
// double elements: codes 1000 / 1001 / 1002 stand for +0.0 / -0.0 / NaN (values whose == is not byte equality)
static int val_of(double d) { if (d != d) return 1002; if (d == 0) return std::signbit(d) ? 1001 : 1000; return (int)d; }
// an element that is trivially destructible but not trivially copyable: it holds a pointer to itself, which every constructor sets;
// an element that was put in place by copying bytes instead of being constructed reports -777000 - (its value)
struct SP { int v; const SP *self; SP() : v(0), self(this) {} SP(int x) : v(x), self(this) {} SP(const SP &o) : v(o.v), self(this) {}
    SP &operator=(const SP &o) { v = o.v; return *this; } bool operator==(const SP &o) const { return v == o.v; } bool operator!=(const SP &o) const { return v != o.v; } bool operator<(const SP &o) const { return v < o.v; } };
static int val_of(const SP &s) { return s.self == &s ? s.v : -777000 - s.v; }
template <class E> static E from_code(long v) { return E((int)v); }
template <> double from_code<double>(long v) { return v == 1000 ? 0.0 : v == 1001 ? -0.0 : v == 1002 ? std::nan("") : (double)v; }

// ---- a class derived from the element type with more members (CreateFrom mode 3: the range is given by pointers to the derived class;
// each element is sliced to the base, the stride of the source is that of the derived class)
template <class E, bool IsClass = std::is_class<E>::value> struct Wider { };
template <class E> struct Wider<E, true> : E { char pad[24]; Wider(const E &e) : E(e) { memset(pad, 0x77, sizeof pad); } };
// ---- a single-pass input iterator (copies share the read position, as with std::istream_iterator) ----------------
template <class E> struct SharedSrc { const std::vector<E> *v; size_t pos; };
template <class E> struct InIt {
    typedef std::input_iterator_tag iterator_category; typedef E value_type; typedef std::ptrdiff_t difference_type; typedef const E *pointer; typedef const E &reference;
    SharedSrc<E> *s; E cur;
    InIt() : s(0), cur() {}
    explicit InIt(SharedSrc<E> *s_) : s(s_), cur() { fetch(); }
    void fetch() { if (s && s->pos < s->v->size()) cur = (*s->v)[s->pos++]; else s = 0; }
    reference operator*() const { return cur; }
    InIt &operator++() { fetch(); return *this; }
    InIt operator++(int) { InIt t = *this; fetch(); return t; }
    bool operator==(const InIt &o) const { return s == o.s; }
    bool operator!=(const InIt &o) const { return s != o.s; }
};

// ---- containers -----------------------------------------------------------------------------------------------
template <class E> struct DynTraits { typedef igris::vector<E, TrackAlloc<E>> type; static const bool is_static = false; };
template <class E, size_t N> struct StaTraits { typedef igris::static_vector<E, N> type; static const bool is_static = true; };

static void unsupported(const std::string &name) { fprintf(stderr, "operation %s is not part of this container's interface\n", name.c_str()); exit(3); }
template <class Cn, class E, bool Static> struct Runner {
    alignas(16) unsigned char mem[2][sizeof(Cn) + 32]; bool exists[2] = {false, false};
    Cn &c(int k) { return *reinterpret_cast<Cn *>(mem[k] + 16); }
    void reg(int k) { if constexpr (Static) reg_block(c(k).data(), sizeof(Cn) / sizeof(E) >= 1 ? (sizeof(Cn) - sizeof(size_t)) / sizeof(E) : 0, sizeof(E)); }
    void unreg(int k) { if constexpr (Static) unreg_block(c(k).data()); }
    void prep(int k) { memset(mem[k], 0xA5, sizeof(mem[k])); }
    void obs(Ev &e, int k) {
        e.i("c", k);
        if (!exists[k]) { e.i("size", -1).ints("contents", std::vector<long long>()).i("blk", -1).bytes("gl", "", 0).bytes("gr", "", 0); return; }
        std::vector<long long> vals; size_t n = c(k).size(); for (size_t j = 0; j < n && j < 200000; ++j) vals.push_back(val_of(c(k).data()[j]));
        e.i("size", (long)n).ints("contents", vals).i("blk", n || !Static ? block_of(c(k).data()) : block_of(c(k).data()));
        e.bytes("gl", mem[k], 16).bytes("gr", mem[k] + 16 + sizeof(Cn), 16);
    }
    void op(const std::vector<std::string> &t) {
        if (t[0] == "Arm") { if (t[1] == "ctor") { g_pend_ctor = num(t[2]); g_pend_alloc = false; g_armed = "ctor"; } else { g_pend_alloc = true; g_pend_ctor = 0; g_armed = "alloc"; } g_armn = t[1] == "ctor" ? num(t[2]) : 0; return; }
        const std::string &name = t[0]; int k = num(t[1]); long a = t.size() > 2 ? num(t[2]) : 0, b = t.size() > 3 ? num(t[3]) : 0; long ret = 0; int threw = 0; int d = (int)a; std::vector<long long> srcv;
        if (name == "Create") { prep(k); new (&c(k)) Cn(); exists[k] = true; reg(k); }
        else if (name == "CreateFrom") { auto vs = list(t[2]); std::vector<E> src; for (auto v : vs) { src.push_back(from_code<E>(v)); srcv.push_back(v); } a = 0; prep(k);
            if constexpr (Static) { // register the inline storage before the constructor fills it
                g_blocks.push_back(Block{(char *)c(k).data(), (sizeof(Cn) - sizeof(size_t)) / sizeof(E), sizeof(E), g_next_id, true}); { Ev e("Alloc"); e.i("b", g_next_id).i("n", (sizeof(Cn) - sizeof(size_t)) / sizeof(E)); e.end(); } ++g_next_id; }
            if (b == 2) {   // the range is given by single-pass input iterators
                if constexpr (Static && requires { Cn(src.data(), src.data() + src.size()); }) { SharedSrc<E> ss{&src, 0}; new (&c(k)) Cn(InIt<E>(&ss), InIt<E>()); } else unsupported(name); }
            else if (b == 3 && std::is_class<E>::value) {
                if constexpr (std::is_class<E>::value) { if constexpr (requires { Cn((Wider<E> *)0, (Wider<E> *)0); }) { std::vector<Wider<E>> ws(src.begin(), src.end()); new (&c(k)) Cn(ws.data(), ws.data() + ws.size()); } else unsupported(name); } }
            else if (b == 0 || b == 3) { if constexpr (requires { Cn(src.data(), src.data() + src.size()); }) new (&c(k)) Cn(src.data(), src.data() + src.size()); else unsupported(name); }
            else if constexpr (requires { Cn(std::initializer_list<E>{}); }) { // initializer list of the same values (lists of length 0..5)
                switch (src.size()) { case 0: new (&c(k)) Cn(std::initializer_list<E>{}); break; case 1: new (&c(k)) Cn(std::initializer_list<E>{src[0]}); break; case 2: new (&c(k)) Cn(std::initializer_list<E>{src[0], src[1]}); break;
                    case 3: new (&c(k)) Cn(std::initializer_list<E>{src[0], src[1], src[2]}); break; case 4: new (&c(k)) Cn(std::initializer_list<E>{src[0], src[1], src[2], src[3]}); break; default: new (&c(k)) Cn(std::initializer_list<E>{src[0], src[1], src[2], src[3], src[4]}); break; } }
            else unsupported(name);
            exists[k] = true; }
        else if (name == "Destroy") { c(k).~Cn(); exists[k] = false; unreg(k); }
        else if (name == "PushBack") { E v(from_code<E>(a)); guarded(threw, [&] { c(k).push_back(v); }); }
        else if (name == "EmplaceBack") { guarded(threw, [&] { if constexpr (std::is_same<E, double>::value) c(k).emplace_back(from_code<E>(a)); else c(k).emplace_back((int)a); }); }
        else if (name == "PushBackSelf") { if constexpr (!Static) c(k).push_back(c(k)[a]); else unsupported(name); }            // the argument refers to an element of the vector itself
        else if (name == "EmplaceBackSelf") { if constexpr (!Static) c(k).emplace_back(c(k)[a]); else unsupported(name); }
        else if (name == "InsertSelf") { if constexpr (!Static) { auto it = c(k).insert(c(k).begin() + a, c(k)[b]); ret = it - c(k).begin(); } else unsupported(name); }
        else if (name == "Erase") { if constexpr (requires { c(k).erase(c(k).begin(), c(k).begin()); }) c(k).erase(c(k).begin() + a, c(k).begin() + b); else unsupported(name); }
        else if (name == "Resize") { guarded(threw, [&] { c(k).resize(a); }); }
        else if (name == "Clear") { c(k).clear(); }
        else if (name == "CopyCtor") { prep(k); if constexpr (Static) { g_blocks.push_back(Block{(char *)c(k).data(), (sizeof(Cn) - sizeof(size_t)) / sizeof(E), sizeof(E), g_next_id, true}); { Ev e("Alloc"); e.i("b", g_next_id).i("n", (sizeof(Cn) - sizeof(size_t)) / sizeof(E)); e.end(); } ++g_next_id; }
            new (&c(k)) Cn(c(d)); exists[k] = true; if constexpr (!Static) {} }
        else if (name == "MoveCtor") { prep(k); if constexpr (Static) { g_blocks.push_back(Block{(char *)c(k).data(), (sizeof(Cn) - sizeof(size_t)) / sizeof(E), sizeof(E), g_next_id, true}); { Ev e("Alloc"); e.i("b", g_next_id).i("n", (sizeof(Cn) - sizeof(size_t)) / sizeof(E)); e.end(); } ++g_next_id; }
            new (&c(k)) Cn(std::move(c(d))); exists[k] = true; }
        else if (name == "CopyAssign") { c(k) = c(d); }
        else if (name == "MoveAssign") { c(k) = std::move(c(d)); }
        else if (name == "Index") { ret = val_of(c(k)[a]); }
        else if (name == "Front") { ret = val_of(c(k).front()); }
        else if (name == "Back") { ret = val_of(c(k).back()); }
        else if constexpr (!Static) {
            if (name == "Insert") { E v(from_code<E>(b)); auto it = c(k).insert(c(k).begin() + a, v); ret = it - c(k).begin(); }
            else if (name == "Emplace") { auto it = std::is_same<E, double>::value ? c(k).emplace(c(k).begin() + a, from_code<E>(b)) : c(k).emplace(c(k).begin() + a, (int)b); ret = it - c(k).begin(); }
            else if (name == "EraseAt") { c(k).erase(c(k).begin() + a); }
            else if (name == "PopBack") { c(k).pop_back(); }
            else if (name == "Reserve") { guarded(threw, [&] { c(k).reserve(a); }); }
            else if (name == "Eq") { ret = c(k) == c(d) ? 1 : 0; }
            else if (name == "Less") { if constexpr (requires { c(k) < c(d); }) ret = c(k) < c(d) ? 1 : 0; else unsupported(name); }
            else if (name == "At") { if constexpr (requires { c(k).at(0); }) { try { ret = val_of(c(k).at(a)); } catch (const std::out_of_range &) { threw = 1; ret = 0; } } else unsupported(name); }
            else { fprintf(stderr, "bad op %s\n", name.c_str()); exit(3); }
        } else { fprintf(stderr, "bad static op %s\n", name.c_str()); exit(3); }
        std::vector<long long> oc; if ((name == "MoveCtor" || name == "MoveAssign") && exists[d]) { size_t n = c(d).size(); for (size_t j = 0; j < n && j < 200000; ++j) oc.push_back(val_of(c(d).data()[j])); }
        std::string inj = g_armed; long injn = g_armn; g_armed = ""; g_armn = 0; g_pend_ctor = 0; g_pend_alloc = false;
        Ev e("Op"); e.str("name", name.c_str()).i("a", a).i("b", b).i("ret", ret).i("threw", threw).str("inject", inj.c_str()).i("injn", injn).ints("src", srcv).ints("ocontents", oc); obs(e, k); e.end();
        if (name == "CopyCtor" || name == "MoveCtor" || name == "CopyAssign" || name == "MoveAssign" || name == "Eq" || name == "Less") { Ev e2("Other"); obs(e2, d); e2.end(); }
    }
    void finish() { for (int k = 0; k < 2; ++k) if (exists[k]) { c(k).~Cn(); exists[k] = false; unreg(k); } }
};

struct Any { virtual void op(const std::vector<std::string> &) = 0; virtual void finish() = 0; virtual ~Any() {} };
template <class Cn, class E, bool S> struct Impl : Any { Runner<Cn, E, S> r; void op(const std::vector<std::string> &t) override { r.op(t); } void finish() override { r.finish(); } };
static Any *make(const std::string &kind, const std::string &elem, int N) {
    if (kind == "vec") { if (elem == "tracked") return new Impl<igris::vector<Tracked, TrackAlloc<Tracked>>, Tracked, false>(); if (elem == "dbl") return new Impl<igris::vector<double, TrackAlloc<double>>, double, false>(); if (elem == "sp") return new Impl<igris::vector<SP, TrackAlloc<SP>>, SP, false>(); return new Impl<igris::vector<int, TrackAlloc<int>>, int, false>(); }
    if (elem == "tracked") { if (N == 1) return new Impl<igris::static_vector<Tracked, 1>, Tracked, true>(); if (N == 2) return new Impl<igris::static_vector<Tracked, 2>, Tracked, true>(); if (N == 3) return new Impl<igris::static_vector<Tracked, 3>, Tracked, true>(); if (N == 4) return new Impl<igris::static_vector<Tracked, 4>, Tracked, true>(); if (N == 5) return new Impl<igris::static_vector<Tracked, 5>, Tracked, true>(); if (N == 300) return new Impl<igris::static_vector<Tracked, 300>, Tracked, true>(); if (N == 255) return new Impl<igris::static_vector<Tracked, 255>, Tracked, true>(); if (N == 256) return new Impl<igris::static_vector<Tracked, 256>, Tracked, true>(); fprintf(stderr, "capacity %d is not instantiated\n", N); exit(3); }
    if (elem == "sp") { if (N == 1) return new Impl<igris::static_vector<SP, 1>, SP, true>(); if (N == 2) return new Impl<igris::static_vector<SP, 2>, SP, true>(); if (N == 3) return new Impl<igris::static_vector<SP, 3>, SP, true>(); if (N == 4) return new Impl<igris::static_vector<SP, 4>, SP, true>(); if (N == 5) return new Impl<igris::static_vector<SP, 5>, SP, true>(); fprintf(stderr, "capacity %d is not instantiated\n", N); exit(3); }
    if (N == 1) return new Impl<igris::static_vector<int, 1>, int, true>(); if (N == 2) return new Impl<igris::static_vector<int, 2>, int, true>(); if (N == 3) return new Impl<igris::static_vector<int, 3>, int, true>(); if (N == 4) return new Impl<igris::static_vector<int, 4>, int, true>(); if (N == 5) return new Impl<igris::static_vector<int, 5>, int, true>(); if (N == 300) return new Impl<igris::static_vector<int, 300>, int, true>(); if (N == 255) return new Impl<igris::static_vector<int, 255>, int, true>(); if (N == 256) return new Impl<igris::static_vector<int, 256>, int, true>();
    if (N == 65535) return new Impl<igris::static_vector<int, 65535>, int, true>(); if (N == 65536) return new Impl<igris::static_vector<int, 65536>, int, true>(); if (N == 65537) return new Impl<igris::static_vector<int, 65537>, int, true>(); fprintf(stderr, "capacity %d is not instantiated\n", N); exit(3);
}
#ifndef VEC_ENTRY
#define VEC_ENTRY main_entry
#endif
static Any *cur = 0;
int main(int argc, char **argv) {
    return run(argc, argv, [&](const std::vector<std::string> &t) {
        if (t[0] == "R") { if (cur) { cur->finish(); delete cur; cur = 0; } g_blocks.clear();
            Ev e("Reset"); e.str("kind", t[1].c_str()).str("elem", t[2].c_str()).i("cap", t[1] == "svec" ? num(t[3]) : 0).i("keep", KEEP_ON_MOVE && t[1] == "svec" ? 1 : 0).str("flavour", FLAVOUR); e.end(); cur = make(t[1], t[2], (int)num(t[3])); return; }
        if (t[0] == "End") { cur->finish(); Ev e("End"); e.end(); return; }
        cur->op(t);
    });
}
