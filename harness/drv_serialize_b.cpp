// C09 driver, framework B (serializer.h / serialize_archive.h)
#include <igris/serialize/serialize_archive.h>
#define VLOG_OWN_HOOK_SINK 1
#define VLOG_NO_SANITIZER_HOOKS 1
#include "ser_common.h"
struct FwB {
    static const char *name() { return "B"; }
    template <class T> static std::string ser(const T &v) { return igris::serialize(v); }      // serialize_archive.h overload (binary_protocol)
    template <class T> static std::pair<T, long> des(const char *p, size_t n) { igris::deserialize_buffer_storage st(igris::buffer((char *)p, n)); int before = st.avail(); T r = igris::deserialize<T>(st); return {r, (long)(before - st.avail())}; }
    template <class T> static std::tuple<T, T, long> des2(const char *p, size_t n) { igris::deserialize_buffer_storage st(igris::buffer((char *)p, n)); int before = st.avail(); T a = igris::deserialize<T>(st); T b = igris::deserialize<T>(st); return {a, b, (long)(before - st.avail())}; }
    static const bool bounded = true;
    // decoding every truncation of the bytes through the bounded storage reader: must stay inside the block (ASan)
    template <class T> static void trunc(const char *p, size_t n) { for (size_t k = 0; k < n; ++k) { char *c = (char *)malloc(k ? k : 1); memcpy(c, p, k); igris::deserialize_buffer_storage st(igris::buffer(c, k)); T r = igris::deserialize<T>(st); (void)r; free(c); } }
};

#define TYPES_B(X) X(int8_t) X(int16_t) X(int32_t) X(int64_t) X(uint8_t) X(uint16_t) X(uint32_t) X(uint64_t) X(float) X(double) X(char) \
    X(std::vector<int32_t>) X(std::vector<uint8_t>) X(std::vector<double>) X(std::vector<std::vector<uint8_t>>) X(std::vector<std::vector<std::vector<int16_t>>>) X(PtB) X(NestB) X(std::vector<PtB>) X(std::vector<NestB>)
void ser_b(int idx) {
    int k = 0;
#define X(T) if (k++ == idx) { one<FwB, T>(idx); return; }
    TYPES_B(X)
#undef X
    Ev e("NoType"); e.i("idx", idx); e.end();
}
