// C02 driver (second part): igris::flat_map<int,int>, igris::flat_set<int> and the compat/std map/set shims.
#include "common/vlog.h"
#include <algorithm>
#include <stdexcept>
#include <compat/std/map>
#include <compat/std/set>
using namespace vlog;
template <class M> struct MapOps {
    M m;
    void op(const std::vector<std::string> &t, const char *kind) {
        const std::string &o = t[0]; int k = num(t[1]); int v = t.size() > 2 ? num(t[2]) : 0; long ret = 0; int threw = 0; int found = 0;
        if (o == "MIndex") { ret = m[k]; found = 1; }
        else if (o == "MSet") { m[k] = v; }
        else if (o == "MAt") { try { ret = m.at(k); found = 1; } catch (const std::out_of_range &) { threw = 1; } }
        else if (o == "MFind") { auto it = m.find(k); if (it != m.end()) { found = 1; ret = it->second; } }
        else if (o == "MCount") { ret = (long)m.count(k); found = 1; }
        else if (o == "MInsert") { auto it = m.insert(std::pair<int, int>(k, v)); ret = it->second; found = 1; }
        else if (o == "MEmplace") { auto r = m.emplace(k, v); ret = r.second ? 1 : 0; found = 1; }
        else if (o == "MClear") { m.clear(); }
        std::vector<std::pair<int, int>> all(m.begin(), m.end()); std::sort(all.begin(), all.end());
        std::vector<long long> ks, vs; for (auto &p : all) { ks.push_back(p.first); vs.push_back(p.second); }
        Ev e("A"); e.str("kind", "map").str("impl", kind).str("op", o.c_str()).i("k", k).i("v", v).i("ret", ret).i("threw", threw).i("found", found).i("size", (long)m.size()).ints("keys", ks).ints("vals", vs); e.end();
    }
};
template <class S> struct SetOps {
    S s;
    void op(const std::vector<std::string> &t, const char *kind) {
        const std::string &o = t[0]; int k = num(t[1]); long ret = 0; int found = 0;
        if (o == "SInsert") s.insert(k); else if (o == "SCount") { ret = (long)s.count(k); found = 1; } else if (o == "SClear") s.clear();
        std::vector<long long> ks; for (auto it = s.begin(); it != s.end(); ++it) ks.push_back(*it);   // iteration order as the container gives it
        Ev e("A"); e.str("kind", "set").str("impl", kind).str("op", o.c_str()).i("k", k).i("v", 0).i("ret", ret).i("threw", 0).i("found", found).i("size", (long)s.size()).ints("keys", ks).ints("vals", std::vector<long long>()); e.end();
    }
};
int main(int argc, char **argv) {
    MapOps<igris::flat_map<int, int>> *fm = 0; MapOps<std::map<int, int>> *sm = 0; SetOps<igris::flat_set<int>> *fs = 0; SetOps<std::set<int>> *ss = 0; std::string impl;
    return run(argc, argv, [&](const std::vector<std::string> &t) {
        if (t[0] == "R") { delete fm; delete sm; delete fs; delete ss; fm = new MapOps<igris::flat_map<int, int>>(); sm = new MapOps<std::map<int, int>>(); fs = new SetOps<igris::flat_set<int>>(); ss = new SetOps<std::set<int>>(); impl = t[1];
            Ev e("Reset"); e.str("impl", impl.c_str()); e.end(); return; }
        bool isset = t[0][0] == 'S';
        if (impl == "flat") { if (isset) fs->op(t, "flat"); else fm->op(t, "flat"); } else { if (isset) ss->op(t, "std"); else sm->op(t, "std"); }
    });
}
