/* forced include for compat/libc/stdlib/strtod.c: its strtod/atof become igv_strtod/igv_atof next to the host libc */
#ifndef VERIF_RENAME_STRTOD_H
#define VERIF_RENAME_STRTOD_H
#define strtod igv_strtod
#define atof igv_atof
#endif
