// C12 driver: float <-> text.  The driver decomposes binary floats into (class, sign, integer significand, exponent of the
// last bit) and logs texts as bytes; it performs no comparison.
//   F32 <bits> <prec>            igris_f32toa
//   F64 <hi32> <lo32> <prec> <fn>  fn: f64toa | ftoa
//   Sweep32 <precs> <lo> <hi> <stride>  exhaustive range of binary32 patterns (thorough tier; logs suspects + a regular sample)
//   Dpr <hi32> <lo32> <prec> <fn>     debug_printdec_double_prec / debug_printdec_float_prec
//   Parse <fn> <bytes> <wantend>   fn: atof32 | atof64 | igris_strtod | strtod | atof | strtod_nof64 | atof_nof64 | binreader
#include "common/vlog.h"
#include <igris/util/numconvert.h>
#include <igris/binreader.h>
#include <math.h>
#include <igris/dprint.h>
static std::vector<unsigned char> dbg;
// "Dprn": re-entrant sink - after every character it receives, the sink itself prints a float and an integer through the debug
// printers (into a sink of its own)
static int g_nest = 0; static std::vector<unsigned char> dbg_in;
extern "C" void debug_printdec_float_prec(float, int); extern "C" void debug_printdec_double_prec(double, int);
extern "C" void debug_putchar(char c) { if (g_nest == 2) { dbg_in.push_back((unsigned char)c); return; } dbg.push_back((unsigned char)c); if (dbg.size() > 4096) { vlog::flush(); _exit(9); }
    if (g_nest == 1) { g_nest = 2; dbg_in.clear(); debug_printdec_float_prec(98765.4375f, 3); debug_printdec_double_prec(-0.000123456789, 9); g_nest = 1; } }
extern "C" void debug_write(const char *c, int n) { for (int i = 0; i < n; ++i) debug_putchar(c[i]); }
extern "C" { double igv_strtod(const char *, char **); double igv_atof(const char *); double igv32_strtod(const char *, char **); double igv32_atof(const char *); }
using namespace vlog;
static std::vector<long long> limbs(unsigned long long m) { std::vector<long long> v; while (m) { v.push_back((long long)(m % 10000)); m /= 10000; } return v; }
static void dec64(Ev &e, const char *pfx, double d) {
    unsigned long long b; memcpy(&b, &d, 8); int ex = (int)((b >> 52) & 0x7ff); unsigned long long fr = b & 0xfffffffffffffULL; int neg = (int)(b >> 63);
    std::string p(pfx);
    if (ex == 0x7ff) { e.str((p + "cls").c_str(), fr ? "nan" : "inf").i((p + "neg").c_str(), neg).ints((p + "m").c_str(), std::vector<long long>()).i((p + "e").c_str(), 0); return; }
    unsigned long long m = ex ? (fr | (1ULL << 52)) : fr; int ee = ex ? ex - 1075 : -1074;
    e.str((p + "cls").c_str(), "fin").i((p + "neg").c_str(), neg).ints((p + "m").c_str(), limbs(m)).i((p + "e").c_str(), ee);
}
static void dec32(Ev &e, const char *pfx, float f) {
    unsigned b; memcpy(&b, &f, 4); int ex = (int)((b >> 23) & 0xff); unsigned fr = b & 0x7fffff; int neg = (int)(b >> 31);
    std::string p(pfx);
    if (ex == 0xff) { e.str((p + "cls").c_str(), fr ? "nan" : "inf").i((p + "neg").c_str(), neg).ints((p + "m").c_str(), std::vector<long long>()).i((p + "e").c_str(), 0); return; }
    unsigned m = ex ? (fr | (1u << 23)) : fr; int ee = ex ? ex - 150 : -149;
    e.str((p + "cls").c_str(), "fin").i((p + "neg").c_str(), neg).ints((p + "m").c_str(), limbs(m)).i((p + "e").c_str(), ee);
}
static const int BUFSZ = 64;
static void render_obs(Ev &e, const unsigned char *buf, const char *ret) {
    size_t n = strnlen((const char *)buf, BUFSZ); long touched = -1; for (int i = 0; i < BUFSZ; ++i) if (buf[i] != 0xA5) touched = i;
    e.bytes("text", buf, n).i("terminated", n < (size_t)BUFSZ ? 1 : 0).i("touched", touched).i("retoff", ret ? (long)(ret - (const char *)buf) : -99);
}
// ---- exhaustive sweeps (thorough tier): a native pre-filter only SELECTS the calls that are logged (every suspect and a
// regular sample); the logged calls are judged by TLC like all others, so a mistake here can lower coverage but cannot
// produce or hide an alarm for a logged call.
static bool suspect32(float f, int prec, const unsigned char *buf) {
    size_t n = strnlen((const char *)buf, BUFSZ); if (n >= (size_t)BUFSZ) return true;
    for (size_t i = n + 1; i < (size_t)BUFSZ; ++i) if (buf[i] != 0xA5) return true;
    const char *s = (const char *)buf;
    if (f != f) return strcmp(s, "nan") != 0;
    if (f == INFINITY || f == -INFINITY) return strcmp(s, f > 0 ? "+inf" : "-inf") != 0;
    size_t i = 0; bool neg = false; if (s[i] == '-') { neg = true; ++i; }
    long double v = 0; size_t id = 0, fd = 0;
    for (; s[i] >= '0' && s[i] <= '9'; ++i, ++id) v = v * 10 + (s[i] - '0');
    if (!id) return true;
    long double unit = 1;
    if (s[i] == '.') { ++i; long double sc = 1; for (; s[i] >= '0' && s[i] <= '9'; ++i, ++fd) { sc /= 10; v += (s[i] - '0') * sc; } if (!fd) return true; unit = sc; }
    if (i != n) return true;
    if (prec >= 0 && prec <= 10 ? fd != (size_t)prec : fd > 10) return true;
    unsigned bits; memcpy(&bits, &f, 4); int ex = (int)((bits >> 23) & 0xff); long double ulp = ldexpl(1.0L, ex ? ex - 150 : -149);
    long double x = f < 0 ? -(long double)f : (long double)f;
    if (neg && !(bits >> 31)) return true;
    if (!neg && (bits >> 31) && v != 0) return true;
    long double err = v > x ? v - x : x - v;
    return err > (1.0L - 1e-9L) * (unit + 4 * ulp);   // long double carries 64 bits: the margin covers its own rounding
}

int main(int argc, char **argv) {
    return run(argc, argv, [&](const std::vector<std::string> &t) {
        if (t[0] == "R") { Ev e("Reset"); e.end(); return; }
        if (t[0] == "F32") {
            unsigned bits = (unsigned)num(t[1]); int prec = (int)num(t[2]); float f; memcpy(&f, &bits, 4);
            unsigned char *buf = (unsigned char *)malloc(BUFSZ); memset(buf, 0xA5, BUFSZ);
            char *r = igris_f32toa(f, (char *)buf, (int8_t)prec);
            Ev e("Render"); e.str("fn", "f32toa").i("prec", prec); dec32(e, "x_", f); dec32(e, "y_", f); render_obs(e, buf, r); e.end(); free(buf);
        } else if (t[0] == "F64") {
            unsigned long long bits = ((unsigned long long)num(t[1]) << 32) | (unsigned long long)num(t[2]); int prec = (int)num(t[3]); double d; memcpy(&d, &bits, 8);
            unsigned char *buf = (unsigned char *)malloc(BUFSZ); memset(buf, 0xA5, BUFSZ);
            char *r = t[4] == "ftoa" ? igris_ftoa(d, (char *)buf, (int8_t)prec) : igris_f64toa(d, (char *)buf, (int8_t)prec);
            // x: the argument; y: the argument as binary32 (the unit of the representation error of this renderer)
            Ev e("Render"); e.str("fn", t[4].c_str()).i("prec", prec); dec64(e, "x_", d); dec32(e, "y_", (float)d); render_obs(e, buf, r); e.end(); free(buf);
        } else if (t[0] == "Dpr" || t[0] == "Dprn") {   // Dpr <hi32> <lo32> <prec> <fn>   fn: dprint_double | dprint_float  (debug printers; output through debug_putchar)
            unsigned long long bits = ((unsigned long long)num(t[1]) << 32) | (unsigned long long)num(t[2]); int prec = (int)num(t[3]); double d; memcpy(&d, &bits, 8); dbg.clear();
            Ev e("Render"); e.str("fn", t[4].c_str()).i("prec", prec).i("nested", t[0] == "Dprn" ? 1 : 0); g_nest = t[0] == "Dprn" ? 1 : 0;
            if (t[4] == "dprint_float") { debug_printdec_float_prec((float)d, prec); dec32(e, "x_", (float)d); dec32(e, "y_", (float)d); }
            else { debug_printdec_double_prec(d, prec); dec64(e, "x_", d); dec64(e, "y_", d); }
            g_nest = 0; e.bytes("text", dbg.data(), dbg.size()).i("terminated", 1).i("touched", (long)dbg.size()).i("retoff", 0); e.end();
        } else if (t[0] == "Sweep32") {   // Sweep32 <precs> <lo> <hi> <stride>: every binary32 pattern in [lo, hi) x every listed precision
            auto precs = list(t[1]); unsigned long long lo = (unsigned long long)num(t[2]), hi = (unsigned long long)num(t[3]), stride = (unsigned long long)num(t[4]);
            unsigned long long count = 0, suspects = 0; unsigned char *buf = (unsigned char *)malloc(BUFSZ);
            for (unsigned long long b = lo; b < hi; ++b) {
                if ((b & 4095) == 0) { unsigned keep = g_op_timeout; g_op_timeout = 2; watchdog(true); g_op_timeout = keep; }   // 2 s of CPU per 4096 patterns
                unsigned bits = (unsigned)b; float f; memcpy(&f, &bits, 4);
                for (auto p : precs) {
                    memset(buf, 0xA5, BUFSZ); char *r = igris_f32toa(f, (char *)buf, (int8_t)p); ++count;
                    bool sus = suspect32(f, (int)p, buf);
                    if (sus) ++suspects;
                    if ((sus && suspects <= 5000) || count % stride == 0) { Ev e("Render"); e.str("fn", "f32toa").i("prec", (long)p); dec32(e, "x_", f); dec32(e, "y_", f); render_obs(e, buf, r); e.end(); }
                }
            }
            free(buf); Ev e("SweepDone"); e.i("calls_lo", (long)(count % 1000000)).i("calls_m", (long)(count / 1000000)).i("suspects", (long)(suspects > 2000000000ULL ? 2000000000ULL : suspects)); e.end();
        } else if (t[0] == "Parse") {
            const std::string &fn = t[1]; auto tx = blist(t[2]); int wantend = (int)num(t[3]);
            char *s = (char *)malloc(tx.size() + 1); memcpy(s, tx.data(), tx.size()); s[tx.size()] = 0; char *end = (char *)-1; char **pe = wantend ? &end : 0;
            Ev e("Parse"); e.str("fn", fn.c_str()).bytes("text", tx.data(), tx.size());
            if (fn == "atof32") { float r = igris_atof32(s, pe); dec32(e, "r_", r); e.i("wide", 0); }
            else if (fn == "strtod_nof64") { float r = (float)igv32_strtod(s, pe); dec32(e, "r_", r); e.i("wide", 0); }      // compat strtod.c built with -DWITHOUT_ATOF64
            else if (fn == "atof_nof64") { wantend = 0; float r = (float)igv32_atof(s); dec32(e, "r_", r); e.i("wide", 0); }
            else if (fn == "binreader") { igris::binreader rd(s); float r = 0; rd.read_ascii_decimal_float(&r); end = (char *)rd.ptr; wantend = 1; dec32(e, "r_", r); e.i("wide", 0); }
            else { double r = fn == "atof64" ? igris_atof64(s, pe) : fn == "igris_strtod" ? igris_strtod(s, pe) : fn == "strtod" ? igv_strtod(s, pe) : (wantend = 0, igv_atof(s)); dec64(e, "r_", r); e.i("wide", 1); }
            e.i("end", wantend ? (end == (char *)-1 ? -2 : (long)(end - s)) : -1); e.end(); free(s);
        } else { fprintf(stderr, "bad op\n"); exit(3); }
    });
}
