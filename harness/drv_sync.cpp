// C20 driver: real threads execute small programs over the system lock, a wait queue and a
// safe_queue; the IGRIS_VERIF_POINT hooks record one event per synchronisation step.
// Script:  R sync <nthreads> | P <tid> <op> [arg]  (program lines) | GO <seed> <mode>
//   ops: lock unlock save restore wait <prio> unwait_one <fut> unwait_all <fut> push <v> pop
//   mode: log (events recorded under a global log lock) | race (no logging; for ThreadSanitizer)
#define VLOG_OWN_HOOK_SINK 1
#include "common/vlog.h"
#include <igris/sync/syslock.h>
#include <igris/osinter/wait.h>
#include <igris/event/safe_queue.h>
#include <cerrno>
#include <igris/container/dlist.h>
#include <thread>
#include <mutex>
#include <atomic>
#include <chrono>
#include <condition_variable>
using namespace vlog;

struct Rec { const char *kind; int t; const void *obj; long val; };
static std::mutex g_logm; static std::vector<Rec> g_log; static bool g_logging = true;
static thread_local int tl_tid = 0; static thread_local unsigned tl_rng = 1; static thread_local int tl_unlinked = 0;
static std::atomic<int> g_unlinked{0}, g_enq{0}, g_pushed{0}, g_popped{0};
static std::atomic<int> g_finished{0};
static int g_yield_pct = 30;

static void maybe_yield() {
    tl_rng = tl_rng * 1103515245u + 12345u;
    unsigned r = (tl_rng >> 16) % 100;
    if ((int)r < g_yield_pct) {
        unsigned r2 = (tl_rng >> 8) % 16;
        if (r2 == 0) std::this_thread::sleep_for(std::chrono::microseconds(400));           // occasionally a long preemption
        else if (r2 < 6) std::this_thread::sleep_for(std::chrono::microseconds(20 + r));
        else std::this_thread::yield();
    }
}
// ---- controlled executions: the order of the hook events follows a schedule taken from a TLC behaviour of SysSync.tla -----------------
// g_sched[i] is the thread that performs the i-th state-changing hook event.  A thread that reaches such a hook waits until the schedule
// names it.  If the named thread cannot move for 3 ms (the model and the code disagree about what is enabled, or the alignment was lost),
// its entry is skipped and counted as a stall: the schedule is a way to reach interleavings, never a source of verdicts.
static std::vector<int> g_sched; static size_t g_spos = 0; static bool g_ctl = false; static int g_stalls = 0;
static std::mutex g_sm; static std::condition_variable g_scv; static std::chrono::steady_clock::time_point g_progress;
static bool consuming(const char *k) {      // hook kinds that are steps of the model (the others are plain scheduling points)
    return !(strcmp(k, "sl_unlocked") == 0 || strcmp(k, "ev_wenter") == 0 || strcmp(k, "ev_senter") == 0 || strcmp(k, "ev_sleft") == 0 || strcmp(k, "sq_size") == 0); }
// gate: wait (without consuming) until the schedule names this thread; consume: this thread has made the step the schedule named
static int g_mismatch = 0;
static void gate(int t) {
    std::unique_lock<std::mutex> lk(g_sm);
    while (g_ctl && g_spos < g_sched.size() && g_sched[g_spos] != t) {
        if (g_scv.wait_for(lk, std::chrono::microseconds(200)) == std::cv_status::timeout) {
            auto now = std::chrono::steady_clock::now();
            if (now - g_progress > std::chrono::milliseconds(10) && g_spos < g_sched.size() && g_sched[g_spos] != t) { ++g_stalls; ++g_spos; g_progress = now; g_scv.notify_all(); }
        }
    }
}
static void consume(int t) {
    std::lock_guard<std::mutex> lk(g_sm);
    if (g_ctl && g_spos < g_sched.size() && g_sched[g_spos] == t) { ++g_spos; g_progress = std::chrono::steady_clock::now(); g_scv.notify_all(); } else ++g_mismatch;
}
extern "C" void igris_verif_point(const char *kind, const void *obj, long val) {
    if (g_ctl) {
        if (kind[0] == 'u' && kind[2] == 'u') { g_unlinked.fetch_add(1, std::memory_order_relaxed); ++tl_unlinked; }
        else if (kind[0] == 'w' && kind[2] == 'e') g_enq.fetch_add(1, std::memory_order_relaxed);
        bool cons = consuming(kind);
        if (tl_tid > 0 && tl_tid < 5 && cons) consume(tl_tid);
        if (g_logging) { std::lock_guard<std::mutex> g(g_logm); if (g_log.size() < 20000) g_log.push_back(Rec{kind, tl_tid, obj, val}); }
        // wait for the next turn where the step just reported has really taken effect: after the mutex has been released for the releasing
        // steps (sl_unlocked / ev_sleft follow sl_rel / ev_sunlock), and not at all before parking (ev_test with the flag clear) or sl_save
        bool g = cons ? !(strcmp(kind, "sl_rel") == 0 || strcmp(kind, "ev_sunlock") == 0 || strcmp(kind, "sl_save") == 0 || (strcmp(kind, "ev_test") == 0 && val == 0))
                      : (strcmp(kind, "sl_unlocked") == 0 || strcmp(kind, "ev_sleft") == 0);
        if (tl_tid > 0 && tl_tid < 5 && g) gate(tl_tid);
        return;
    }
    if (kind[0] == 'u' && kind[2] == 'u') { g_unlinked.fetch_add(1, std::memory_order_relaxed); ++tl_unlinked; }   // u_unlink
    else if (kind[0] == 'w' && kind[2] == 'e') g_enq.fetch_add(1, std::memory_order_relaxed);          // w_enq
    maybe_yield();     // before and after: a step may be delayed on either side of its report
    if (g_logging) { std::lock_guard<std::mutex> g(g_logm); if (g_log.size() < 20000) g_log.push_back(Rec{kind, tl_tid, obj, val}); }   // (a runaway loop must not flood the trace; the execution is then reported as hung)
    maybe_yield();
}

struct Op { std::string k; long a; long b; };
// delegate waiters (waiter_delegate_init): queue entries that are not threads; waking one calls its function under the system lock.
// A delegate with chain != 0 wakes the next waiter of the same queue from inside its callback (the system lock is recursive).
struct Deleg { waiter w; int id; int chain; };
static Deleg g_deleg[8];
static igris::dlist_base *WQ;
static void deleg_cb(void *obj) { Deleg *d = (Deleg *)obj; igris_verif_point("d_call", d, (long)d->w.future); if (d->chain) unwait_one(WQ, 700 + d->id); }
static int deleg_id(const void *p) { const char *q = (const char *)p; if (q >= (const char *)g_deleg && q < (const char *)(g_deleg + 8)) return g_deleg[(q - (const char *)g_deleg) / sizeof(Deleg)].id; return 0; }
static std::vector<std::vector<Op>> prog;
struct Item { int v; };
static igris::safe_queue<int> *SQ;
static std::vector<std::vector<long long>> rets;   // per thread: values returned by wait / pop
static int n_waits = 0, n_pushes = 0;

static std::atomic<int> g_arrived{0}; static int g_nth = 0; static bool g_was_ctl = false;
static void run_thread(int tid, unsigned seed) {
    tl_tid = tid; tl_rng = seed * 7919u + tid * 104729u + 1;
    if (g_was_ctl) {      // controlled executions start when every thread exists (a thread that is still being created cannot take its turn);
        // g_was_ctl is fixed for the whole execution - the rescue may switch g_ctl off while threads are still being created
        g_arrived.fetch_add(1); while (g_arrived.load() < g_nth && g_ctl) std::this_thread::yield();
        { std::lock_guard<std::mutex> lk(g_sm); g_progress = std::chrono::steady_clock::now(); }
        gate(tid); }
    syslock_save_pair sv{0, 0};
    unsigned opi = 0;
    for (const Op &op : prog[tid]) {
        // whatever an earlier, unrelated call left in this thread's errno (an interrupted sleep or read: EINTR) must not matter
        { static const int stale[] = {0, EINTR, EAGAIN, EINTR, ENOMEM, ETIMEDOUT, EINVAL, EINTR}; errno = stale[(seed + 3u * tid + opi++) % 8]; }
        if (op.k == "lock") system_lock();
        else if (op.k == "unlock") system_unlock();
        else if (op.k == "save") sv = system_lock_save();
        else if (op.k == "restore") system_lock_restore(sv);
        else if (op.k == "wait") { void *fut = 0; wait_current_schedee(WQ, (int)op.a, &fut); rets[tid].push_back((long long)(intptr_t)fut); }
        else if (op.k == "denq") { Deleg &d = g_deleg[op.a - 11]; d.id = (int)op.a; d.chain = (int)op.b; if (d.w.lnk.is_linked()) d.w.lnk.unlink(); d.w.future = 0; waiter_delegate_init(&d.w, deleg_cb, &d);
            system_lock(); WQ->move_back(d.w.lnk); igris_verif_point("d_enq", &d, 0); g_enq.fetch_add(1, std::memory_order_relaxed); system_unlock(); }
        else if (op.k == "unwait_one") {   // wake exactly one waiter that is (or will be) queued
            int before = tl_unlinked;
            do { unwait_one(WQ, op.a); if (tl_unlinked == before) std::this_thread::sleep_for(std::chrono::microseconds(50)); }
            while (tl_unlinked == before && g_unlinked.load() < n_waits);
        }
        else if (op.k == "unwait_once") unwait_one(WQ, op.a);          // exactly one call, as the model's unwait_one (controlled executions)
        else if (op.k == "unwait_all_now") unwait_all(WQ, op.a);
        else if (op.k == "unwait_all") { while (g_enq.load() < n_waits) std::this_thread::sleep_for(std::chrono::microseconds(50)); unwait_all(WQ, op.a); }
        else if (op.k == "push") { SQ->push((int)op.a); }
        else if (op.k == "pop") { while (SQ->size() == 0) std::this_thread::sleep_for(std::chrono::microseconds(30)); rets[tid].push_back(SQ->pop()); }
        maybe_yield();
    }
    g_finished.fetch_add(1);
}

int main(int argc, char **argv) {
    int nth = 0;
    return run(argc, argv, [&](const std::vector<std::string> &t) {
        const std::string &op = t[0];
        if (op == "R") { nth = num(t[2]); prog.assign(nth + 1, {}); rets.assign(nth + 1, {}); n_waits = 0; n_pushes = 0; return; }
        if (op == "P") { int tid = num(t[1]); Op o{t[2], t.size() > 3 ? num(t[3]) : 0, t.size() > 4 ? num(t[4]) : 0}; prog[tid].push_back(o); if (o.k == "wait" || o.k == "denq") ++n_waits; if (o.k == "push") ++n_pushes; return; }
        if (op == "GO") {
            unsigned seed = num(t[1]); g_logging = t.size() < 3 || t[2] != "race"; g_yield_pct = t.size() > 3 ? num(t[3]) : 30;
            g_sched.clear(); g_spos = 0; g_stalls = 0; g_mismatch = 0; g_ctl = false;
            if (t.size() > 4 && t[4].compare(0, 4, "ctl:") == 0) { for (auto x : list(t[4].substr(4))) g_sched.push_back((int)x); g_ctl = true; g_progress = std::chrono::steady_clock::now(); }
            alarm(0);
            g_log.clear(); g_unlinked = 0; g_enq = 0; g_finished = 0;
            WQ = new igris::dlist_base(); SQ = new igris::safe_queue<int>();
            g_arrived = 0; g_nth = nth; g_was_ctl = g_ctl;
            std::vector<std::thread> th;
            for (int i = 1; i <= nth; ++i) th.emplace_back(run_thread, i, seed);
            // watchdog: all threads must finish
            auto t0 = std::chrono::steady_clock::now(); bool hung = false;
            bool was_ctl = g_ctl; long sc_n = (long)g_sched.size(), sc_consumed = 0, sc_stalls = 0; bool rescued = false; std::thread rescue;
            while (g_finished.load() < nth) {
                std::this_thread::sleep_for(std::chrono::milliseconds(1));
                // a TLC behaviour may end with a waiter still parked (its waker ran before it queued): once the schedule is used up, a further
                // thread (id 5) wakes whoever is left, as the closed programs of the other executions do
                if (was_ctl && !rescued && std::chrono::steady_clock::now() - t0 > std::chrono::milliseconds(40)) {
                    { std::lock_guard<std::mutex> lk(g_sm); sc_consumed = (long)g_spos; sc_stalls = g_stalls; g_ctl = false; g_scv.notify_all(); }
                    rescued = true; rescue = std::thread([&] { tl_tid = 5; while (g_finished.load() < nth) { unwait_all(WQ, 999); std::this_thread::sleep_for(std::chrono::milliseconds(2)); } });
                }
                if (std::chrono::steady_clock::now() - t0 > std::chrono::seconds(3)) { hung = true; break; }
            }
            if (!hung && rescue.joinable()) rescue.join();      // (its last unwait_all must be complete before the log is read)
            // event objects -> waiter thread (w_create carries the event address of that thread's waiter)
            Ev r("Reset"); r.str("kind", "sync").i("nth", nth); r.end();
            {
                std::lock_guard<std::mutex> g(g_logm);
                std::vector<std::pair<const void *, int>> evown;   // current owner of an event address
                auto owner_of = [&](const void *p, bool waiterstruct) -> int {
                    for (auto it = evown.rbegin(); it != evown.rend(); ++it) {
                        const char *e = (const char *)it->first; const char *q = (const char *)p;
                        if (!waiterstruct ? e == q : (q <= e && e < q + 256)) return it->second;
                    }
                    return 0; };
                for (const Rec &x : g_log) {
                    std::string k = x.kind; int w = 0;
                    if (k == "w_create") { evown.push_back({x.obj, x.t}); w = x.t; }
                    else if (k == "ev_sleft" || k == "ev_senter" || k == "ev_wenter") w = 0;
                    else if (k[0] == 'e' || k == "w_enq" || k == "w_resumed" || k == "w_destroy") w = owner_of(x.obj, false);
                    else if (k == "d_enq" || k == "d_call") w = deleg_id(x.obj);
                    else if (k == "u_unlink") w = deleg_id(x.obj) ? deleg_id(x.obj) : owner_of(x.obj, true);
                    Ev e(x.kind); e.i("t", x.t).i("w", w).i("v", x.val); e.end();
                }
            }
            if (was_ctl) { { std::lock_guard<std::mutex> lk(g_sm); if (g_ctl) { sc_consumed = (long)g_spos; sc_stalls = g_stalls; g_ctl = false; g_scv.notify_all(); } }
                Ev e("Sched"); e.i("t", 0).i("w", 0).i("v", 0).i("n", sc_n).i("consumed", sc_consumed).i("stalls", sc_stalls).i("mismatch", g_mismatch).i("rescued", rescued ? 1 : 0); e.end(); }
            if (hung) { Ev e("Hung"); e.i("finished", g_finished.load()); e.end(); flush(); _exit(0); }
            for (auto &x : th) x.join();
            if (rescue.joinable()) rescue.join();
            for (int i = 1; i <= nth; ++i) { Ev e("Ret"); e.i("t", i).ints("vals", rets[i]); e.end(); }
            Ev e("End"); e.i("n", (long)g_log.size()); e.end();
            delete SQ; delete WQ;
            return; }
        fprintf(stderr, "bad op %s\n", op.c_str()); exit(3);
    });
}
