/* legacy gstuff codec wrappers (own TU: its macros clash with igris/protocols/gstuff.h) */
#include <igris/protocols/gstuff_v1/gstuff.h>
#include <igris/protocols/gstuff_v1/autorecv.h>
#include <string.h>
static struct gstuff_autorecv_v1 A;
void v1_init(void *buf, int len) { memset(&A, 0, sizeof(A)); gstuff_autorecv_setbuf_v1(&A, buf, len); }
int v1_newchar(char c) { return gstuff_autorecv_newchar_v1(&A, c); }
int v1_size(void) { return (int)A.line.len; }
const char *v1_data(void) { return A.line.buf; }
int v1_encode(char *data, int size, char *out) { return gstuffing_v1(data, size, out); }
