// C01 driver (second part): slist (C), igris::slist<T> (C++), hlist (C).
#include "common/vlog.h"
#include <igris/datastruct/slist.h>
#include <igris/container/slist.h>
#include <igris/datastruct/hlist.h>
#include <memory>
using namespace vlog;
static const int MAXN = 16;
static std::string kind; static int NN;
struct SItem { int id; slist_head lnk; };
struct HItem { int id; hlist_node lnk; };
static slist_head s_head; static SItem s_items[MAXN];
static hlist_head h_head; static HItem h_items[MAXN];
typedef igris::slist<SItem, &SItem::lnk> XS;
static std::unique_ptr<XS> xs;
static int sidx(const slist_head *p) { if (p == &s_head) return 0; for (int i = 1; i <= NN; ++i) if (&s_items[i].lnk == p) return i; return -7; }
static int hidx(const hlist_node *p) { if (!p) return -1; for (int i = 1; i <= NN; ++i) if (&h_items[i].lnk == p) return i; return -7; }
static int hppidx(hlist_node **pp) { if (!pp) return -9; if (pp == &h_head.first) return 0; for (int i = 1; i <= NN; ++i) if (&h_items[i].lnk.next == pp) return i; return -7; }

static void observe(Ev &e) {
    std::vector<long long> fwd, inl, pp; long size = -1, empty = -1; int steps = 0; const int LIM = 4 * NN + 4;
    if (kind == "slist") { slist_head *it; slist_for_each(it, &s_head) { fwd.push_back(sidx(it)); if (++steps > LIM) break; }
        if (steps <= LIM) { size = slist_size(&s_head); empty = slist_empty(&s_head) ? 1 : 0; for (int i = 1; i <= NN; ++i) inl.push_back(slist_in(&s_head, &s_items[i].lnk) ? 1 : 0); } }
    else if (kind == "slistxx") { for (auto it = xs->begin(); it != xs->end(); ++it) { fwd.push_back(sidx(it.current)); if (++steps > LIM) break; } empty = xs->empty() ? 1 : 0; size = fwd.size();
        for (int i = 1; i <= NN; ++i) inl.push_back(0); for (auto v : fwd) if (v >= 1 && v <= NN) inl[v - 1] = 1; }
    else { hlist_node *it; hlist_for_each(it, &h_head) { fwd.push_back(hidx(it)); if (++steps > LIM) break; } size = fwd.size(); empty = h_head.first == 0 ? 1 : 0;
        for (int i = 1; i <= NN; ++i) inl.push_back(0); for (auto v : fwd) if (v >= 1 && v <= NN) { inl[v - 1] = 1; }
        for (auto v : fwd) pp.push_back(v >= 1 && v <= NN ? hppidx(h_items[v].lnk.pprev) : -7); }
    e.ints("fwd", fwd).i("size", size).i("empty", empty).ints("inl", inl).ints("pp", pp);
}
int main(int argc, char **argv) {
    return run(argc, argv, [&](const std::vector<std::string> &t) {
        const std::string &op = t[0];
        if (op == "R") { kind = t[1]; NN = num(t[2]);
            for (int i = 0; i <= NN; ++i) { s_items[i].id = i; h_items[i].id = i; s_items[i].lnk.next = 0; hlist_node_init(&h_items[i].lnk); h_items[i].lnk.next = 0; }
            slist_init(&s_head); hlist_head_init(&h_head); xs.reset(new XS());
            Ev e("Reset"); e.str("kind", kind.c_str()).i("nn", NN); observe(e); e.end(); return; }
        int a = t.size() > 1 ? num(t[1]) : -1, b = t.size() > 2 ? num(t[2]) : -1; long ret = -2;
        static long cnt = 0; ++cnt;
        if (op == "AddFront") { if (kind == "slist") slist_add(&s_items[a].lnk, &s_head); else if (kind == "slistxx") { if (cnt % 2) xs->add_first(s_items[a]); else xs->move_front(s_items[a]); } else hlist_add_next(&h_items[a].lnk, &h_head.first); }
        else if (op == "AddAfter") { if (kind == "slist") slist_add(&s_items[a].lnk, &s_items[b].lnk); else hlist_add_next(&h_items[a].lnk, &h_items[b].lnk.next); }
        else if (op == "PopFirst") { slist_head *r = slist_pop_first(&s_head); ret = r ? sidx(r) : -1; }
        else if (op == "Del") { hlist_del(&h_items[a].lnk); }
        else { fprintf(stderr, "bad op %s\n", op.c_str()); exit(3); }
        Ev e(op.c_str()); e.i("a", a).i("b", b).i("ret", ret); observe(e); e.end();
    });
}
