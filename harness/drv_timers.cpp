// C16 driver: igris::timer_manager with scripted callbacks, and the C stimer.
#include "common/vlog.h"
#include <igris/time/timer_manager.h>
#include <igris/datastruct/stimer.h>
#include <memory>
using namespace vlog;
static const int MAXT = 12;
struct Eff { int kind = 0; int t = 0; long ds = 0; long iv = 1; };   // 0 none, 1 unplan, 2 plan
// TM_SPEC32: the manager instantiated with a 64-bit clock and 32-bit intervals (timer_spec<int64_t, int32_t>) instead of the default spec
#ifdef TM_SPEC32
typedef igris::timer_spec<int64_t, int32_t> Spec;
#else
typedef igris::timer_spec<int64_t> Spec;
#endif
typedef igris::timer_manager_basic<Spec> Mgr; typedef igris::timer_basic<Spec, int> Tm;
static std::unique_ptr<Mgr> M, M2;          // M2: a second manager of the same type (timers T2, no callback effects)
static std::unique_ptr<Tm> T[MAXT + 1], T2[MAXT + 1];
static int NT2; static long now2_; static std::vector<long long> fired2;
static void cb2(int id) { fired2.push_back(id); }
static Eff eff[MAXT + 1];
static int NT; static long now_; static std::vector<long long> fired;
// the manager sees time BASE + t * 2^SC and intervals iv * 2^SC (scheduling is invariant under this map); events are logged in model units
static int SC = 0; static long BASE = 0;
static long up(long t) { return BASE + t * (1L << SC); }
static long upd(long d) { return d * (1L << SC); }
static long down(long t) { return (t - BASE) >> SC; }
static long downd(long d) { return d >> SC; }
static stimer_head ST;
static void observe2(Ev &e, long tm);
static void cb(int id) {
    fired.push_back(id);
    const Eff &e = eff[id];
    if (e.kind == 3) { fired2.clear(); now2_ = now_; M2->exec(up(now_)); Ev x("Exec2"); x.i("now", now_).ints("fired", fired2).i("from_callback", id); observe2(x, now_); x.end(); }   // the other manager, from inside this one's exec
    else if (e.kind == 1) T[e.t]->unplan();
    else if (e.kind == 2) M->plan(*T[e.t], up(now_ + e.ds), upd(e.iv));
}
static void observe(Ev &e, long tm) {
    std::vector<long long> pl, fin, mi;
    for (int t = 1; t <= NT; ++t) { pl.push_back(T[t]->is_planned() ? 1 : 0); fin.push_back(down(T[t]->finish())); }
    if (!M->empty()) mi.push_back(downd(M->minimal_interval(up(tm))));
    e.ints("planned", pl).ints("fin", fin).i("empty", M->empty() ? 1 : 0).ints("mi", mi);
}
static void observe2(Ev &e, long tm) {
    std::vector<long long> pl, fin, mi;
    for (int t = 1; t <= NT2; ++t) { pl.push_back(T2[t]->is_planned() ? 1 : 0); fin.push_back(down(T2[t]->finish())); }
    if (!M2->empty()) mi.push_back(downd(M2->minimal_interval(up(tm))));
    e.ints("planned", pl).ints("fin", fin).i("empty", M2->empty() ? 1 : 0).ints("mi", mi);
}
int main(int argc, char **argv) {
    return run(argc, argv, [&](const std::vector<std::string> &t) {
        const std::string &op = t[0];
        if (op == "R") {
            if (t[1] == "tm") { for (int i = 1; i <= MAXT; ++i) { T[i].reset(); T2[i].reset(); } M.reset(new Mgr()); M2.reset(new Mgr()); NT2 = t.size() > 5 ? (int)num(t[5]) : 0; now2_ = 0; NT = num(t[2]); now_ = 0; SC = t.size() > 3 ? (int)num(t[3]) : 0; BASE = t.size() > 4 ? (long)num(t[4]) : 0;
                for (int i = 1; i <= NT2; ++i) { T2[i].reset(new Tm(igris::make_delegate(cb2), (int)i)); T2[i]->set_start(up(0)); T2[i]->set_interval(upd(1)); }
                for (int i = 1; i <= NT; ++i) { T[i].reset(new Tm(igris::make_delegate(cb), (int)i)); T[i]->set_start(up(0)); T[i]->set_interval(upd(1)); eff[i] = Eff(); }
                Ev e("Reset"); e.str("kind", "tm").i("nt", NT).i("nt2", NT2).i("scale", SC).i("base_hi", (long)(BASE >> 31)).i("base_lo", (long)(BASE & 0x7fffffff)); observe(e, now_); e.end(); }
            else { stimer_init(&ST, 0, 1); Ev e("Reset"); e.str("kind", "st").i("nt", 1); e.end(); }
            return; }
        if (op == "Plan") { M->plan(*T[num(t[1])], up(num(t[2])), upd(num(t[3]))); Ev e("Plan"); e.i("t", num(t[1])).i("st", num(t[2])).i("iv", num(t[3])); observe(e, now_); e.end(); }
        else if (op == "Replan") { M->plan(*T[num(t[1])]); Ev e("Replan"); e.i("t", num(t[1])); observe(e, now_); e.end(); }
        else if (op == "Unplan") { T[num(t[1])]->unplan(); Ev e("Unplan"); e.i("t", num(t[1])); observe(e, now_); e.end(); }
        else if (op == "SetCb") { int id = num(t[1]); Eff x; std::string k = t[2];
            if (k == "exec2") { x.kind = 3; } else if (k == "unplan") { x.kind = 1; x.t = num(t[3]); } else if (k == "plan") { x.kind = 2; x.t = num(t[3]); x.ds = num(t[4]); x.iv = num(t[5]); }
            eff[id] = x; Ev e("SetCb"); e.i("t", id).str("k", k.c_str()).i("k2", x.t).i("ds", x.ds).i("iv", x.iv); observe(e, now_); e.end(); }
        else if (op == "Plan2") { M2->plan(*T2[num(t[1])], up(num(t[2])), upd(num(t[3]))); Ev e("Plan2"); e.i("t", num(t[1])).i("st", num(t[2])).i("iv", num(t[3])); observe2(e, now2_); e.end(); }
        else if (op == "Unplan2") { T2[num(t[1])]->unplan(); Ev e("Unplan2"); e.i("t", num(t[1])); observe2(e, now2_); e.end(); }
        else if (op == "Exec2") { long tm = num(t[1]); now2_ = tm; fired2.clear(); M2->exec(up(tm)); Ev e("Exec2"); e.i("now", tm).ints("fired", fired2).i("from_callback", 0); observe2(e, tm); e.end(); }
        else if (op == "Exec") { now_ = num(t[1]); fired.clear(); M->exec(up(now_)); Ev e("Exec"); e.i("now", now_).ints("fired", fired); observe(e, now_); e.end(); }
        else if (op == "SInit") { stimer_init(&ST, num(t[1]), num(t[2])); Ev e("SInit"); e.i("st", num(t[1])).i("iv", num(t[2])).i("sstart", ST.start).i("sint", ST.interval).i("splaned", ST.planed); e.end(); }
        else if (op == "SPlan") { stimer_plan(&ST, num(t[1]), num(t[2])); Ev e("SPlan"); e.i("st", num(t[1])).i("iv", num(t[2])).i("sstart", ST.start).i("sint", ST.interval).i("splaned", ST.planed); e.end(); }
        else if (op == "SStart") { stimer_start(&ST, num(t[1])); Ev e("SStart"); e.i("st", num(t[1])).i("sstart", ST.start).i("sint", ST.interval).i("splaned", ST.planed); e.end(); }
        else if (op == "SSwift") { stimer_swift(&ST); Ev e("SSwift"); e.i("sstart", ST.start).i("sint", ST.interval).i("splaned", ST.planed); e.end(); }
        else if (op == "SCheck") { int r = stimer_check(&ST, num(t[1])); bool per = false; stimer_head c = ST; STIMER_PERIODIC(&c, num(t[1])) { per = true; }
            Ev e("SCheck"); e.i("now", num(t[1])).i("ret", r ? 1 : 0).i("periodic", per ? 1 : 0).i("pstart", c.start).i("fin", (long)stimer_finish(&ST)).i("sstart", ST.start).i("sint", ST.interval).i("splaned", ST.planed); e.end(); }
        else { fprintf(stderr, "bad op %s\n", op.c_str()); exit(3); }
    });
}
