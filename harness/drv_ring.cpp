// C03 driver: ring_head + user buffer, igris::ring<char>, igris::ring<int>.
#include "common/vlog.h"
#include <type_traits>
#include <igris/datastruct/ring.h>
#include <igris/container/ring.h>
#include <memory>
using namespace vlog;

static const int G = 4;                 // guard bytes on each side
struct CRing {
    ring_head r; unsigned char *blk = nullptr; unsigned size = 0;
    char *buf() { return (char *)blk + G; }
    void reset(unsigned s) { free(blk); size = s; blk = (unsigned char *)malloc(s + 2 * G); memset(blk, 0xA5, s + 2 * G); memset(blk + G, 0, s); ring_init(&r, s); }
};
static CRing C;
static std::unique_ptr<igris::ring<char>> XC;
static std::unique_ptr<igris::ring<int>> XI;
// an element type whose constructors can fail (kind "xt"): a write whose element construction throws must leave the ring as it was
static bool g_throw = false;
struct TE { unsigned char v; TE() : v(0) {} TE(int x) : v((unsigned char)x) { if (g_throw) throw 1; } TE(const TE &o) : v(o.v) { if (g_throw) throw 1; }
    TE &operator=(const TE &o) { v = o.v; return *this; } operator unsigned char() const { return v; } };
static std::unique_ptr<igris::ring<TE>> XT;
// an element type that also has an initializer_list constructor (kind "xl"): emplace(count, value) must reach the (count, value)
// constructor, as for std::vector / std::string elements; an element built through the list constructor reads back as 255 - value
#include <initializer_list>
struct LE { int n; unsigned char c; LE() : n(1), c(0) {} explicit LE(unsigned char ch) : n(1), c(ch) {} LE(int cnt, int ch) : n(cnt), c((unsigned char)ch) {} LE(std::initializer_list<int> l) : n(-(int)l.size()), c(l.size() ? (unsigned char)*(l.end() - 1) : 0) {}
    operator unsigned char() const { return n == 1 ? c : (unsigned char)(255 - c); } };
static std::unique_ptr<igris::ring<LE>> XL;
static std::string kind;

template <class R> static void obs_x(Ev &e, R &x) {
    e.i("avail", x.avail()).i("room", x.room()).i("empty", x.empty()).i("full", ring_full(&x.r))
     .i("head", x.head_index()).i("tail", x.tail_index()).i("size", x.size());
}
static void obs(Ev &e) {
    if (kind == "c") {
        e.i("avail", ring_avail(&C.r)).i("room", ring_room(&C.r)).i("empty", ring_empty(&C.r)).i("full", ring_full(&C.r))
         .i("head", C.r.head).i("tail", C.r.tail).i("size", C.r.size)
         .bytes("gl", C.blk, G).bytes("gr", C.blk + G + C.size, G).bytes("mem", C.blk + G, C.size);
    } else if (kind == "xc") obs_x(e, *XC); else if (kind == "xt") obs_x(e, *XT); else if (kind == "xl") obs_x(e, *XL); else obs_x(e, *XI);
}

template <class R, class T> static void xop(R &x, const std::vector<std::string> &t) {
    const std::string &op = t[0];
    if (op == "Putc") { int ret = 0; if (x.room() > 0) { if constexpr (std::is_same<T, LE>::value) x.emplace(1, (int)(unsigned char)num(t[1])); else x.push((T)(unsigned char)num(t[1])); ret = 1; } Ev e("Putc"); e.i("b", num(t[1])).i("ret", ret); obs(e); e.end(); }
    else if (op == "Getc") { int ret = -1; if (!x.empty()) { ret = (unsigned char)x.tail(); x.pop(); } Ev e("Getc"); e.i("ret", ret); obs(e); e.end(); }
    else if (op == "Write" || op == "MoveHead") {
        auto d = blist(t[1]); int n = 0;
        if (op == "MoveHead") { for (auto b : d) { x.head_place() = (T)b; x.move_head_one(); ++n; } }
        else for (auto b : d) { if (x.room() == 0) break; if constexpr (std::is_same<T, LE>::value) x.emplace(1, (int)b); else x.emplace((T)b); ++n; }
        Ev e(op.c_str()); e.bytes("s", d.data(), d.size()).i("ret", n); obs(e); e.end(); }
    else if (op == "Read" || op == "MoveTail") {
        long k = num(t[1]); std::vector<unsigned char> got;
        if (op == "MoveTail") { for (long j = 0; j < k; ++j) { got.push_back((unsigned char)x.tail()); x.move_tail_one(); } }
        else for (long j = 0; j < k && !x.empty(); ++j) { got.push_back((unsigned char)x.tail()); x.pop(); }
        Ev e(op.c_str()); e.i("k", k).i("kb", k).i("ret", (long)got.size()).bytes("data", got.data(), got.size()); obs(e); e.end(); }
    else if (op == "BWrite" || op == "BRead") {
        if constexpr (std::is_same<T, char>::value) {
            if (op == "BWrite") { auto d = blist(t[1]); char *src = (char *)malloc(d.size() + 1); memcpy(src, d.data(), d.size());
                size_t n = t.size() > 2 ? strtoul(t[2].c_str(), 0, 10) : d.size();
                size_t ret = x.write(src, n); free(src); Ev e("Write"); e.bytes("s", d.data(), d.size()).str("ns", t.size() > 2 ? t[2].c_str() : "").i("bulk", 1).i("ret", (long)ret); obs(e); e.end(); }
            else { unsigned long kk = strtoul(t[1].c_str(), 0, 10); long k = kk > (1ul << 20) ? (long)x.avail() : (long)kk;
                char *dst = (char *)malloc(k + 1); size_t ret = x.read(dst, (size_t)kk);
                Ev e("Read"); e.i("k", kk > 2147483647ul ? 2147483647l : (long)kk).str("ks", t[1].c_str()).i("kb", k).i("bulk", 1).i("ret", (long)ret).bytes("data", dst, ret > (size_t)k ? k : ret); obs(e); e.end(); free(dst); }
        } else { fprintf(stderr, "bulk read/write needs ring<char>\n"); exit(3); } }
    else if (op == "PutcFail") {     // push / emplace of an element whose construction throws
        int threw = 0; long b = num(t[1]);
        if constexpr (std::is_same<T, TE>::value) { if (x.room() > 0) { TE tmp((int)b); g_throw = true; try { if (b % 2) x.push(tmp); else x.emplace((int)b); } catch (int) { threw = 1; } g_throw = false; } else threw = 1; }
        Ev e("PutcFail"); e.i("b", b).i("threw", threw); obs(e); e.end(); }
    else if (op == "Clean") { x.reset(); Ev e("Clean"); obs(e); e.end(); }
    else if (op == "ClearPop") { x.clear(); Ev e("ClearPop"); obs(e); e.end(); }
    else if (op == "Last") { Ev e("Last"); e.i("ret", (unsigned char)x.last()); obs(e); e.end(); }
    else if (op == "TailV") { Ev e("TailV"); e.i("ret", (unsigned char)x.tail()); obs(e); e.end(); }
    else if (op == "GetLast") { auto v = x.get_last(num(t[1]), num(t[2]), num(t[3]) != 0); std::vector<unsigned char> b; for (auto y : v) b.push_back((unsigned char)y);
        Ev e("GetLast"); e.i("off", num(t[1])).i("cnt", num(t[2])).i("fe", num(t[3])).bytes("ret", b.data(), b.size()); obs(e); e.end(); }
    else if (op == "Fixup") { Ev e("Fixup"); e.i("i", num(t[1])).i("ret", x.fixup_index(num(t[1]))); obs(e); e.end(); }
    else if (op == "Distance") { Ev e("Distance"); e.i("a", num(t[1])).i("b", num(t[2])).i("ret", x.distance(num(t[1]), num(t[2]))); obs(e); e.end(); }
    else if (op == "Resize") { x.resize(num(t[1])); Ev e("Resize"); e.i("n", num(t[1])); obs(e); e.end(); }
    else { fprintf(stderr, "bad op %s\n", op.c_str()); exit(3); }
}

static void cop(const std::vector<std::string> &t) {
    const std::string &op = t[0];
    if (op == "Putc") { int ret = ring_putc(&C.r, C.buf(), (char)num(t[1])); Ev e("Putc"); e.i("b", num(t[1])).i("ret", ret); obs(e); e.end(); }
    else if (op == "Getc") { int ret = ring_getc(&C.r, C.buf()); Ev e("Getc"); e.i("ret", ret); obs(e); e.end(); }
    else if (op == "Write") { auto d = blist(t[1]); char *src = (char *)malloc(d.size() + 1); memcpy(src, d.data(), d.size());
        // optional bound above the data length ("write what fits", the data block holds at least room() bytes - the script guarantees it)
        unsigned long n = t.size() > 2 ? strtoul(t[2].c_str(), 0, 10) : d.size();
        int ret = ring_write(&C.r, C.buf(), src, (unsigned int)n); free(src); Ev e("Write"); e.bytes("s", d.data(), d.size()).str("ns", t.size() > 2 ? t[2].c_str() : "").i("ret", ret); obs(e); e.end(); }
    else if (op == "Read") { unsigned long kk = strtoul(t[1].c_str(), 0, 10);
        // a bound above 2^20 ("read everything"): the destination holds exactly what is queued; the bound is logged saturated to
        // 2^31-1 (k) and exactly as text (ks); kb = bytes of the destination block
        long k = kk > (1ul << 20) ? (long)ring_avail(&C.r) : (long)kk;
        unsigned char *dst = (unsigned char *)malloc(k + 2 * G); memset(dst, 0x5A, k + 2 * G);
        int ret = ring_read(&C.r, C.buf(), (char *)dst + G, (unsigned int)kk);
        Ev e("Read"); e.i("k", kk > 2147483647ul ? 2147483647l : (long)kk).str("ks", t[1].c_str()).i("kb", k).i("ret", ret).bytes("data", dst + G, ret < 0 ? 0 : (ret > k ? k : ret)).bytes("dgl", dst, G).bytes("dgr", dst + G + k, G).bytes("drest", dst + G + (ret < 0 ? 0 : (ret > k ? k : ret)), k - (ret < 0 ? 0 : (ret > k ? k : ret))); obs(e); e.end(); free(dst); }
    else if (op == "MoveHead") { auto d = blist(t[1]); for (size_t j = 0; j < d.size(); ++j) C.buf()[(C.r.head + j) % C.r.size] = (char)d[j];
        if (d.size() == 1) ring_move_head_one(&C.r); else ring_move_head(&C.r, d.size());
        Ev e("MoveHead"); e.bytes("s", d.data(), d.size()).i("ret", (long)d.size()); obs(e); e.end(); }
    else if (op == "MoveTail") { long k = num(t[1]); std::vector<unsigned char> got; for (long j = 0; j < k; ++j) got.push_back((unsigned char)C.buf()[(C.r.tail + j) % C.r.size]);
        if (k == 1) ring_move_tail_one(&C.r); else ring_move_tail(&C.r, k);
        Ev e("MoveTail"); e.i("k", k).i("ret", k).bytes("data", got.data(), got.size()); obs(e); e.end(); }
    else if (op == "Clean") { ring_clean(&C.r); Ev e("Clean"); obs(e); e.end(); }
    else if (op == "ClearPop") { while (!ring_empty(&C.r)) ring_move_tail_one(&C.r); Ev e("ClearPop"); obs(e); e.end(); }
    else if (op == "Fixup") { Ev e("Fixup"); e.i("i", num(t[1])).i("ret", ring_fixup_index(&C.r, num(t[1]))); obs(e); e.end(); }
    else if (op == "Iter") { std::vector<unsigned char> got; unsigned steps = 0; ring_for_each(n, &C.r) { got.push_back((unsigned char)C.buf()[n]); if (++steps > 4 * C.r.size) break; }
        Ev e("Iter"); e.bytes("data", got.data(), got.size()); obs(e); e.end(); }
    else { fprintf(stderr, "bad op %s\n", op.c_str()); exit(3); }
}

// Dup how : the ring is replaced by a copy of itself (copy construction, move construction, copy assignment or move assignment into a ring of
// another size); the original is destroyed.  Nothing observable may change.
template <class R> static void dup(std::unique_ptr<R> &P, const std::string &how) {
    std::unique_ptr<R> n;
    if (how == "copy") n.reset(new R(*P));
    else if (how == "move") n.reset(new R(std::move(*P)));
    else if (how == "assign") { n.reset(new R(1)); *n = *P; }
    else { n.reset(new R(3)); *n = std::move(*P); }
    P.swap(n); n.reset();
    Ev e("Dup"); e.str("how", how.c_str()); obs(e); e.end();
}
int main(int argc, char **argv) {
    return run(argc, argv, [&](const std::vector<std::string> &t) {
        if (t[0] == "Dup") { if (kind == "xc") dup(XC, t[1]); else if (kind == "xi") dup(XI, t[1]); else { fprintf(stderr, "Dup: bad kind\n"); exit(3); } return; }
        if (t[0] == "R") {
            kind = t[1]; unsigned s = num(t[2]);
            if (kind == "c") C.reset(s); else if (kind == "xc") XC.reset(new igris::ring<char>(s - 1)); else if (kind == "xt") XT.reset(new igris::ring<TE>(s - 1)); else if (kind == "xl") XL.reset(new igris::ring<LE>(s - 1)); else XI.reset(new igris::ring<int>(s - 1));
            Ev e("Reset"); e.str("kind", kind.c_str()).i("req", (long)s); obs(e); e.end(); return;
        }
        if (kind == "c") cop(t); else if (kind == "xc") xop<igris::ring<char>, char>(*XC, t); else if (kind == "xt") xop<igris::ring<TE>, TE>(*XT, t); else if (kind == "xl") xop<igris::ring<LE>, LE>(*XL, t); else xop<igris::ring<int>, int>(*XI, t);
    });
}
