// C07 driver: igris_*toa / igris_ato*, compat itoa family, debug printers.
#include "common/vlog.h"
#include "common/sstep.h"
#include <igris/util/numconvert.h>
#include <igris/dprint.h>
extern "C" { char *itoa(int, char *, unsigned short); char *utoa(unsigned, char *, unsigned short); char *ltoa(long, char *, unsigned short); char *ultoa(unsigned long, char *, unsigned short); }
extern "C" { void debug_printdec_uint8(uint8_t); void debug_printdec_uint16(uint16_t); void debug_printdec_uint32(uint32_t); void debug_printdec_uint64(uint64_t); }
using namespace vlog;
static std::vector<unsigned char> dbg, dbg_in;
// "Dprn": re-entrant sink - the application's debug_write consumes the span character by character and itself prints numbers through the
// debug printers after each character (a line-numbering log sink); both outputs must be what they are alone.
static int g_nest = 0;
static void inner_prints() { debug_printdec_uint64(18446744073709551557ULL); debug_printhex_uint32(0x89abcdefu); debug_printdec_signed_int(-7654321); debug_printbin_uint8(0xA5); }
extern "C" void debug_putchar(char c) { if (g_nest == 2) { dbg_in.push_back((unsigned char)c); return; } dbg.push_back((unsigned char)c); if (g_nest == 1) { g_nest = 2; dbg_in.clear(); inner_prints(); g_nest = 1; } }
extern "C" void debug_write(const char *c, int n) { for (int i = 0; i < n; ++i) debug_putchar(c[i]); }
// one rendering call selected by an index (the single-stepped region then holds little besides the call)
static const char *TOA[] = {"i8", "i16", "i32", "i64", "u8", "u16", "u32", "u64", "itoa", "utoa", "ltoa", "ultoa"};
static int toa_index(const std::string &fn) { for (unsigned i = 0; i < sizeof TOA / sizeof *TOA; ++i) if (fn == TOA[i]) return (int)i; return -1; }
static char *call_toa(int fi, unsigned long long v, char *buf, int base) {
    switch (fi) { case 0: return igris_i8toa((int8_t)v, buf, base); case 1: return igris_i16toa((int16_t)v, buf, base); case 2: return igris_i32toa((int32_t)v, buf, base); case 3: return igris_i64toa((int64_t)v, buf, base);
        case 4: return igris_u8toa((uint8_t)v, buf, base); case 5: return igris_u16toa((uint16_t)v, buf, base); case 6: return igris_u32toa((uint32_t)v, buf, base); case 7: return igris_u64toa((uint64_t)v, buf, base);
        case 8: return itoa((int)v, buf, base); case 9: return utoa((unsigned)v, buf, base); case 10: return ltoa((long)v, buf, base); default: return ultoa((unsigned long)v, buf, base); } }
struct ToaIn { int fi; unsigned long long v; char *buf; int base; char *r; bool ran; };
static void toa_inner(void *p) { ToaIn *x = (ToaIn *)p; x->r = call_toa(x->fi, x->v, x->buf, x->base); x->ran = true; }
static const int W = 96, G = 8;
int main(int argc, char **argv) {
    return run(argc, argv, [&](const std::vector<std::string> &t) {
        if (t[0] == "R") { Ev e("Reset"); e.end(); return; }
        const std::string &op = t[0]; const std::string &fn = t[1];
        if (op == "ToaI") {   // ToaI fn valLE base fn2 val2LE base2 points : the rendering fn(val, base) interrupted at an instruction boundary by a complete
            // rendering fn2(val2, base2) into another buffer (an interrupt handler that formats a number); about `points` evenly spread boundaries
            // ("k<n>": only boundary n).  Both renderings are logged as ordinary Toa events.
            const std::string &fn2 = t[4]; auto vb = blist(t[2]), vb2 = blist(t[5]); int base = num(t[3]), base2 = num(t[6]);
            unsigned long long v = 0, v2 = 0; for (size_t i = 0; i < vb.size(); ++i) v |= (unsigned long long)vb[i] << (8 * i); for (size_t i = 0; i < vb2.size(); ++i) v2 |= (unsigned long long)vb2[i] << (8 * i);
            int fi = toa_index(fn), fi2 = toa_index(fn2); if (fi < 0 || fi2 < 0) { fprintf(stderr, "bad ToaI fn\n"); exit(3); }
            unsigned char *blk = (unsigned char *)malloc(W + 2 * G), *blk2 = (unsigned char *)malloc(W + 2 * G); char *r = 0;
            unsigned keep = g_op_timeout; if (keep) { g_op_timeout = 60; watchdog(true); g_op_timeout = keep; }
            ToaIn in{fi2, v2, (char *)blk2 + G, base2, 0, false};
            auto prep = [&] { memset(blk, 0xA5, W + 2 * G); memset(blk2, 0xA5, W + 2 * G); in.r = 0; in.ran = false; };
            prep(); call_toa(fi, v, (char *)blk + G, base); toa_inner(&in);          // first use (lazy binding)
            prep(); long N = sstep::run(0, [&] { r = call_toa(fi, v, (char *)blk + G, base); }, toa_inner, &in);
            long points = t[7][0] == 'k' ? -atol(t[7].c_str() + 1) : num(t[7]); long step = points < 0 ? N + 1 : N <= points ? 1 : (N + points - 1) / points;
            std::vector<unsigned char> pw, pw2; long pr = -2, pr2 = -2; long first = 0; bool have = false;
            auto emit = [&] { std::string ln = "ToaI " + t[1] + " " + t[2] + " " + t[3] + " " + t[4] + " " + t[5] + " " + t[6] + " k" + std::to_string(first);
                Ev e("Toa"); e.str("fn", fn.c_str()).bytes("val", vb.data(), vb.size()).i("base", base).bytes("win", pw.data(), pw.size()).i("retoff", pr).i("nest", first).i("steps", N).str("nestline", ln.c_str()); e.end();
                Ev f("Toa"); f.str("fn", fn2.c_str()).bytes("val", vb2.data(), vb2.size()).i("base", base2).bytes("win", pw2.data(), pw2.size()).i("retoff", pr2).i("nest", first).str("role", "interrupting").str("nestline", ln.c_str()); f.end(); };
            for (long k = points < 0 ? -points : 1; k <= N; k += step) {
                prep(); r = 0; sstep::run(k, [&] { r = call_toa(fi, v, (char *)blk + G, base); }, toa_inner, &in);
                if (!in.ran) break;
                std::vector<unsigned char> w(blk, blk + W + 2 * G), w2(blk2, blk2 + W + 2 * G); long ro = r ? (long)(r - ((char *)blk + G)) : -1, ro2 = in.r ? (long)(in.r - ((char *)blk2 + G)) : -1;
                if (have && w == pw && w2 == pw2 && ro == pr && ro2 == pr2) continue;
                if (have) emit();
                have = true; first = k; pw = w; pw2 = w2; pr = ro; pr2 = ro2;
            }
            if (have) emit();
            free(blk); free(blk2); return; }
        if (op == "Toa") {   // Toa fn valLE base
            auto vb = blist(t[2]); int base = num(t[3]); unsigned long long v = 0; for (size_t i = 0; i < vb.size(); ++i) v |= (unsigned long long)vb[i] << (8 * i);
            unsigned char *blk = (unsigned char *)malloc(W + 2 * G); memset(blk, 0xA5, W + 2 * G); char *buf = (char *)blk + G; char *r = 0;
            if (fn == "i8") r = igris_i8toa((int8_t)v, buf, base); else if (fn == "i16") r = igris_i16toa((int16_t)v, buf, base); else if (fn == "i32") r = igris_i32toa((int32_t)v, buf, base); else if (fn == "i64") r = igris_i64toa((int64_t)v, buf, base);
            else if (fn == "u8") r = igris_u8toa((uint8_t)v, buf, base); else if (fn == "u16") r = igris_u16toa((uint16_t)v, buf, base); else if (fn == "u32") r = igris_u32toa((uint32_t)v, buf, base); else if (fn == "u64") r = igris_u64toa((uint64_t)v, buf, base);
            else if (fn == "itoa") r = itoa((int)v, buf, base); else if (fn == "utoa") r = utoa((unsigned)v, buf, base); else if (fn == "ltoa") r = ltoa((long)v, buf, base); else if (fn == "ultoa") r = ultoa((unsigned long)v, buf, base);
            else { fprintf(stderr, "bad fn\n"); exit(3); }
            Ev e("Toa"); e.str("fn", fn.c_str()).bytes("val", vb.data(), vb.size()).i("base", base).bytes("win", blk, W + 2 * G).i("retoff", r ? (long)(r - buf) : -1); e.end(); free(blk);
        } else if (op == "Ato") {   // Ato fn text base  (text gets a NUL terminator in an exactly sized block)
            auto tx = blist(t[2]); int base = num(t[3]); char *s = (char *)malloc(tx.size() + 1); memcpy(s, tx.data(), tx.size()); s[tx.size()] = 0; char *end = 0; unsigned long long v = 0; int w = 0;
            if (fn == "i8") { v = (uint8_t)igris_atoi8(s, base, &end); w = 1; } else if (fn == "i16") { v = (uint16_t)igris_atoi16(s, base, &end); w = 2; } else if (fn == "i32") { v = (uint32_t)igris_atoi32(s, base, &end); w = 4; } else if (fn == "i64") { v = (uint64_t)igris_atoi64(s, base, &end); w = 8; }
            else if (fn == "u8") { v = igris_atou8(s, base, &end); w = 1; } else if (fn == "u16") { v = igris_atou16(s, base, &end); w = 2; } else if (fn == "u32") { v = igris_atou32(s, base, &end); w = 4; } else if (fn == "u64") { v = igris_atou64(s, base, &end); w = 8; }
            else { fprintf(stderr, "bad fn\n"); exit(3); }
            Ev e("Ato"); e.str("fn", fn.c_str()).bytes("text", tx.data(), tx.size()).i("base", base).le("val", v, w).i("endoff", end ? (long)(end - s) : -99); e.end(); free(s);
        } else if (op == "Dpr" || op == "Dprn") {   // Dpr fn valLE
            g_nest = op == "Dprn" ? 1 : 0; dbg_in.clear();
            auto vb = blist(t[2]); unsigned long long v = 0; for (size_t i = 0; i < vb.size(); ++i) v |= (unsigned long long)vb[i] << (8 * i); dbg.clear();
            if (fn == "dec_i8") debug_printdec_signed_char((signed char)v); else if (fn == "dec_i16") debug_printdec_signed_short((short)v); else if (fn == "dec_i32") debug_printdec_signed_int((int)v);
            else if (fn == "dec_i64") debug_printdec_signed_long_long((long long)v); else if (fn == "dec_il") debug_printdec_signed_long((long)v);
            else if (fn == "dec_u8") debug_printdec_uint8((uint8_t)v); else if (fn == "dec_u16") debug_printdec_uint16((uint16_t)v); else if (fn == "dec_u32") debug_printdec_uint32((uint32_t)v); else if (fn == "dec_u64") debug_printdec_uint64((uint64_t)v);
            else if (fn == "dec_uc") debug_printdec_unsigned_char((unsigned char)v); else if (fn == "dec_ul") debug_printdec_unsigned_long((unsigned long)v);
            else if (fn == "hex_u8") debug_printhex_uint8((uint8_t)v); else if (fn == "hex_u16") debug_printhex_uint16((uint16_t)v); else if (fn == "hex_u32") debug_printhex_uint32((uint32_t)v); else if (fn == "hex_u64") debug_printhex_uint64((uint64_t)v);
            else if (fn == "bin_u8") debug_printbin_uint8((uint8_t)v); else if (fn == "bin_u16") debug_printbin_uint16((uint16_t)v); else if (fn == "bin_u32") debug_printbin_uint32((uint32_t)v); else if (fn == "bin_u64") debug_printbin_uint64((uint64_t)v);
            else if (fn == "dec_us") debug_printdec_unsigned_short((unsigned short)v); else if (fn == "dec_ui") debug_printdec_unsigned_int((unsigned int)v);
            // the C-type named hex printers (they print the object representation from its highest address down) and the pointer printer
            else if (fn == "hex_c") debug_printhex_char((char)v); else if (fn == "hex_uc") debug_printhex_unsigned_char((unsigned char)v); else if (fn == "hex_sc") debug_printhex_signed_char((signed char)v);
            else if (fn == "hex_us") debug_printhex_unsigned_short((unsigned short)v); else if (fn == "hex_ss") debug_printhex_signed_short((short)v);
            else if (fn == "hex_ui") debug_printhex_unsigned_int((unsigned int)v); else if (fn == "hex_si") debug_printhex_signed_int((int)v);
            else if (fn == "hex_ul") debug_printhex_unsigned_long((unsigned long)v); else if (fn == "hex_sl") debug_printhex_signed_long((long)v);
            else if (fn == "hex_ull") debug_printhex_unsigned_long_long((unsigned long long)v); else if (fn == "hex_sll") debug_printhex_signed_long_long((long long)v);
            else if (fn == "hex_ptr") debug_printhex_ptr((const void *)(uintptr_t)v);
            // memory images: an exactly sized heap copy of the bytes, printed in address order or reversed
            else if (fn == "mem_hex" || fn == "mem_hexr" || fn == "mem_bin" || fn == "mem_binr") { unsigned char *m = (unsigned char *)malloc(vb.size() ? vb.size() : 1); memcpy(m, vb.data(), vb.size());
                if (fn == "mem_hex") debug_writehex(m, (uint16_t)vb.size()); else if (fn == "mem_hexr") debug_writehex_reversed(m, (uint16_t)vb.size()); else if (fn == "mem_bin") debug_writebin(m, (uint16_t)vb.size()); else debug_writebin_reversed(m, (uint16_t)vb.size()); free(m); }
            else { fprintf(stderr, "bad fn\n"); exit(3); }
            int nested = g_nest; g_nest = 0;
            Ev e("Dpr"); e.str("fn", fn.c_str()).bytes("val", vb.data(), vb.size()).bytes("out", dbg.data(), dbg.size()).i("nested", nested); e.end();
            if (nested && !dbg_in.empty()) {   // the inner prints of the last character, as ordinary events: split the sink by re-running them alone is not needed - they are logged as one event each
                std::vector<unsigned char> all = dbg_in; const char *fns[4] = {"dec_u64", "hex_u32", "dec_i32", "bin_u8"}; unsigned long long vals[4] = {18446744073709551557ULL, 0x89abcdefu, (unsigned)-7654321, 0xA5}; int wid[4] = {8, 4, 4, 1};
                // boundaries: run each inner print alone to learn its length (the lengths are fixed by the values)
                size_t off = 0; for (int k = 0; k < 4; ++k) { dbg.clear(); if (k == 0) debug_printdec_uint64(vals[0]); else if (k == 1) debug_printhex_uint32((uint32_t)vals[1]); else if (k == 2) debug_printdec_signed_int((int)vals[2]); else debug_printbin_uint8((uint8_t)vals[3]);
                    size_t len = dbg.size(); unsigned char vb2[8]; for (int j = 0; j < 8; ++j) vb2[j] = (unsigned char)(vals[k] >> (8 * j));
                    Ev e2("Dpr"); e2.str("fn", fns[k]).bytes("val", vb2, wid[k]).bytes("out", all.data() + (off < all.size() ? off : all.size()), off + len <= all.size() ? len : (off < all.size() ? all.size() - off : 0)).i("inner", 1); e2.end(); off += len; } }
        }
    });
}
