// C15 driver: C terminal automaton (vterm.c + readline.h + sline.h), its C++ twin, and the sline API itself.
#include "common/vlog.h"
#include <igris/defs/vt100.h>
#include <igris/shell/vterm.h>
#include <igris/container/sline.h>
using namespace vlog;
void xx_bind(std::vector<unsigned char> *, std::vector<std::vector<unsigned char>> *, std::vector<int> *, int *);
void xx_init(int cap, int depth); void xx_reinit(int cap, int depth); void xx_key(int c); int xx_len(); int xx_cursor();

static const int G = 8;
static std::string kind; static int cap, depth;
static struct vterm_automate V; static unsigned char *lb = nullptr, *hb = nullptr;
static std::vector<unsigned char> out; static std::vector<std::vector<unsigned char>> execs; static std::vector<int> nuls; static int sig;
static struct sline SL; static unsigned char *sb = nullptr;
static std::unique_ptr<igris::sline> XSL;

static void cw(void *, const char *d, unsigned int n) { out.insert(out.end(), (const unsigned char *)d, (const unsigned char *)d + n); }
static void ce(void *, const char *d, unsigned int n) { execs.push_back(std::vector<unsigned char>((const unsigned char *)d, (const unsigned char *)d + n)); nuls.push_back((unsigned char)d[n]); }
static void cs(void *, int) { ++sig; }
static std::string arr2(const std::vector<std::vector<unsigned char>> &v) { std::string s = "[";
    for (size_t i = 0; i < v.size(); ++i) { if (i) s += ","; s += "["; for (size_t j = 0; j < v[i].size(); ++j) { if (j) s += ","; s += std::to_string((unsigned)v[i][j]); } s += "]"; } return s + "]"; }
static void tail(Ev &e) {
    e.bytes("out", out.data(), out.size()).raw("exec", arr2(execs)).ints("nul", nuls.begin(), nuls.end()).i("sig", sig);
    if (kind == "c") e.i("len", V.rl.line.len).i("cursor", V.rl.line.cursor).bytes("gl", lb, G).bytes("gr", lb + G + cap, G).bytes("hgl", hb, G).bytes("hgr", hb + G + (size_t)cap * depth, G);
    else e.i("len", xx_len()).i("cursor", xx_cursor()).bytes("gl", "", 0).bytes("gr", "", 0).bytes("hgl", "", 0).bytes("hgr", "", 0);
}
static void sl_obs(Ev &e) {
    if (kind == "sl") { e.i("len", SL.len).i("cursor", SL.cursor).bytes("buf", sb + G, SL.len <= (unsigned)cap ? SL.len : cap).bytes("gl", sb, G).bytes("gr", sb + G + cap, G);
        // the read-only accessors; comparison strings: a terminated copy of the contents, and the same with one more character
        size_t n = SL.len <= (unsigned)cap ? SL.len : cap; std::string own((const char *)sb + G, n), other = own + "x";
        unsigned rs = sline_rightsize(&SL); e.i("rsize", rs).i("inright", sline_in_rightpos(&SL)).bytes("rpart", sline_rightpart(&SL), rs <= (unsigned)cap ? rs : 0)
         .i("eq_self", sline_equal(&SL, own.c_str())).i("eq_other", sline_equal(&SL, other.c_str())).i("avail", sline_avail(&SL)).i("empty", sline_empty(&SL)).i("size", sline_size(&SL)); }
    else { e.i("len", XSL->current_size()).i("cursor", XSL->current_size() - XSL->rightsize()).bytes("buf", XSL->data(), XSL->current_size()).bytes("gl", "", 0).bytes("gr", "", 0);
        size_t n = XSL->current_size(); std::string own(XSL->data(), n), other = own + "x"; size_t rs = XSL->rightsize();
        e.i("rsize", (long)rs).i("inright", XSL->in_rightpos() ? 1 : 0).bytes("rpart", XSL->rightpart(), rs <= n ? rs : 0).i("eq_self", XSL->equal(own.c_str()) ? 1 : 0).i("eq_other", XSL->equal(other.c_str()) ? 1 : 0); }
}
int main(int argc, char **argv) {
    xx_bind(&out, &execs, &nuls, &sig);
    return run(argc, argv, [&](const std::vector<std::string> &t) {
        const std::string &op = t[0];
        if (op == "R") { kind = t[1]; cap = num(t[2]); depth = t.size() > 3 ? num(t[3]) : 1; out.clear(); execs.clear(); nuls.clear(); sig = 0;
            if ((size_t)cap * depth > ((size_t)1 << 28)) { unsigned keep = g_op_timeout; if (keep) { g_op_timeout = 900; watchdog(true); g_op_timeout = keep; } }   // gigabytes to allocate and clear
            if (kind == "c") { free(lb); free(hb); lb = (unsigned char *)malloc(cap + 2 * G); hb = (unsigned char *)malloc((size_t)cap * depth + 2 * G); memset(lb, 0xA5, cap + 2 * G); memset(hb, 0xA5, (size_t)cap * depth + 2 * G);
                vterm_automate_init(&V, (char *)lb + G, cap, (char *)hb + G, depth); vterm_set_write_callback(&V, cw, 0); vterm_set_execute_callback(&V, ce, 0); vterm_set_signal_callback(&V, cs, 0);
                vterm_automate_init_step(&V); Ev e("Reset"); e.str("kind", "c").i("cap", cap).i("depth", depth); tail(e); e.end(); }
            else if (kind == "xx") { xx_init(cap, depth); Ev e("Reset"); e.str("kind", "xx").i("cap", cap).i("depth", depth); tail(e); e.end(); }
            else if (kind == "sl") { free(sb); sb = (unsigned char *)malloc(cap + 2 * G); memset(sb, 0xA5, cap + 2 * G); sline_init(&SL, (char *)sb + G, cap); Ev e("Reset"); e.str("kind", "sl").i("cap", cap).i("depth", 0); sl_obs(e); e.end(); }
            else { XSL.reset(new igris::sline(cap)); Ev e("Reset"); e.str("kind", "slxx").i("cap", cap).i("depth", 0); sl_obs(e); e.end(); }
            return; }
        if (op == "Reinit") {   // Reinit cap depth : the terminal object of this execution is initialised again with another line capacity / history depth
            cap = num(t[1]); depth = num(t[2]); out.clear(); execs.clear(); nuls.clear(); sig = 0;
            if (kind == "c") { free(lb); free(hb); lb = (unsigned char *)malloc(cap + 2 * G); hb = (unsigned char *)malloc((size_t)cap * depth + 2 * G); memset(lb, 0xA5, cap + 2 * G); memset(hb, 0xA5, (size_t)cap * depth + 2 * G);
                vterm_automate_init(&V, (char *)lb + G, cap, (char *)hb + G, depth); vterm_set_write_callback(&V, cw, 0); vterm_set_execute_callback(&V, ce, 0); vterm_set_signal_callback(&V, cs, 0);
                vterm_automate_init_step(&V); }
            else if (kind == "xx") xx_reinit(cap, depth);
            else { fprintf(stderr, "Reinit: bad kind\n"); exit(3); }
            Ev e("Reinit"); e.str("kind", kind.c_str()).i("cap", cap).i("depth", depth); tail(e); e.end(); return; }
        if (op == "Key") { int c = num(t[1]); out.clear(); execs.clear(); nuls.clear(); sig = 0;
            if (kind == "c") vterm_automate_newdata(&V, (int16_t)c); else xx_key(c);
            Ev e("Key"); e.i("k", c); tail(e); e.end(); return; }
        if (op == "VtLeft") { long n = num(t[1]); unsigned char w[16 + 2 * G]; memset(w, 0xA5, sizeof w); int ret = vt100_left((char *)w + G, (int)n); size_t len = strnlen((char *)w + G, 16);
            Ev e("VtLeft"); e.i("n", n).i("ret", ret).bytes("out", w + G, len < 16 ? len + 1 : 16).bytes("gl", w, G).bytes("gr", w + G + 16, G); e.end(); return; }
        // sline API
        bool x = kind == "slxx"; long ret = 0; Ev e(op.c_str());
        if (op == "SlPut") { int c = num(t[1]); if (x) { size_t b = XSL->current_size(); XSL->newdata((char)c); ret = XSL->current_size() - b; } else ret = sline_putchar(&SL, (char)c); e.i("c", c); }
        else if (op == "SlNew") { auto d = blist(t[1]); char *src = (char *)malloc(d.size() + 1); memcpy(src, d.data(), d.size());
            if (x) { size_t b = XSL->current_size(); XSL->newdata(src, d.size()); ret = XSL->current_size() - b; } else ret = sline_newdata(&SL, src, d.size()); free(src); e.bytes("s", d.data(), d.size()); }
        else if (op == "SlBs") { int n = num(t[1]); ret = x ? XSL->backspace(n) : sline_backspace(&SL, n); e.i("n", n); }
        else if (op == "SlDel") { int n = num(t[1]); ret = x ? XSL->del(n) : sline_delete(&SL, n); e.i("n", n); }
        else if (op == "SlLeft") ret = x ? XSL->left() : sline_left(&SL);
        else if (op == "SlRight") ret = x ? XSL->right() : sline_right(&SL);
        else if (op == "SlGet") { const char *p = x ? XSL->getline() : sline_getline(&SL); size_t n = x ? XSL->current_size() : SL.len; ret = (unsigned char)p[n]; }
        else if (op == "SlReset") { if (x) XSL->reset(); else sline_reset(&SL); }
        else { fprintf(stderr, "bad op %s\n", op.c_str()); exit(3); }
        e.i("ret", ret); sl_obs(e); e.end();
    });
}
