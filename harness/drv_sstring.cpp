// C14 driver: igris::static_string<N> (igris/container/static_string.h, or with -DUSE_STD_PORTABLE the twin in std_portable.h).
//   R <N>   then   CtorDefault | CtorCStr bytes | CtorBuf bytes n | PushBack b | PlusEq b | Clear | Copy | Destroy
// The object lives in an exactly sized heap block (ASan sees any write outside it) between two 16-byte guard areas
// of a second, larger buffer when guards are in use.
#include "common/vlog.h"
#ifdef USE_STD_PORTABLE
#include <igris/container/std_portable.h>
#define FLAVOUR "std_portable"
#else
#include <igris/container/static_string.h>
#define FLAVOUR "igris"
#endif
using namespace vlog;
struct Any { virtual void op(const std::vector<std::string> &) = 0; virtual ~Any() {} };
template <size_t N> struct Runner : Any {
    typedef igris::static_string<N> S;
    unsigned char *mem = 0; bool exists = false;
    S &o() { return *reinterpret_cast<S *>(mem + 16); }
    void place() { free(mem); mem = (unsigned char *)malloc(sizeof(S) + 32); memset(mem, 0xA5, sizeof(S) + 32); }
    ~Runner() { if (exists) o().~S(); free(mem); }
    void observe(Ev &e, S &x, unsigned char *m) {
        size_t n = x.size(); std::vector<long long> rng; for (auto it = x.begin(); it != x.end(); ++it) rng.push_back((unsigned char)*it);
        const char *cs = x.c_str(); size_t cl = strlen(cs);
        e.i("size", (long)n).i("room", (long)x.room()).ints("range", rng).bytes("cstr", cs, cl).bytes("gl", m, 16).bytes("gr", m + 16 + sizeof(S), 16);
    }
    void op(const std::vector<std::string> &t) override {
        const std::string &name = t[0]; std::vector<unsigned char> src; long n = 0;
        if (name == "CtorDefault") { place(); new (&o()) S(); exists = true; }
        else if (name == "CtorCStr") { src = blist(t[1]); char *z = (char *)malloc(src.size() + 1); memcpy(z, src.data(), src.size()); z[src.size()] = 0; place(); new (&o()) S(z); free(z); exists = true; }
        else if (name == "CtorBuf") {
#ifdef USE_STD_PORTABLE
            src = blist(t[1]); n = num(t[2]); char *z = (char *)malloc(src.size() ? src.size() : 1); memcpy(z, src.data(), src.size()); place(); new (&o()) S(z, (size_t)n); free(z); exists = true;
#else
            fprintf(stderr, "no (pointer, length) constructor in this flavour\n"); exit(3);
#endif
        }
        else if (name == "PushBack") { n = num(t[1]); o().push_back((char)n); }
        else if (name == "PlusEq") {
#ifdef USE_STD_PORTABLE
            n = num(t[1]); o() += (char)n;
#else
            fprintf(stderr, "no operator+= in this flavour\n"); exit(3);
#endif
        }
        else if (name == "Clear") {
#ifdef USE_STD_PORTABLE
            o().clear();
#else
            fprintf(stderr, "no clear in this flavour\n"); exit(3);
#endif
        }
        else if (name == "Copy") { unsigned char *m2 = (unsigned char *)malloc(sizeof(S) + 32); memset(m2, 0xA5, sizeof(S) + 32); S *c2 = new (m2 + 16) S(o());
            Ev e("S"); e.str("op", "Copy").ints("src", std::vector<long long>()).i("n", 0); observe(e, *c2, m2); e.end(); c2->~S(); free(m2); return; }
        else if (name == "Destroy") { o().~S(); exists = false; Ev e("S"); e.str("op", "Destroy").ints("src", std::vector<long long>()).i("n", 0).i("size", 0).i("room", 0).ints("range", std::vector<long long>()).bytes("cstr", "", 0).bytes("gl", mem, 16).bytes("gr", mem + 16 + sizeof(S), 16); e.end(); return; }
        else { fprintf(stderr, "bad op %s\n", name.c_str()); exit(3); }
        Ev e("S"); e.str("op", name.c_str()).ints("src", std::vector<long long>(src.begin(), src.end())).i("n", n); observe(e, o(), mem); e.end();
    }
};
static Any *make(int N) { switch (N) { case 1: return new Runner<1>(); case 2: return new Runner<2>(); case 3: return new Runner<3>(); case 4: return new Runner<4>(); case 7: return new Runner<7>(); case 8: return new Runner<8>(); case 255: return new Runner<255>(); case 65535: return new Runner<65535>(); case 65536: return new Runner<65536>(); case 65537: return new Runner<65537>(); case 256: return new Runner<256>(); case 300: return new Runner<300>(); default: return new Runner<16>(); } }
int main(int argc, char **argv) {
    Any *cur = 0;
    return run(argc, argv, [&](const std::vector<std::string> &t) {
        if (t[0] == "R") { delete cur; int N = (int)num(t[1]); cur = make(N); Ev e("Reset"); e.i("cap", N).str("flavour", FLAVOUR); e.end(); return; }
        cur->op(t);
    });
}
