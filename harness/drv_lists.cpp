// C01 driver: C dlist (igris/datastruct/dlist.h) and C++ dlist (igris/container/dlist.h).
// Applies list operations to real objects living in an arena and logs, after
// every operation, what the public API and the raw links show.
#include "common/vlog.h"
#include <igris/datastruct/dlist.h>
#include <igris/container/dlist.h>
#include <new>
using namespace vlog;

static const int MAXC = 2048;
static int NH, NN, NC;
static std::string flavor;
static bool alive[MAXC];          // bookkeeping of what this driver did (no oracle)

// ---------------- C flavour ----------------
struct CItem { int key; struct dlist_head lnk; struct dlist_head lnk2; };    // lnk2: every item also sits in a second list through a second link field
static struct dlist_head c_all;
static struct dlist_head c_heads[MAXC];
static CItem c_items[MAXC];
static struct dlist_head *cptr(int c) { return c < NH ? &c_heads[c] : &c_items[c - NH].lnk; }
static int cidx(struct dlist_head *p) {
    for (int c = 0; c < NC; ++c) if (cptr(c) == p) return c;
    return -1;
}
static int c_less(CItem *a, CItem *b) { return a->key < b->key; }

// ---------------- C++ flavour ----------------
#ifdef HUGE_ITEMS
// items whose link fields lie more than 4 GiB behind the start of the object (a frame buffer with a trailing header): the member offsets do
// not fit 32 bits.  The objects live in lazily committed address space and are never value-initialised (that would fill the padding).
struct XItem { int id; char pad[0x100000000ULL + 24]; igris::dlist_node lnk; char pad2[0x80000000ULL + 8]; igris::dlist_node lnk2; };
#define NEW_XITEM(p) new (p) XItem
#else
struct XItem { int id; igris::dlist_node lnk; igris::dlist_node lnk2; };   // lnk2: membership in a second list (all live items, by id) at the same time
#define NEW_XITEM(p) new (p) XItem()
#endif
typedef igris::dlist<XItem, &XItem::lnk> XList;
typedef igris::dlist<XItem, &XItem::lnk2> XList2;
alignas(16) static unsigned char x_all_mem[sizeof(XList2)]; static bool x_all_live = false;
static XList2 &xall() { return *reinterpret_cast<XList2 *>(x_all_mem); }
alignas(16) static unsigned char x_heads_mem[MAXC][sizeof(XList)];
#ifdef HUGE_ITEMS
#include <sys/mman.h>
static unsigned char (*x_items_mem)[sizeof(XItem)] = nullptr;
#else
alignas(16) static unsigned char x_items_mem[MAXC][sizeof(XItem)];
#endif
static XList &xl(int h) { return *reinterpret_cast<XList *>(x_heads_mem[h]); }
static XItem &xi(int c) { return *reinterpret_cast<XItem *>(x_items_mem[c - NH]); }
static igris::dlist_node *xnode(int c) { return c < NH ? xl(c).end().current : &xi(c).lnk; }
static int xidx_node(const igris::dlist_node *p) {
    for (int c = NH; c < NC; ++c) if (&xi(c).lnk == p) return c;
    for (int h = 0; h < NH; ++h) if (xl(h).end().current == p) return h;
    return -1;
}
static void xall_insert(int c);
static int xidx_item(const XItem *p) {
    for (int c = NH; c < NC; ++c) if (&xi(c) == p) return c;
    // an iterator standing on a list head yields the pseudo item around that head
    for (int h = 0; h < NH; ++h) if ((const void *)&p->lnk == (const void *)xl(h).end().current) return h;
    return -1;
}

static std::string arr2(const std::vector<std::vector<long long>> &v) {
    std::string s = "[";
    for (size_t i = 0; i < v.size(); ++i) { if (i) s += ","; s += "["; for (size_t j = 0; j < v[i].size(); ++j) { if (j) s += ","; s += std::to_string(v[i][j]); } s += "]"; }
    return s + "]";
}

static void xall_insert(int c) {   // keep the second list ordered by id
    for (auto it = xall().begin(); it != xall().end(); ++it) if (it->id > xi(c).id) { xall().move_prev(xi(c), *it); return; }
    xall().move_back(xi(c)); }
static void observe(Ev &e) {
    const int LIM = 4 * NC + 4;
    std::vector<long long> nx(NC), pv(NC), linked(NC), size(NH), rsize(NH), empty(NH), correct(NH), cyc(NH, 0);
    std::vector<std::vector<long long>> fwd(NH), bwd(NH), inm(NH), efwd(NH), ebwd(NH), esafe(NH);
    std::vector<long long> first(NH, -1), last(NH, -1), chk(NH, -1), chkr(NH, -1), first2(NH, -1), last2(NH, -1);   // entry accessors, bounded cycle checks
    for (int c = 0; c < NC; ++c) {
        if (!alive[c]) { nx[c] = pv[c] = -2; linked[c] = -1; continue; }
        if (flavor == "c") { nx[c] = cidx(cptr(c)->next); pv[c] = cidx(cptr(c)->prev); linked[c] = dlist_is_linked(cptr(c)) ? 1 : 0; }
        else if (c < NH) { nx[c] = xidx_node(xl(c).first_node()); pv[c] = xidx_node(xl(c).last_node()); linked[c] = xl(c).empty() ? 0 : 1; }
        else { nx[c] = xidx_node(xi(c).lnk.next_node()); pv[c] = xidx_node(xi(c).lnk.prev_node()); linked[c] = xi(c).lnk.is_linked() ? 1 : 0; }
    }
    // traversals are only attempted when the raw links stay inside the arena
    // (a link to an unknown address is already visible in nx/pv)
    bool sane = true;
    for (int c = 0; c < NC; ++c) if (alive[c] && (nx[c] < 0 || pv[c] < 0 || !alive[nx[c]] || !alive[pv[c]])) sane = false;
    for (int h = 0; h < NH; ++h) {
        if (!alive[h] || !sane) { size[h] = rsize[h] = empty[h] = correct[h] = -1; continue; }
        int steps = 0;
        if (flavor == "c") {
            struct dlist_head *it;
            dlist_for_each(it, cptr(h)) { fwd[h].push_back(cidx(it)); if (++steps > LIM) { cyc[h] = 1; break; } }
            steps = 0;
            dlist_for_each_reverse(it, cptr(h)) { bwd[h].push_back(cidx(it)); if (++steps > LIM) { cyc[h] = 1; break; } }
            if (!cyc[h]) {
                size[h] = dlist_size(cptr(h)); rsize[h] = dlist_size_reversed(cptr(h)); empty[h] = dlist_empty(cptr(h)) ? 1 : 0;
                correct[h] = dlist_is_correct(cptr(h)) ? 1 : 0;
                // the entry-based macros and helpers users iterate with: for_each_entry (forward, reverse, safe), first/last entry, dlist_check
                { CItem *pos, *nx2; int st2 = 0;
                  dlist_for_each_entry(pos, cptr(h), lnk) { efwd[h].push_back(pos->key); if (++st2 > LIM) break; } st2 = 0;
                  dlist_for_each_entry_reverse(pos, cptr(h), lnk) { ebwd[h].push_back(pos->key); if (++st2 > LIM) break; } st2 = 0;
                  dlist_for_each_entry_safe(pos, nx2, cptr(h), lnk) { esafe[h].push_back(pos->key); if (++st2 > LIM) break; }
                  if (!dlist_empty(cptr(h))) { first[h] = dlist_first_entry(cptr(h), CItem, lnk)->key; last[h] = dlist_last_entry(cptr(h), CItem, lnk)->key; }
                  chk[h] = dlist_check(cptr(h), LIM); chkr[h] = dlist_check_reversed(cptr(h), LIM);
                  // the entry macro with compound link expressions (a conditional, pointer arithmetic): walk forward and backward with one loop body
                  if (!dlist_empty(cptr(h))) { int bw = 0; struct dlist_head *hh = cptr(h);
                      first2[h] = dlist_entry(bw ? hh->prev : hh->next, CItem, lnk)->key; bw = 1; last2[h] = dlist_entry(bw ? hh->prev : hh->next, CItem, lnk)->key;
                      struct dlist_head *arr[2] = {hh->prev, hh->next}; struct dlist_head **ap = arr; int one = 1; if (dlist_entry(*(ap + one), CItem, lnk)->key != first2[h]) first2[h] = -6; } }
                for (int c = NH; c < NC; ++c) if (alive[c]) inm[h].push_back(dlist_in(cptr(c), cptr(h)) ? c : -1);
            } else size[h] = rsize[h] = empty[h] = correct[h] = -3;
        } else {
            XList &L = xl(h);
            for (auto it = L.begin(); it != L.end(); ++it) { fwd[h].push_back(xidx_item(&*it)); if (++steps > LIM) { cyc[h] = 1; break; } }
            steps = 0;
            for (auto it = L.rbegin(); it != L.rend(); ++it) { bwd[h].push_back(xidx_item(&*it)); if (++steps > LIM) { cyc[h] = 1; break; } }
            if (!cyc[h]) { size[h] = L.size(); rsize[h] = L.size(); empty[h] = L.empty() ? 1 : 0; correct[h] = L.is_correct() ? 1 : 0;
                // the remaining public accessors: decrementing iterators (from end() / rend()), post-increment, front/back/first, circular sizes
                int st2 = 0;
                for (auto it = L.end(); it != L.begin();) { --it; ebwd[h].push_back(xidx_item(&*it)); if (++st2 > LIM) break; } st2 = 0;
                for (auto it = L.rend(); it != L.rbegin();) { --it; efwd[h].push_back(xidx_item(&*it)); if (++st2 > LIM) break; } st2 = 0;
                for (auto it = L.begin(); it != L.end();) { auto cur = it++; esafe[h].push_back(xidx_item(&*cur)); if (++st2 > LIM) break; }
                if (!L.empty()) { first[h] = xidx_item(&L.front()); last[h] = xidx_item(&L.back()); if (&L.first() != &L.front()) first[h] = -5; first2[h] = first[h]; last2[h] = last[h]; }
                chk[h] = (long)xnode(h)->circular_size() - 1; chkr[h] = (long)xnode(h)->reverse_circular_size() - 1; }
            else size[h] = rsize[h] = empty[h] = correct[h] = -3;
        }
    }
    // the second list every item is a member of (through its second link field), read through the entry accessors
    std::vector<long long> all2;
    if (flavor == "c") { CItem *pos; int st3 = 0; dlist_for_each_entry(pos, &c_all, lnk2) { all2.push_back(pos->key); if (++st3 > LIM) break; } }
    else if (x_all_live) { int st3 = 0; for (auto it = xall().begin(); it != xall().end(); ++it) { all2.push_back(xidx_item(&*it)); if (++st3 > LIM) break; } }
    e.ints("all2", all2);
    e.ints("nx", nx).ints("pv", pv).ints("linked", linked).raw("fwd", arr2(fwd)).raw("bwd", arr2(bwd))
     .ints("size", size).ints("rsize", rsize).ints("empty", empty).ints("correct", correct).raw("inm", arr2(inm))
     .raw("efwd", arr2(efwd)).raw("ebwd", arr2(ebwd)).raw("esafe", arr2(esafe)).ints("first", first).ints("last", last).ints("first2", first2).ints("last2", last2).ints("chk", chk).ints("chkr", chkr);
}

static int any_live_head() { for (int h = 0; h < NH; ++h) if (alive[h]) return h; return -1; }
static long opcount = 0;

static void op_c(const std::vector<std::string> &t) {
    const std::string &op = t[0]; int a = num(t[1]); int b = t.size() > 2 ? num(t[2]) : -1;
    if (op == "CInit") { dlist_init(cptr(a)); alive[a] = true; }
    else if (op == "AddNext") { dlist_add_next(cptr(a), cptr(b)); alive[a] = true; }
    else if (op == "AddPrev") { dlist_add_prev(cptr(a), cptr(b)); alive[a] = true; }
    else if (op == "Del") { dlist_del(cptr(a)); alive[a] = false; }
    else if (op == "DelInit") { dlist_del_init(cptr(a)); }
    else if (op == "Move") { dlist_move(cptr(a), cptr(b)); }
    else if (op == "MoveTail") { dlist_move_tail(cptr(a), cptr(b)); }
    else if (op == "AddSorted") { CItem *added = &c_items[a - NH]; struct dlist_head *head = cptr(b); dlist_move_sorted(added, head, lnk, c_less); alive[a] = true; }
    else if (op == "InsertInstead") { dlist_insert_instead(cptr(a), cptr(b)); alive[a] = true; }
    else { fprintf(stderr, "bad c op %s\n", op.c_str()); exit(3); }
    Ev e(op.c_str()); e.i("a", a).i("b", b); observe(e); e.end();
}

static void op_x(const std::vector<std::string> &t) {
    const std::string &op = t[0]; int a = num(t[1]); int b = t.size() > 2 ? num(t[2]) : -1;
    ++opcount;
    if (op == "MoveNext" || op == "MovePrev") {
        bool next = op == "MoveNext"; int h = any_live_head();
        if (b < NH) {          // anchor is a list head
            if (opcount % 2) { if (next) xl(b).move_front(xi(a)); else xl(b).move_back(xi(a)); }
            else { if (next) xl(b).move_next(xi(a), xnode(b)); else xl(b).move_prev(xi(a), xnode(b)); }
        } else if (h >= 0 && opcount % 3 == 0) { if (next) xl(h).move_next(xi(a), xi(b)); else xl(h).move_prev(xi(a), xi(b)); }
        else if (h >= 0 && opcount % 3 == 1) { if (next) xl(h).dlist_base::move_next(&xi(a).lnk, &xi(b).lnk); else xl(h).dlist_base::move_prev(&xi(a).lnk, &xi(b).lnk); }
        else { if (next) xi(a).lnk.move_next_than(&xi(b).lnk); else xi(a).lnk.move_prev_than(&xi(b).lnk); }
    }
    else if (op == "Unlink") { int h = any_live_head(); if (h >= 0 && opcount % 2) xl(h).pop(xi(a)); else xi(a).lnk.unlink(); if (opcount % 5 == 0) xi(a).lnk.unlink(); }
    else if (op == "PopFront") xl(a).pop_front();
    else if (op == "PopBack") xl(a).pop_back();
    else if (op == "Clear") xl(a).clear();
    else if (op == "Splice") xl(a).unlink_and_move_all_nodes_from_other(std::move(xl(b)));
    else if (op == "DestroyNode") { xi(a).~XItem(); alive[a] = false; }
    else if (op == "DestroyList") { xl(a).~XList(); alive[a] = false; }
    else if (op == "Create") { if (a < NH) new (x_heads_mem[a]) XList(); else { NEW_XITEM(x_items_mem[a - NH]); xi(a).id = a; xall_insert(a); } alive[a] = true; }
    else { fprintf(stderr, "bad cxx op %s\n", op.c_str()); exit(3); }
    Ev e(op.c_str()); e.i("a", a).i("b", b); observe(e); e.end();
}

int main(int argc, char **argv) {
#ifdef HUGE_ITEMS
    x_items_mem = (unsigned char (*)[sizeof(XItem)])mmap(nullptr, (size_t)HUGE_ITEMS * sizeof(XItem), PROT_READ | PROT_WRITE, MAP_PRIVATE | MAP_ANONYMOUS | MAP_NORESERVE, -1, 0);
    if ((void *)x_items_mem == MAP_FAILED) { perror("mmap"); return 3; }
#endif
    return run(argc, argv, [&](const std::vector<std::string> &t) {
        if (t[0] == "R") {
            if (flavor == "cxx") {   // tear down the previous execution
                for (int c = NH; c < NC; ++c) if (alive[c]) { xi(c).lnk.unlink(); xi(c).lnk2.unlink(); }
                for (int c = 0; c < NC; ++c) alive[c] = false;
            }
            if (x_all_live) { xall().~XList2(); x_all_live = false; }
            flavor = t[1]; NH = num(t[2]); NN = num(t[3]); NC = NH + NN;
            if (flavor == "c") dlist_init(&c_all); else { new (x_all_mem) XList2(); x_all_live = true; }
            for (int c = 0; c < NC; ++c) {
                alive[c] = true;
                if (flavor == "c") { dlist_init(cptr(c)); if (c >= NH) { c_items[c - NH].key = c; dlist_init(&c_items[c - NH].lnk2); dlist_add_tail(&c_items[c - NH].lnk2, &c_all); } }
                else if (c < NH) new (x_heads_mem[c]) XList(); else { NEW_XITEM(x_items_mem[c - NH]); xi(c).id = c; xall_insert(c); }
            }
            Ev e("Reset"); e.str("flavor", flavor.c_str()).i("nh", NH).i("nn", NN); observe(e); e.end(); return;
        }
        if (flavor == "c") op_c(t); else op_x(t);
    });
}
