// C09 driver: both serialization frameworks (A: stdtypes.h/archive.h, B: serializer.h/serialize_archive.h)
// over a family of concrete C++ types.  For every type the driver derives the descriptor and
// prints values as trees of byte tuples; it performs no comparison.
//   Ser <type-index> <seed>
#include "common/vlog.h"
#include <igris/serialize/stdtypes.h>
#include <igris/serialize/serialize_archive.h>
#include <map>
#include <tuple>
#include <string>
#include <vector>
#include <random>
using namespace vlog;

// ---- user types -----------------------------------------------------------------------
struct PtA { int32_t x; uint8_t tag; double w;                       // framework A: reflect
    template <class R> void reflect(R &r) { r & x; r & tag; r & w; } };
struct NestA { std::string name; std::vector<int16_t> vals; PtA p;
    template <class R> void reflect(R &r) { r & name; r & vals; r & p; } };
struct PtB { int32_t x = 0; uint8_t tag = 0; double w = 0;             // framework B: serialize_reflect
    template <class Ar> void serialize_reflect(Ar &a) { a & x; a & tag; a & w; }
    template <class Ar> void serialize_reflect(Ar &a) const { a & x; a & tag; a & w; } };
struct NestB { std::vector<int16_t> vals; PtB p; uint16_t n = 0;
    template <class Ar> void serialize_reflect(Ar &a) { a & vals; a & p; a & n; }
    template <class Ar> void serialize_reflect(Ar &a) const { a & vals; a & p; a & n; } };

// ---- descriptor / value printing / generation -----------------------------------------------
static std::mt19937 rng;
static unsigned rnd(unsigned n) { return n ? rng() % n : 0; }
static size_t rlen() { static const size_t L[] = {0, 0, 1, 1, 2, 3, 5, 17}; return L[rnd(8)]; }
static std::string bytes_json(const void *p, size_t n) { std::string s = "["; const unsigned char *u = (const unsigned char *)p; for (size_t i = 0; i < n; ++i) { if (i) s += ","; s += std::to_string((unsigned)u[i]); } return s + "]"; }

template <class T, class = void> struct TI;
template <class T> struct TI<T, std::enable_if_t<std::is_arithmetic_v<T>>> {
    static std::string desc() { return "{\"k\":\"scalar\",\"w\":" + std::to_string(sizeof(T)) + "}"; }
    static std::string json(const T &v) { return bytes_json(&v, sizeof(T)); }
    static T gen() { unsigned char b[sizeof(T)]; int mode = rnd(4); for (auto &x : b) x = mode == 0 ? 0 : mode == 1 ? 255 : (unsigned char)rnd(256);
        if (std::is_floating_point_v<T> && mode >= 2) { T f = (T)((int)rnd(2000) - 1000) / 8; return f; } T v; memcpy(&v, b, sizeof(T)); return v; } };
template <> struct TI<std::string> {
    static std::string desc() { return "{\"k\":\"str\"}"; }
    static std::string json(const std::string &v) { return bytes_json(v.data(), v.size()); }
    static std::string gen() { size_t n = rnd(12) == 0 ? 255 + rnd(3) : rlen(); std::string s(n, 0); for (auto &c : s) c = (char)(rnd(4) == 0 ? 0 : rnd(256)); return s; } };
template <class T> struct TI<std::vector<T>> {
    static std::string desc() { return "{\"k\":\"vec\",\"t\":" + TI<T>::desc() + "}"; }
    static std::string json(const std::vector<T> &v) { std::string s = "["; for (size_t i = 0; i < v.size(); ++i) { if (i) s += ","; s += TI<T>::json(v[i]); } return s + "]"; }
    static std::vector<T> gen() { std::vector<T> v; size_t n = (sizeof(T) <= 2 && rnd(15) == 0) ? 255 + rnd(3) : rlen(); for (size_t i = 0; i < n; ++i) v.push_back(TI<T>::gen()); return v; } };
template <class A, class B> struct TI<std::pair<A, B>> {
    static std::string desc() { return "{\"k\":\"pair\",\"a\":" + TI<A>::desc() + ",\"b\":" + TI<B>::desc() + "}"; }
    static std::string json(const std::pair<A, B> &v) { return "[" + TI<A>::json(v.first) + "," + TI<B>::json(v.second) + "]"; }
    static std::pair<A, B> gen() { return {TI<A>::gen(), TI<B>::gen()}; } };
template <class... Ts> struct TI<std::tuple<Ts...>> {
    static std::string desc() { std::string s = "{\"k\":\"tuple\",\"ts\":["; bool f = true; ((s += (f ? "" : ","), s += TI<Ts>::desc(), f = false), ...); return s + "]}"; }
    static std::string json(const std::tuple<Ts...> &v) { std::string s = "["; bool f = true; std::apply([&](const Ts &...x) { ((s += (f ? "" : ","), s += TI<Ts>::json(x), f = false), ...); }, v); return s + "]"; }
    static std::tuple<Ts...> gen() { return std::tuple<Ts...>{TI<Ts>::gen()...}; } };
template <class K, class V> struct TI<std::map<K, V>> {
    static std::string desc() { return "{\"k\":\"map\",\"a\":" + TI<K>::desc() + ",\"b\":" + TI<V>::desc() + "}"; }
    static std::string json(const std::map<K, V> &v) { std::string s = "["; bool f = true; for (auto &kv : v) { if (!f) s += ","; f = false; s += "[" + TI<K>::json(kv.first) + "," + TI<V>::json(kv.second) + "]"; } return s + "]"; }
    static std::map<K, V> gen() { std::map<K, V> m; size_t n = rlen(); for (size_t i = 0; i < n; ++i) m.insert({TI<K>::gen(), TI<V>::gen()}); return m; } };
#define STRUCT3(S, T1, f1, T2, f2, T3, f3) template <> struct TI<S> { \
    static std::string desc() { return "{\"k\":\"struct\",\"ts\":[" + TI<T1>::desc() + "," + TI<T2>::desc() + "," + TI<T3>::desc() + "]}"; } \
    static std::string json(const S &v) { return "[" + TI<T1>::json(v.f1) + "," + TI<T2>::json(v.f2) + "," + TI<T3>::json(v.f3) + "]"; } \
    static S gen() { S s; s.f1 = TI<T1>::gen(); s.f2 = TI<T2>::gen(); s.f3 = TI<T3>::gen(); return s; } };
STRUCT3(PtA, int32_t, x, uint8_t, tag, double, w)
STRUCT3(NestA, std::string, name, std::vector<int16_t>, vals, PtA, p)
STRUCT3(PtB, int32_t, x, uint8_t, tag, double, w)
STRUCT3(NestB, std::vector<int16_t>, vals, PtB, p, uint16_t, n)

// ---- the two frameworks --------------------------------------------------------------------
struct FwA {
    static const char *name() { return "A"; }
    template <class T> static std::string ser(const T &v) { return igris::serialize(v); }
    template <class T> static std::pair<T, long> des(const char *p, size_t n) { T r{}; igris::archive::binary_buffer_reader rd(p, n); igris::deserialize(rd, r); return {r, (long)(rd.ptr - p)}; }
    template <class T> static std::tuple<T, T, long> des2(const char *p, size_t n) { T a{}, b{}; igris::archive::binary_buffer_reader rd(p, n); igris::deserialize(rd, a); igris::deserialize(rd, b); return {a, b, (long)(rd.ptr - p)}; }
    static const bool bounded = false;
    template <class T> static void trunc(const char *, size_t) {}
};
struct FwB {
    static const char *name() { return "B"; }
    template <class T> static std::string ser(const T &v) { return igris::serialize(v); }      // serialize_archive.h overload (binary_protocol)
    template <class T> static std::pair<T, long> des(const char *p, size_t n) { igris::deserialize_buffer_storage st(igris::buffer((char *)p, n)); int before = st.avail(); T r = igris::deserialize<T>(st); return {r, (long)(before - st.avail())}; }
    template <class T> static std::tuple<T, T, long> des2(const char *p, size_t n) { igris::deserialize_buffer_storage st(igris::buffer((char *)p, n)); int before = st.avail(); T a = igris::deserialize<T>(st); T b = igris::deserialize<T>(st); return {a, b, (long)(before - st.avail())}; }
    static const bool bounded = true;
    // decoding every truncation of the bytes through the bounded storage reader: must stay inside the block (ASan)
    template <class T> static void trunc(const char *p, size_t n) { for (size_t k = 0; k < n; ++k) { char *c = (char *)malloc(k ? k : 1); memcpy(c, p, k); igris::deserialize_buffer_storage st(igris::buffer(c, k)); T r = igris::deserialize<T>(st); (void)r; free(c); } }
};

template <class Fw, class T> static void one(int idx) {
    T v1 = TI<T>::gen(), v2 = TI<T>::gen();
    std::string b1 = Fw::template ser<T>(v1), b2 = Fw::template ser<T>(v2);
    // decode from exactly sized heap copies
    char *c1 = (char *)malloc(b1.size() ? b1.size() : 1); memcpy(c1, b1.data(), b1.size());
    auto d1 = Fw::template des<T>(c1, b1.size());
    std::string cc = b1 + b2; char *c2 = (char *)malloc(cc.size() ? cc.size() : 1); memcpy(c2, cc.data(), cc.size());
    auto d2 = Fw::template des2<T>(c2, cc.size());
    size_t ntr = 0; if (Fw::bounded && b1.size() <= 300) { Fw::template trunc<T>(b1.data(), b1.size()); ntr = b1.size(); }
    Ev e("Ser"); e.str("fw", Fw::name()).i("idx", idx).raw("type", TI<T>::desc()).raw("val", TI<T>::json(v1)).raw("val2", TI<T>::json(v2))
        .bytes("bytes", b1.data(), b1.size()).raw("dec", TI<T>::json(d1.first)).i("consumed", d1.second)
        .raw("cdec1", TI<T>::json(std::get<0>(d2))).raw("cdec2", TI<T>::json(std::get<1>(d2))).i("cconsumed", std::get<2>(d2)).i("clen", (long)cc.size()).i("truncations", (long)ntr);
    e.end(); free(c1); free(c2);
}

typedef std::vector<std::string> VS;
#define TYPES_A(X) X(int8_t) X(int16_t) X(int32_t) X(int64_t) X(uint8_t) X(uint16_t) X(uint32_t) X(uint64_t) X(float) X(double) X(std::string) \
    X(std::vector<int32_t>) X(std::vector<uint8_t>) X(std::vector<double>) X(VS) X(std::vector<std::vector<uint8_t>>) X(std::vector<std::vector<std::string>>) \
    X(std::pair<int32_t COMMA std::string>) X(std::pair<std::string COMMA std::vector<int16_t>>) X(std::tuple<int8_t COMMA std::string COMMA double>) X(std::tuple<std::vector<uint16_t> COMMA std::pair<uint8_t COMMA uint8_t>>) \
    X(std::map<std::string COMMA int32_t>) X(std::map<int32_t COMMA VS>) X(std::map<uint8_t COMMA std::map<uint8_t COMMA std::string>>) X(PtA) X(NestA) X(std::vector<PtA>) X(std::map<std::string COMMA NestA>)
#define TYPES_B(X) X(int8_t) X(int16_t) X(int32_t) X(int64_t) X(uint8_t) X(uint16_t) X(uint32_t) X(uint64_t) X(float) X(double) X(char) \
    X(std::vector<int32_t>) X(std::vector<uint8_t>) X(std::vector<double>) X(std::vector<std::vector<uint8_t>>) X(std::vector<std::vector<std::vector<int16_t>>>) X(PtB) X(NestB) X(std::vector<PtB>) X(std::vector<NestB>)
#define COMMA ,
int main(int argc, char **argv) {
    return run(argc, argv, [&](const std::vector<std::string> &t) {
        if (t[0] == "R") { Ev e("Reset"); e.end(); return; }
        const std::string fw = t[1]; int idx = num(t[2]); rng.seed((unsigned)num(t[3]));
        int k = 0;
        if (fw == "A") {
#define X(T) if (k++ == idx) { one<FwA, T>(idx); return; }
            TYPES_A(X)
#undef X
        } else {
#define X(T) if (k++ == idx) { one<FwB, T>(idx); return; }
            TYPES_B(X)
#undef X
        }
        Ev e("NoType"); e.i("idx", idx); e.end();
    });
}
