// C09 driver: both serialization frameworks (A: stdtypes.h/archive.h, B: serializer.h/serialize_archive.h)
// over a family of concrete C++ types.  For every type the driver derives the descriptor and
// prints values as trees of byte tuples; it performs no comparison.
//   Ser <type-index> <seed>
#include <igris/serialize/stdtypes.h>
#include "ser_common.h"
std::mt19937 rng;
struct FwA {
    static const char *name() { return "A"; }
    template <class T> static std::string ser(const T &v) { return igris::serialize(v); }
    template <class T> static std::pair<T, long> des(const char *p, size_t n) { T r{}; igris::archive::binary_buffer_reader rd(p, n); igris::deserialize(rd, r); return {r, (long)(rd.ptr - p)}; }
    template <class T> static std::tuple<T, T, long> des2(const char *p, size_t n) { T a{}, b{}; igris::archive::binary_buffer_reader rd(p, n); igris::deserialize(rd, a); igris::deserialize(rd, b); return {a, b, (long)(rd.ptr - p)}; }
    static const bool bounded = false;
    template <class T> static void trunc(const char *, size_t) {}
};
#define TYPES_A(X) X(int8_t) X(int16_t) X(int32_t) X(int64_t) X(uint8_t) X(uint16_t) X(uint32_t) X(uint64_t) X(float) X(double) X(std::string) \
    X(std::vector<int32_t>) X(std::vector<uint8_t>) X(std::vector<double>) X(VS) X(std::vector<std::vector<uint8_t>>) X(std::vector<std::vector<std::string>>) \
    X(std::pair<int32_t COMMA std::string>) X(std::pair<std::string COMMA std::vector<int16_t>>) X(std::tuple<int8_t COMMA std::string COMMA double>) X(std::tuple<std::vector<uint16_t> COMMA std::pair<uint8_t COMMA uint8_t>>) \
    X(std::map<std::string COMMA int32_t>) X(std::map<int32_t COMMA VS>) X(std::map<uint8_t COMMA std::map<uint8_t COMMA std::string>>) X(PtA) X(NestA) X(std::vector<PtA>) X(std::map<std::string COMMA NestA>) X(OwnA) X(std::vector<OwnA>) X(std::map<uint8_t COMMA OwnA>) X(std::vector<NestA>) \
    X(std::pair<uint8_t COMMA uint32_t>) X(std::map<uint8_t COMMA uint32_t>) X(std::map<int32_t COMMA double>) X(std::pair<int64_t COMMA int32_t>) X(std::vector<std::pair<uint16_t COMMA int64_t>>) X(std::tuple<uint8_t COMMA uint64_t COMMA uint16_t>)
void ser_b(int idx);
static void ser_a(int idx) {
    int k = 0;
#define X(T) if (k++ == idx) { one<FwA, T>(idx); return; }
    TYPES_A(X)
#undef X
    Ev e("NoType"); e.i("idx", idx); e.end();
}
int main(int argc, char **argv) {
    return run(argc, argv, [&](const std::vector<std::string> &t) {
        if (t[0] == "R") { Ev e("Reset"); e.end(); return; }
        rng.seed((unsigned)num(t[3])); g_big = t.size() > 4 && t[4] == "big" ? (int)(1 + num(t[3]) % 2) : 0;
        if (t[1] == "A") ser_a(num(t[2])); else ser_b(num(t[2]));
    });
}
