// C06 / C13 driver: __printf with a recording callback (and the compat sprintf shim).
//   Pf fmt argspec...      argspec: i:<LE bytes>  (integer/pointer slot)   s:<bytes>:<term 0|1>  (string in an exactly sized block)
//   Pd fmt w p double-bits(LE 8 bytes)   (floating conversions: optional * width / * precision given as numbers or 'n')
#include "common/vlog.h"
#include <igris/util/printf_impl.h>
#include <stdarg.h>
using namespace vlog;
static std::vector<unsigned char> outb;
// re-entrant use (ops Pfn / Pdn): the output callback of the outer call itself formats through the engine (a logging sink that prints a
// counter, a terminal driver that prints a cursor position) after every character it receives; both outputs must be what they
// would be alone.  The inner calls are fixed: "%ld|%#lx|%o" and "%.3e".
extern "C" int igv_sprintf(char *buf, const char *format, ...);
static int g_nest = 0; static std::vector<unsigned char> in1, in2; static int in1r, in2r;
static const long IN_A = 123456789L; static const unsigned long IN_B = 0xdeadbeefUL; static const unsigned IN_C = 0777; static const double IN_D = 12345.678;
static void cbi1(void *, int c) { in1.push_back((unsigned char)c); }
static void cbi2(void *, int c) { in2.push_back((unsigned char)c); }
static int calli(void (*f)(void *, int), const char *fmt, ...) { va_list ap; va_start(ap, fmt); int r = __printf(f, 0, fmt, ap); va_end(ap); return r; }
static void cb(void *, int c) { outb.push_back((unsigned char)c); if (outb.size() > 100000) { flush(); _exit(9); }
    if (g_nest == 1) { g_nest = 2; in1.clear(); in2.clear(); in1r = calli(cbi1, "%ld|%#lx|%o", IN_A, IN_B, IN_C); in2r = calli(cbi2, "%.3e", IN_D); g_nest = 1; } }
static int call(const char *fmt, ...) { va_list ap; va_start(ap, fmt); int r = __printf(cb, 0, fmt, ap); va_end(ap); return r; }
static std::string le8(unsigned long long v) { std::string s = "{\"v\":["; for (int j = 0; j < 8; ++j) { if (j) s += ","; s += std::to_string((unsigned)((v >> (8 * j)) & 255)); } return s + "],\"s\":[]}"; }
static void log_inner() {   // the inner calls as ordinary events of their own
    if (in1.empty() && in2.empty()) return;
    const char *f1 = "%ld|%#lx|%o"; std::vector<unsigned char> sb(in1.size() + 1 + 16, 0xA5); int r2 = igv_sprintf((char *)sb.data() + 8, f1, IN_A, IN_B, IN_C); Ev e("Pf"); e.bytes("fmt", f1, strlen(f1)).raw("args", "[" + le8(IN_A) + "," + le8(IN_B) + "," + le8(IN_C) + "]").bytes("out", in1.data(), in1.size()).i("ret", in1r).i("ret2", r2).bytes("sbuf", sb.data(), sb.size()).i("inner", 1); e.end();
    const char *f2 = "%.3e"; unsigned char db[8]; memcpy(db, &IN_D, 8); Ev e2("Pd"); e2.bytes("fmt", f2, strlen(f2)).i("ws", -9999).i("ps", -9999).bytes("dbl", db, 8).bytes("out", in2.data(), in2.size()).i("ret", in2r).i("inner", 1); e2.end(); }
extern "C" int igv_sprintf(char *buf, const char *format, ...);
int main(int argc, char **argv) {
    return run(argc, argv, [&](const std::vector<std::string> &t) {
        if (t[0] == "R") { Ev e("Reset"); e.end(); return; }
        auto fb = blist(t[1]); char *fmt = (char *)malloc(fb.size() + 1); memcpy(fmt, fb.data(), fb.size()); fmt[fb.size()] = 0;
        bool nest = t[0] == "Pfn" || t[0] == "Pdn"; in1.clear(); in2.clear();
        if (t[0] == "Pf" || t[0] == "Pfn") {
            long long a[3] = {0, 0, 0}; std::vector<char *> blocks; std::string argsj = "[";
            for (size_t k = 2; k < t.size() && k < 5; ++k) {
                const std::string &s = t[k]; if (k > 2) argsj += ",";
                if (s[0] == 'i') { auto b = blist(s.substr(2)); unsigned long long v = 0; for (size_t j = 0; j < b.size() && j < 8; ++j) v |= (unsigned long long)b[j] << (8 * j); a[k - 2] = (long long)v;
                    unsigned char le[8]; for (int j = 0; j < 8; ++j) le[j] = (unsigned char)(v >> (8 * j)); argsj += "{\"v\":["; for (int j = 0; j < 8; ++j) { if (j) argsj += ","; argsj += std::to_string(le[j]); } argsj += "],\"s\":[]}"; }
                else { size_t c2 = s.rfind(':'); auto b = blist(s.substr(2, c2 - 2)); bool term = s[c2 + 1] == '1'; char *blk = (char *)malloc(b.size() + (term ? 1 : 0) ? b.size() + (term ? 1 : 0) : 1);
                    memcpy(blk, b.data(), b.size()); if (term) blk[b.size()] = 0; blocks.push_back(blk); a[k - 2] = (long long)(intptr_t)blk;
                    argsj += "{\"v\":[0,0,0,0,0,0,0,0],\"s\":["; for (size_t j = 0; j < b.size(); ++j) { if (j) argsj += ","; argsj += std::to_string((unsigned)b[j]); } argsj += "]}"; }
            }
            argsj += "]";
            outb.clear(); g_nest = nest ? 1 : 0; int r = call(fmt, a[0], a[1], a[2]); g_nest = 0;
            // the compat sprintf shim must produce the same characters (buffer sized from the callback run + terminator, guarded)
            std::vector<unsigned char> sb(outb.size() + 1 + 16, 0xA5); int r2 = igv_sprintf((char *)sb.data() + 8, fmt, a[0], a[1], a[2]);
            Ev e("Pf"); e.bytes("fmt", fb.data(), fb.size()).raw("args", argsj).bytes("out", outb.data(), outb.size()).i("ret", r).i("ret2", r2).bytes("sbuf", sb.data(), sb.size()).i("nested", nest ? 1 : 0); e.end(); if (nest) log_inner();
            for (auto b : blocks) free(b);
        } else if (t[0] == "Pd" || t[0] == "Pdn") {
            auto db = blist(t[4]); double d; memcpy(&d, db.data(), 8); outb.clear(); int r;
            bool ws = t[2] != "n", ps = t[3] != "n";
            g_nest = nest ? 1 : 0;
            if (ws && ps) r = call(fmt, (int)num(t[2]), (int)num(t[3]), d); else if (ws) r = call(fmt, (int)num(t[2]), d); else if (ps) r = call(fmt, (int)num(t[3]), d); else r = call(fmt, d);
            Ev e("Pd"); e.bytes("fmt", fb.data(), fb.size()).i("ws", ws ? num(t[2]) : -9999).i("ps", ps ? num(t[3]) : -9999).bytes("dbl", db.data(), 8).bytes("out", outb.data(), outb.size()).i("ret", r).i("nested", nest ? 1 : 0); g_nest = 0; e.end(); if (nest) log_inner();
        }
        free(fmt);
    });
}
