// C06 / C13 driver: __printf with a recording callback (and the compat sprintf shim).
//   Pf fmt argspec...      argspec: i:<LE bytes>  (integer/pointer slot)   s:<bytes>:<term 0|1>  (string in an exactly sized block)
//   Pd fmt w p double-bits(LE 8 bytes)   (floating conversions: optional * width / * precision given as numbers or 'n')
#include "common/vlog.h"
#include <igris/util/printf_impl.h>
#include <stdarg.h>
using namespace vlog;
static std::vector<unsigned char> outb;
static void cb(void *, int c) { outb.push_back((unsigned char)c); if (outb.size() > 100000) { flush(); _exit(9); } }
static int call(const char *fmt, ...) { va_list ap; va_start(ap, fmt); int r = __printf(cb, 0, fmt, ap); va_end(ap); return r; }
extern "C" int igv_sprintf(char *buf, const char *format, ...);
int main(int argc, char **argv) {
    return run(argc, argv, [&](const std::vector<std::string> &t) {
        if (t[0] == "R") { Ev e("Reset"); e.end(); return; }
        auto fb = blist(t[1]); char *fmt = (char *)malloc(fb.size() + 1); memcpy(fmt, fb.data(), fb.size()); fmt[fb.size()] = 0;
        if (t[0] == "Pf") {
            long long a[3] = {0, 0, 0}; std::vector<char *> blocks; std::string argsj = "[";
            for (size_t k = 2; k < t.size() && k < 5; ++k) {
                const std::string &s = t[k]; if (k > 2) argsj += ",";
                if (s[0] == 'i') { auto b = blist(s.substr(2)); unsigned long long v = 0; for (size_t j = 0; j < b.size() && j < 8; ++j) v |= (unsigned long long)b[j] << (8 * j); a[k - 2] = (long long)v;
                    unsigned char le[8]; for (int j = 0; j < 8; ++j) le[j] = (unsigned char)(v >> (8 * j)); argsj += "{\"v\":["; for (int j = 0; j < 8; ++j) { if (j) argsj += ","; argsj += std::to_string(le[j]); } argsj += "],\"s\":[]}"; }
                else { size_t c2 = s.rfind(':'); auto b = blist(s.substr(2, c2 - 2)); bool term = s[c2 + 1] == '1'; char *blk = (char *)malloc(b.size() + (term ? 1 : 0) ? b.size() + (term ? 1 : 0) : 1);
                    memcpy(blk, b.data(), b.size()); if (term) blk[b.size()] = 0; blocks.push_back(blk); a[k - 2] = (long long)(intptr_t)blk;
                    argsj += "{\"v\":[0,0,0,0,0,0,0,0],\"s\":["; for (size_t j = 0; j < b.size(); ++j) { if (j) argsj += ","; argsj += std::to_string((unsigned)b[j]); } argsj += "]}"; }
            }
            argsj += "]";
            outb.clear(); int r = call(fmt, a[0], a[1], a[2]);
            // the compat sprintf shim must produce the same characters (buffer sized from the callback run + terminator, guarded)
            std::vector<unsigned char> sb(outb.size() + 1 + 16, 0xA5); int r2 = igv_sprintf((char *)sb.data() + 8, fmt, a[0], a[1], a[2]);
            Ev e("Pf"); e.bytes("fmt", fb.data(), fb.size()).raw("args", argsj).bytes("out", outb.data(), outb.size()).i("ret", r).i("ret2", r2).bytes("sbuf", sb.data(), sb.size()); e.end();
            for (auto b : blocks) free(b);
        } else if (t[0] == "Pd") {
            auto db = blist(t[4]); double d; memcpy(&d, db.data(), 8); outb.clear(); int r;
            bool ws = t[2] != "n", ps = t[3] != "n";
            if (ws && ps) r = call(fmt, (int)num(t[2]), (int)num(t[3]), d); else if (ws) r = call(fmt, (int)num(t[2]), d); else if (ps) r = call(fmt, (int)num(t[3]), d); else r = call(fmt, d);
            Ev e("Pd"); e.bytes("fmt", fb.data(), fb.size()).i("ws", ws ? num(t[2]) : -9999).i("ps", ps ? num(t[3]) : -9999).bytes("dbl", db.data(), 8).bytes("out", outb.data(), outb.size()).i("ret", r); e.end();
        }
        free(fmt);
    });
}
