/* forced include for compat/libc/string sources: every function they define is renamed igv_* */
#ifndef VERIF_RENAME_STRING_H
#define VERIF_RENAME_STRING_H
#define memchr igv_memchr
#define memcmp igv_memcmp
#define memcpy igv_memcpy
#define memmove igv_memmove
#define memrchr igv_memrchr
#define memset igv_memset
#define strcasecmp igv_strcasecmp
#define strcasestr igv_strcasestr
#define strcat igv_strcat
#define strchr igv_strchr
#define strchrnul igv_strchrnul
#define strcmp igv_strcmp
#define strcpy igv_strcpy
#define strcspn igv_strcspn
#define strdup igv_strdup
#define strlcpy igv_strlcpy
#define strlen igv_strlen
#define strlwr igv_strlwr
#define strncasecmp igv_strncasecmp
#define strncat igv_strncat
#define strncmp igv_strncmp
#define strncpy igv_strncpy
#define strndup igv_strndup
#define strnlen igv_strnlen
#define strpbrk igv_strpbrk
#define strrchr igv_strrchr
#define strspn igv_strspn
#define strstr igv_strstr
#define strtok igv_strtok
#define strtok_r igv_strtok_r
#define strupr igv_strupr
#endif
