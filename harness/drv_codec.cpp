// C18 driver: hexascii and base64 codecs, fixed width hex helpers.
#include "common/vlog.h"
#include <igris/util/hexascii.h>
#include <igris/string/hexascii_string.h>
#include <igris/util/base64.h>
using namespace vlog;
static const int G = 8;
static void do_call(const std::string &fn, const std::vector<unsigned char> &in);
// Calls made while the globals of the program are still being constructed (a global object that decodes an embedded blob in its
// constructor): this translation unit is first on the link line, so its initialisers run before those of the library sources.  The
// events are held back and written after the first Reset.
static std::string g_early;
struct Early { Early() {
    std::string keep; keep.swap(vlog::g_buf);
    const char *texts[] = {"", "f", "fo", "foo", "foobar", "\xff\xfe\xfd\x00\x80"}; size_t lens[] = {0, 1, 2, 3, 6, 5};
    for (int k = 0; k < 6; ++k) { std::vector<unsigned char> in(texts[k], texts[k] + lens[k]);
        for (const char *fn : {"b64enc_ptr", "b64enc_string", "b64urlenc_ptr", "hexenc_ptr", "hexenc_string", "hexenc_c"}) do_call(fn, in); }
    const char *enc[] = {"Zm9vYmFy", "Zm9v", "Zg==", "Zm8=", "//79AIA=", "__79AIA="};
    for (int k = 0; k < 6; ++k) { std::vector<unsigned char> in(enc[k], enc[k] + strlen(enc[k])); do_call(k == 5 ? "b64urldec" : "b64dec", in); }
    { const char *h = "00FF7F80AB"; std::vector<unsigned char> in(h, h + 10); do_call("hexdec_c", in); }
    { const char *h = "DEADBEEF01234567"; for (int w = 2; w <= 16; w *= 2) { std::vector<unsigned char> in(h, h + w); do_call(w == 2 ? "hexu8" : w == 4 ? "hexu16" : w == 8 ? "hexu32" : "hexu64", in); } }
    { unsigned char v[8] = {0xef, 0xcd, 0xab, 0x89, 0x67, 0x45, 0x23, 0x01}; for (int w = 1; w <= 8; w *= 2) { std::vector<unsigned char> in(v, v + w); do_call(w == 1 ? "u8hex" : w == 2 ? "u16hex" : w == 4 ? "u32hex" : "u64hex", in); } }
    g_early.swap(vlog::g_buf); vlog::g_buf.swap(keep); } };
static Early g_early_calls;
int main(int argc, char **argv) {
    return run(argc, argv, [&](const std::vector<std::string> &t) {
        if (t[0] == "R") { Ev e("Reset"); e.end(); if (!g_early.empty()) { vlog::g_buf += g_early; g_early.clear(); } return; }
        do_call(t[1], blist(t[2]));
    });
}
static void do_call(const std::string &fn, const std::vector<unsigned char> &in) {
    {
        size_t n = in.size();
        // input in an exactly sized heap block (not terminated)
        unsigned char *src = (unsigned char *)malloc(n ? n : 1); memcpy(src, in.data(), n);
        std::vector<unsigned char> out; std::vector<unsigned char> gl, gr; bool guards = false;
        auto with_buf = [&](size_t osz, auto f) { unsigned char *b = (unsigned char *)malloc(osz + 2 * G); memset(b, 0xA5, osz + 2 * G); f(b + G); out.assign(b + G, b + G + osz);
            gl.assign(b, b + G); gr.assign(b + G + osz, b + G + osz + G); guards = true; free(b); };
        std::string s((const char *)src, n);
        if (fn == "hexenc_c") with_buf(2 * n, [&](unsigned char *o) { hexascii_encode(src, (int)n, o); });
        else if (fn == "hexdec_c_odd") with_buf(n / 2, [&](unsigned char *o) { hexascii_decode(src, (int)n, o); });   // a text with a dangling last character: room for the whole pairs only
        else if (fn == "hexdec_c") with_buf(n / 2, [&](unsigned char *o) { hexascii_decode(src, (int)n, o); });
        else if (fn == "hexdec_c_inplace") with_buf(n, [&](unsigned char *o) { memcpy(o, src, n); hexascii_decode(o, (int)n, o); });    // decoded over its own text (the prototype has no restrict)
        else if (fn == "hexenc_ptr") { auto r = igris::hexascii_encode(src, n); out.assign(r.begin(), r.end()); }
        else if (fn == "hexenc_string") { auto r = igris::hexascii_encode(s); out.assign(r.begin(), r.end()); }
        else if (fn == "hexenc_buffer") { auto r = igris::hexascii_encode(igris::buffer((char *)src, n)); out.assign(r.begin(), r.end()); }
        else if (fn == "b64enc_ptr") { auto r = igris::base64_encode(src, n); out.assign(r.begin(), r.end()); }
        else if (fn == "b64enc_string") { auto r = igris::base64_encode(s); out.assign(r.begin(), r.end()); }
        else if (fn == "b64dec") { auto r = igris::base64_decode(s); out.assign(r.begin(), r.end()); }
        else if (fn == "b64urlenc_ptr") { auto r = igris::base64url_encode(src, n); out.assign(r.begin(), r.end()); }
        else if (fn == "b64urlenc_string") { auto r = igris::base64url_encode(s); out.assign(r.begin(), r.end()); }
        else if (fn == "b64urldec") { auto r = igris::base64url_decode(s); out.assign(r.begin(), r.end()); }
        else if (fn == "u8hex") with_buf(2, [&](unsigned char *o) { uint8_t v; memcpy(&v, src, 1); uint8_to_hex((char *)o, v); });
        else if (fn == "u16hex") with_buf(4, [&](unsigned char *o) { uint16_t v; memcpy(&v, src, 2); uint16_to_hex((char *)o, v); });
        else if (fn == "u32hex") with_buf(8, [&](unsigned char *o) { uint32_t v; memcpy(&v, src, 4); uint32_to_hex((char *)o, v); });
        else if (fn == "u64hex") with_buf(16, [&](unsigned char *o) { uint64_t v; memcpy(&v, src, 8); uint64_to_hex((char *)o, v); });
        else if (fn == "hexu8") { uint8_t v = hex_to_uint8((const char *)src); out.assign((unsigned char *)&v, (unsigned char *)&v + 1); }
        else if (fn == "hexu16") { uint16_t v = hex_to_uint16((const char *)src); out.assign((unsigned char *)&v, (unsigned char *)&v + 2); }
        else if (fn == "hexu32") { uint32_t v = hex_to_uint32((const char *)src); out.assign((unsigned char *)&v, (unsigned char *)&v + 4); }
        else if (fn == "hexu64") { uint64_t v = hex_to_uint64((const char *)src); out.assign((unsigned char *)&v, (unsigned char *)&v + 8); }
        else { fprintf(stderr, "bad fn %s\n", fn.c_str()); exit(3); }
        free(src);
        Ev e("Codec"); e.str("fn", fn.c_str()).bytes("in", in.data(), n).bytes("out", out.data(), out.size()).i("g", guards ? 1 : 0).bytes("gl", gl.data(), gl.size()).bytes("gr", gr.data(), gr.size()); e.end();
    }
}
