// C18 driver: hexascii and base64 codecs, fixed width hex helpers.
#include "common/vlog.h"
#include <igris/util/hexascii.h>
#include <igris/string/hexascii_string.h>
#include <igris/util/base64.h>
using namespace vlog;
static const int G = 8;
int main(int argc, char **argv) {
    return run(argc, argv, [&](const std::vector<std::string> &t) {
        if (t[0] == "R") { Ev e("Reset"); e.end(); return; }
        const std::string &fn = t[1]; auto in = blist(t[2]); size_t n = in.size();
        // input in an exactly sized heap block (not terminated)
        unsigned char *src = (unsigned char *)malloc(n ? n : 1); memcpy(src, in.data(), n);
        std::vector<unsigned char> out; std::vector<unsigned char> gl, gr; bool guards = false;
        auto with_buf = [&](size_t osz, auto f) { unsigned char *b = (unsigned char *)malloc(osz + 2 * G); memset(b, 0xA5, osz + 2 * G); f(b + G); out.assign(b + G, b + G + osz);
            gl.assign(b, b + G); gr.assign(b + G + osz, b + G + osz + G); guards = true; free(b); };
        std::string s((const char *)src, n);
        if (fn == "hexenc_c") with_buf(2 * n, [&](unsigned char *o) { hexascii_encode(src, (int)n, o); });
        else if (fn == "hexdec_c") with_buf(n / 2, [&](unsigned char *o) { hexascii_decode(src, (int)n, o); });
        else if (fn == "hexenc_ptr") { auto r = igris::hexascii_encode(src, n); out.assign(r.begin(), r.end()); }
        else if (fn == "hexenc_string") { auto r = igris::hexascii_encode(s); out.assign(r.begin(), r.end()); }
        else if (fn == "hexenc_buffer") { auto r = igris::hexascii_encode(igris::buffer((char *)src, n)); out.assign(r.begin(), r.end()); }
        else if (fn == "b64enc_ptr") { auto r = igris::base64_encode(src, n); out.assign(r.begin(), r.end()); }
        else if (fn == "b64enc_string") { auto r = igris::base64_encode(s); out.assign(r.begin(), r.end()); }
        else if (fn == "b64dec") { auto r = igris::base64_decode(s); out.assign(r.begin(), r.end()); }
        else if (fn == "b64urlenc_ptr") { auto r = igris::base64url_encode(src, n); out.assign(r.begin(), r.end()); }
        else if (fn == "b64urlenc_string") { auto r = igris::base64url_encode(s); out.assign(r.begin(), r.end()); }
        else if (fn == "b64urldec") { auto r = igris::base64url_decode(s); out.assign(r.begin(), r.end()); }
        else if (fn == "u8hex") with_buf(2, [&](unsigned char *o) { uint8_t v; memcpy(&v, src, 1); uint8_to_hex((char *)o, v); });
        else if (fn == "u16hex") with_buf(4, [&](unsigned char *o) { uint16_t v; memcpy(&v, src, 2); uint16_to_hex((char *)o, v); });
        else if (fn == "u32hex") with_buf(8, [&](unsigned char *o) { uint32_t v; memcpy(&v, src, 4); uint32_to_hex((char *)o, v); });
        else if (fn == "u64hex") with_buf(16, [&](unsigned char *o) { uint64_t v; memcpy(&v, src, 8); uint64_to_hex((char *)o, v); });
        else if (fn == "hexu8") { uint8_t v = hex_to_uint8((const char *)src); out.assign((unsigned char *)&v, (unsigned char *)&v + 1); }
        else if (fn == "hexu16") { uint16_t v = hex_to_uint16((const char *)src); out.assign((unsigned char *)&v, (unsigned char *)&v + 2); }
        else if (fn == "hexu32") { uint32_t v = hex_to_uint32((const char *)src); out.assign((unsigned char *)&v, (unsigned char *)&v + 4); }
        else if (fn == "hexu64") { uint64_t v = hex_to_uint64((const char *)src); out.assign((unsigned char *)&v, (unsigned char *)&v + 8); }
        else { fprintf(stderr, "bad fn %s\n", fn.c_str()); exit(3); }
        free(src);
        Ev e("Codec"); e.str("fn", fn.c_str()).bytes("in", in.data(), n).bytes("out", out.data(), out.size()).i("g", guards ? 1 : 0).bytes("gl", gl.data(), gl.size()).bytes("gr", gr.data(), gr.size()); e.end();
    });
}
