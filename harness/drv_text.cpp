// C19 driver: split/join/trim/replace/memmem, argv splitter, shell dispatchers, path helpers.
#include "common/vlog.h"
#include <igris/util/string.h>
#include <igris/datastruct/argvc.h>
#include <igris/creader.h>
#include <igris/shell/mshell.h>
#include <igris/shell/rshell.h>
#include <igris/util/pathops.h>
using namespace vlog;
static const int G = 8;
static std::string toks_json(const std::vector<std::string> &v) { std::string s = "["; for (size_t i = 0; i < v.size(); ++i) { if (i) s += ","; s += "["; for (size_t j = 0; j < v[i].size(); ++j) { if (j) s += ","; s += std::to_string((unsigned char)v[i][j]); } s += "]"; } return s + "]"; }
// exactly sized heap copy; term: append a terminator
static char *blk(const std::vector<unsigned char> &d, bool term) { char *p = (char *)malloc(d.size() + (term ? 1 : 0) ? d.size() + (term ? 1 : 0) : 1); memcpy(p, d.data(), d.size()); if (term) p[d.size()] = 0; return p; }
// shell handlers log what they were given
static std::string h_name; static std::vector<std::string> h_argv; static int h_calls;
// nested dispatch ("<fn>_nested"): the handler of the outer line dispatches a second line through the same shell (what a macro /
// repeat / alias command does) and then reads its own argv again - the tokens it was given must still be there
static std::string h_nest_fn; static std::vector<unsigned char> h_nest_line; static int h_depth;
static std::string h_in_name; static std::vector<std::string> h_in_argv, h_after;
static void nested_dispatch();
static int h_common(const char *nm, int argc, char **argv) {
    ++h_calls;
    if (h_depth > 0) { h_in_name = nm; h_in_argv.assign(argv, argv + argc); return 7; }
    h_name = nm; h_argv.assign(argv, argv + argc);
    if (!h_nest_fn.empty()) { ++h_depth; nested_dispatch(); --h_depth; h_after.assign(argv, argv + argc); }
    return 7; }
#define H(nm) static int m_##nm(int argc, char **argv) { return h_common(#nm, argc, argv); } \
              static int r_##nm(int argc, char **argv, char *, int) { return h_common(#nm, argc, argv); }
H(cmd) H(a) H(ab) H(help) H(cmd_second) H(ab_second)
static const struct mshell_command mtab1[] = {{"cmd", m_cmd, "c"}, {"a", m_a, 0}, {0, 0, 0}};
// the second table repeats names of the first one with other handlers: the first table that names a command wins
static const struct mshell_command mtab2[] = {{"ab", m_ab, 0}, {"cmd", m_cmd_second, "c2"}, {"help", m_help, "h"}, {"ab", m_ab_second, 0}, {0, 0, 0}};
static const struct mshell_command mtab_all[] = {{"cmd", m_cmd, "c"}, {"a", m_a, 0}, {"ab", m_ab, 0}, {"help", m_help, "h"}, {0, 0, 0}};
static const struct mshell_command *const mtabs[] = {mtab1, mtab2, 0};
static const struct rshell_command rtab1[] = {{"cmd", r_cmd, "c"}, {"a", r_a, 0}, {0, 0, 0}};
static const struct rshell_command rtab2[] = {{"ab", r_ab, 0}, {"cmd", r_cmd_second, "c2"}, {"help", r_help, "h"}, {"ab", r_ab_second, 0}, {0, 0, 0}};
static const struct rshell_command rtab_all[] = {{"cmd", r_cmd, "c"}, {"a", r_a, 0}, {"ab", r_ab, 0}, {"help", r_help, "h"}, {0, 0, 0}};
static const struct rshell_command_table rtabs[] = {{rtab1, 0}, {rtab2, 0}, {0, 0}};
static void nested_dispatch() { char *p = blk(h_nest_line, true); int ret = -99;
    if (h_nest_fn == "mshell") mshell_execute(p, mtab_all, &ret); else if (h_nest_fn == "mshell_tables") mshell_tables_execute(p, mtabs, &ret);
    else if (h_nest_fn == "rshell") rshell_execute(p, rtab_all, &ret, 0, 0, 0); else rshell_tables_execute(p, rtabs, &ret, 0, 0);
    free(p); }
int main(int argc, char **argv) {
    return run(argc, argv, [&](const std::vector<std::string> &t) {
        if (t[0] == "R") { Ev e("Reset"); e.end(); return; }
        const std::string &fn = t[1]; auto s = blist(t[2]); auto a = blist(t[3]); auto b = blist(t[4]); long n = num(t[5]);
        Ev e("Text"); e.str("fn", fn.c_str()).bytes("s", s.data(), s.size()).bytes("a", a.data(), a.size()).bytes("b", b.data(), b.size()).i("n", n);
        if (fn == "split_char") { char *p = blk(s, false); auto r = igris::split(igris::buffer(p, s.size()), (char)a[0]); e.raw("toks", toks_json(r)); free(p); }
        else if (fn == "split_set") { char *p = blk(s, false); char *d = blk(a, true); auto r = igris::split(igris::buffer(p, s.size()), d); e.raw("toks", toks_json(r)); free(p); free(d); }
        else if (fn == "split_cmd") { char *p = blk(s, false); auto r = igris::split_cmdargs(igris::buffer(p, s.size())); e.raw("toks", toks_json(r)); free(p); }
        else if (fn == "join") { char *p = blk(s, false); auto r = igris::split(igris::buffer(p, s.size()), (char)a[0]); std::string j = igris::join(r, (char)a[0]); e.bytes("out", j.data(), j.size()); free(p); }
        else if (fn == "trim") { char *p = blk(s, false); std::string r = igris::trim(igris::buffer(p, s.size())); e.bytes("out", r.data(), r.size()); free(p); }
        else if (fn == "replace") { std::string r = igris::replace(std::string((char *)s.data(), s.size()), std::string((char *)a.data(), a.size()), std::string((char *)b.data(), b.size())); e.bytes("out", r.data(), r.size()); }
        else if (fn == "replace_buf") { char *in = blk(s, false), *su = blk(a, false), *re = blk(b, false); unsigned char *o = (unsigned char *)malloc(n + 2 * G); memset(o, 0xA5, n + 2 * G);
            replace_substrings((char *)o + G, n, in, s.size(), su, a.size(), re, b.size()); e.bytes("win", o, n + 2 * G); free(in); free(su); free(re); free(o); }
        else if (fn == "memmem") { char *l = blk(s, false), *nd = blk(a, false); void *r = igris_memmem(l, s.size(), nd, a.size()); e.i("ret", r ? (long)((char *)r - l) : -1); free(l); free(nd); }
        else if (fn == "argv" || fn == "argv_n") { bool term = fn == "argv"; char *p = blk(s, term); char **av = (char **)malloc(sizeof(char *) * (n ? n : 1)); int ac;
            if (term) ac = argvc_internal_split(p, av, (int)n); else ac = argvc_internal_split_n(p, (int)s.size(), av, (int)n);
            std::vector<long long> st; for (int i = 0; i < ac && i < n; ++i) st.push_back(av[i] - p); e.i("argc", ac).ints("starts", st).bytes("image", p, s.size()); free(av); free(p); }
        else if (fn.size() > 7 && fn.compare(fn.size() - 7, 7, "_script") == 0) { std::string base = fn.substr(0, fn.size() - 7);
            // the usual script loop: the caller walks a text line by line with strtok and hands every line to the dispatcher
            char *p = blk(s, true); std::vector<std::string> lines, names;
            for (char *ln = strtok(p, "\n"); ln; ln = strtok(0, "\n")) { lines.push_back(ln); h_calls = 0; h_name = ""; h_argv.clear(); int ret = -99;
                if (base == "mshell") mshell_execute(ln, mtab_all, &ret); else if (base == "mshell_tables") mshell_tables_execute(ln, mtabs, &ret);
                else if (base == "rshell") rshell_execute(ln, rtab_all, &ret, 0, 0, 0); else if (base == "rshell_tables") rshell_tables_execute(ln, rtabs, &ret, 0, 0); else { fprintf(stderr, "bad fn %s\n", fn.c_str()); exit(3); }
                names.push_back(h_name); if (lines.size() > 200) break; }
            e.raw("lines", toks_json(lines)).raw("names", toks_json(names)); free(p); }
        else if (fn.size() > 7 && fn.compare(fn.size() - 7, 7, "_nested") == 0) { std::string base = fn.substr(0, fn.size() - 7);
            char *p = blk(s, true); h_calls = 0; h_name = ""; h_argv.clear(); h_in_name = ""; h_in_argv.clear(); h_after.clear(); h_nest_fn = base; h_nest_line = a; h_depth = 0; int ret = -99; int rc;
            if (base == "mshell") rc = mshell_execute(p, mtab_all, &ret); else if (base == "mshell_tables") rc = mshell_tables_execute(p, mtabs, &ret);
            else if (base == "rshell") rc = rshell_execute(p, rtab_all, &ret, 0, 0, 0); else if (base == "rshell_tables") rc = rshell_tables_execute(p, rtabs, &ret, 0, 0); else { fprintf(stderr, "bad fn %s\n", fn.c_str()); exit(3); }
            h_nest_fn = "";
            e.i("calls", h_calls).bytes("name", h_name.data(), h_name.size()).raw("argvs", toks_json(h_argv)).raw("argvs_after", toks_json(h_after))
             .bytes("in_name", h_in_name.data(), h_in_name.size()).raw("in_argvs", toks_json(h_in_argv)).i("rc", rc).i("hret", ret); free(p); }
        else if (fn == "mshell" || fn == "mshell_tables" || fn == "rshell" || fn == "rshell_tables") { char *p = blk(s, true); h_calls = 0; h_name = ""; h_argv.clear(); int ret = -99; int rc;
            if (fn == "mshell") rc = mshell_execute(p, mtab_all, &ret); else if (fn == "mshell_tables") rc = mshell_tables_execute(p, mtabs, &ret);
            else if (fn == "rshell") rc = rshell_execute(p, rtab_all, &ret, 0, 0, 0); else rc = rshell_tables_execute(p, rtabs, &ret, 0, 0);
            e.i("calls", h_calls).bytes("name", h_name.data(), h_name.size()).i("argc", (long)h_argv.size()).raw("argvs", toks_json(h_argv)).i("rc", rc).i("hret", ret); free(p); }
        else if (fn == "mshell_help" || fn == "mshell_tables_help") {   // the help text handed to the write callback, piece by piece
            std::string acc; auto w = [](void *p, const char *d, size_t n2) { ((std::string *)p)->append(d, n2); };
            if (fn == "mshell_help") mshell_help(n == 1 ? mtab1 : n == 2 ? mtab2 : mtab_all, w, &acc); else mshell_tables_help(mtabs, w, &acc);
            e.bytes("out", acc.data(), acc.size()); }
        else if (fn == "rshell_help" || fn == "rshell_tables_help") {   // the help text built in a caller-supplied buffer of b[0] bytes (between guard bytes)
            long amax = b.empty() ? 1 : b[0] + (b.size() > 1 ? 256 * b[1] : 0); unsigned char *o = (unsigned char *)malloc(amax + 2 * G); memset(o, 0xA5, amax + 2 * G);
            int r = fn == "rshell_help" ? rshell_help(n == 1 ? rtab1 : n == 2 ? rtab2 : rtab_all, (char *)o + G, (int)amax) : rshell_tables_help(rtabs, (char *)o + G, (int)amax);
            e.i("ret", r).i("amax", amax).bytes("win", o, amax + 2 * G); free(o); }
        else if (fn == "creader_lines") {   // every line of the text through creader_readline (the text is an exactly sized, unterminated heap block)
            char *p = blk(s, false); struct creader rd; creader_init(&rd, p, s.size()); std::string ls = "["; long calls = 0; bool first = true;
            bool ended = false;
            for (;;) { const char *tok = 0; ++calls; ptrdiff_t len = creader_readline(&rd, &tok); if (len < 0) { ended = true; break; } if (calls > (long)s.size() + 3) break;
                if (!first) ls += ","; first = false; ls += "[" + std::to_string((long)(tok - p)) + "," + std::to_string((long)len) + "]"; }
            e.raw("lines", ls + "]").i("calls", calls).i("ended", ended ? 1 : 0).i("cur", (long)creader_curpos(&rd)).i("atend", creader_end(&rd) ? 1 : 0); free(p); }
        else if (fn == "creader_skip") {    // skip the characters of the set a from cursor position n
            char *p = blk(s, false); char *set = blk(a, true); struct creader rd; creader_init(&rd, p, s.size()); rd.cursor = p + n;
            int r = creader_skip(&rd, set); e.i("ret", r).i("cur", (long)creader_curpos(&rd)); free(p); free(set); }
        else if (fn == "path_next") { char *p = blk(s, true); unsigned len = 0; const char *r = path_next(p, &len); e.i("off", r ? (long)(r - p) : -1).i("len", r ? len : 0); free(p); }
        else if (fn == "path_iterate") { char *p = blk(s, true); const char *r = path_iterate(p); e.i("off", r ? (long)(r - p) : -1); free(p); }
        else if (fn == "compare_node") { char *p = blk(s, true), *q = blk(a, true); e.i("ret", path_compare_node(p, q)); free(p); free(q); }
        else if (fn == "remove_prefix") { char *p = blk(s, true), *q = blk(a, true); const char *r = path_remove_prefix(p, q); e.i("off", r ? (long)(r - p) : -1); free(p); free(q); }
        else { fprintf(stderr, "bad fn %s\n", fn.c_str()); exit(3); }
        e.end();
    });
}
