// shared by drv_serialize.cpp (framework A) and drv_serialize_b.cpp (framework B): the two frameworks
// both define igris::serialize(const T&), so they cannot share a translation unit.
#ifndef VERIF_SER_COMMON_H
#define VERIF_SER_COMMON_H
#include "common/vlog.h"
#include <map>
#include <tuple>
#include <string>
#include <vector>
#include <random>
using namespace vlog;
extern std::mt19937 rng;
// ---- user types -----------------------------------------------------------------------
struct PtA { int32_t x; uint8_t tag; double w;                       // framework A: reflect
    template <class R> void reflect(R &r) { r & x; r & tag; r & w; } };
struct NestA { std::string name; std::vector<int16_t> vals; PtA p;
    template <class R> void reflect(R &r) { r & name; r & vals; r & p; } };
// a type with user-declared copy operations and destructor (std::move of it copies) that owns containers
typedef std::map<uint8_t, uint8_t> M88;
struct OwnA { std::vector<int16_t> items; M88 idx; uint8_t id = 0;
    OwnA() {} OwnA(const OwnA &o) : items(o.items), idx(o.idx), id(o.id) {} OwnA &operator=(const OwnA &o) { items = o.items; idx = o.idx; id = o.id; return *this; } ~OwnA() {}
    template <class R> void reflect(R &r) { r & items; r & idx; r & id; } };
struct PtB { int32_t x = 0; uint8_t tag = 0; double w = 0;             // framework B: serialize_reflect
    template <class Ar> void serialize_reflect(Ar &a) { a & x; a & tag; a & w; }
    template <class Ar> void serialize_reflect(Ar &a) const { a & x; a & tag; a & w; } };
struct NestB { std::vector<int16_t> vals; PtB p; uint16_t n = 0;
    template <class Ar> void serialize_reflect(Ar &a) { a & vals; a & p; a & n; }
    template <class Ar> void serialize_reflect(Ar &a) const { a & vals; a & p; a & n; } };

// ---- descriptor / value printing / generation -----------------------------------------------
static unsigned rnd(unsigned n) { return n ? rng() % n : 0; }
// "big" calls: the first string of the value gets a length at the top of the 16-bit length field (encodings of 64 KiB and more)
static int g_big = 0;
static size_t rlen() { static const size_t L[] = {0, 0, 1, 1, 2, 3, 5, 17}; return L[rnd(8)]; }
static std::string bytes_json(const void *p, size_t n) { std::string s = "["; const unsigned char *u = (const unsigned char *)p; for (size_t i = 0; i < n; ++i) { if (i) s += ","; s += std::to_string((unsigned)u[i]); } return s + "]"; }

// nesting depth of variable-length containers (a truncated decode of depth d may loop 65535^d times on a garbage count)
template <class T> struct VDepth { static const int v = 0; };
template <class T> struct VDepth<std::vector<T>> { static const int v = 1 + VDepth<T>::v; };
template <class T, class = void> struct TI;
template <class T> struct TI<T, std::enable_if_t<std::is_arithmetic_v<T>>> {
    static const int depth = 0;
    static std::string desc() { return "{\"k\":\"scalar\",\"w\":" + std::to_string(sizeof(T)) + "}"; }
    static std::string json(const T &v) { return bytes_json(&v, sizeof(T)); }
    static T gen() { unsigned char b[sizeof(T)]; int mode = rnd(4); for (auto &x : b) x = mode == 0 ? 0 : mode == 1 ? 255 : (unsigned char)rnd(256);
        if (std::is_floating_point_v<T> && mode >= 2) { T f = (T)((int)rnd(2000) - 1000) / 8; return f; } T v; memcpy(&v, b, sizeof(T)); return v; } };
template <> struct TI<std::string> {
    static const int depth = 1;
    static std::string desc() { return "{\"k\":\"str\"}"; }
    static std::string json(const std::string &v) { return bytes_json(v.data(), v.size()); }
    static std::string gen() { size_t n = rnd(12) == 0 ? 255 + rnd(3) : rlen(); if (g_big > 0) { static const size_t B[] = {65535, 65534, 40000, 32768, 65535}; n = B[rnd(5)]; --g_big; } std::string s(n, 0); for (auto &c : s) c = (char)(rnd(4) == 0 ? 0 : rnd(256)); return s; } };
template <class T> struct TI<std::vector<T>> {
    static const int depth = 1 + TI<T>::depth;
    static std::string desc() { return "{\"k\":\"vec\",\"t\":" + TI<T>::desc() + "}"; }
    static std::string json(const std::vector<T> &v) { std::string s = "["; for (size_t i = 0; i < v.size(); ++i) { if (i) s += ","; s += TI<T>::json(v[i]); } return s + "]"; }
    static std::vector<T> gen() { std::vector<T> v; size_t n = (sizeof(T) <= 2 && rnd(15) == 0) ? 255 + rnd(3) : rlen();
        // "big" calls: a vector of scalars wider than a byte whose elements take 64 KiB and more (the count still fits the 16-bit field)
        if constexpr (std::is_arithmetic_v<T> && sizeof(T) >= 2) { if (g_big > 0) { size_t q = 65536 / sizeof(T); const size_t B[] = {q, q + 1, 2 * q - 1, q + 1000}; n = B[rnd(4)]; --g_big; } }
        for (size_t i = 0; i < n; ++i) v.push_back(TI<T>::gen()); return v; } };
template <class A, class B> struct TI<std::pair<A, B>> {
    static const int depth = TI<A>::depth > TI<B>::depth ? TI<A>::depth : TI<B>::depth;
    static std::string desc() { return "{\"k\":\"pair\",\"a\":" + TI<A>::desc() + ",\"b\":" + TI<B>::desc() + "}"; }
    static std::string json(const std::pair<A, B> &v) { return "[" + TI<A>::json(v.first) + "," + TI<B>::json(v.second) + "]"; }
    static std::pair<A, B> gen() { return {TI<A>::gen(), TI<B>::gen()}; } };
template <class... Ts> struct TI<std::tuple<Ts...>> {
    static const int depth = 2;
    static std::string desc() { std::string s = "{\"k\":\"tuple\",\"ts\":["; bool f = true; ((s += (f ? "" : ","), s += TI<Ts>::desc(), f = false), ...); return s + "]}"; }
    static std::string json(const std::tuple<Ts...> &v) { std::string s = "["; bool f = true; std::apply([&](const Ts &...x) { ((s += (f ? "" : ","), s += TI<Ts>::json(x), f = false), ...); }, v); return s + "]"; }
    static std::tuple<Ts...> gen() { return std::tuple<Ts...>{TI<Ts>::gen()...}; } };
template <class K, class V> struct TI<std::map<K, V>> {
    static const int depth = 2;
    static std::string desc() { return "{\"k\":\"map\",\"a\":" + TI<K>::desc() + ",\"b\":" + TI<V>::desc() + "}"; }
    static std::string json(const std::map<K, V> &v) { std::string s = "["; bool f = true; for (auto &kv : v) { if (!f) s += ","; f = false; s += "[" + TI<K>::json(kv.first) + "," + TI<V>::json(kv.second) + "]"; } return s + "]"; }
    static std::map<K, V> gen() { std::map<K, V> m; size_t n = rlen(); for (size_t i = 0; i < n; ++i) m.insert({TI<K>::gen(), TI<V>::gen()}); return m; } };
#define STRUCT3(S, T1, f1, T2, f2, T3, f3) template <> struct TI<S> { \
    static const int depth = (TI<T1>::depth > TI<T2>::depth ? TI<T1>::depth : TI<T2>::depth) > TI<T3>::depth ? (TI<T1>::depth > TI<T2>::depth ? TI<T1>::depth : TI<T2>::depth) : TI<T3>::depth; \
    static std::string desc() { return "{\"k\":\"struct\",\"ts\":[" + TI<T1>::desc() + "," + TI<T2>::desc() + "," + TI<T3>::desc() + "]}"; } \
    static std::string json(const S &v) { return "[" + TI<T1>::json(v.f1) + "," + TI<T2>::json(v.f2) + "," + TI<T3>::json(v.f3) + "]"; } \
    static S gen() { S s; s.f1 = TI<T1>::gen(); s.f2 = TI<T2>::gen(); s.f3 = TI<T3>::gen(); return s; } };
STRUCT3(PtA, int32_t, x, uint8_t, tag, double, w)
STRUCT3(NestA, std::string, name, std::vector<int16_t>, vals, PtA, p)
STRUCT3(OwnA, std::vector<int16_t>, items, M88, idx, uint8_t, id)
STRUCT3(PtB, int32_t, x, uint8_t, tag, double, w)
STRUCT3(NestB, std::vector<int16_t>, vals, PtB, p, uint16_t, n)

template <class Fw, class T> static void one(int idx) {
    T v1 = TI<T>::gen(), v2 = TI<T>::gen();
    std::string b1 = Fw::template ser<T>(v1), b2 = Fw::template ser<T>(v2);
    // decode from exactly sized heap copies
    char *c1 = (char *)malloc(b1.size() ? b1.size() : 1); memcpy(c1, b1.data(), b1.size());
    auto d1 = Fw::template des<T>(c1, b1.size());
    std::string cc = b1 + b2; char *c2 = (char *)malloc(cc.size() ? cc.size() : 1); memcpy(c2, cc.data(), cc.size());
    auto d2 = Fw::template des2<T>(c2, cc.size());
    size_t ntr = 0; if (Fw::bounded && b1.size() <= 300 && TI<T>::depth <= 1) { Fw::template trunc<T>(b1.data(), b1.size()); ntr = b1.size(); }
    Ev e("Ser"); e.str("fw", Fw::name()).i("idx", idx).raw("type", TI<T>::desc()).raw("val", TI<T>::json(v1)).raw("val2", TI<T>::json(v2))
        .bytes("bytes", b1.data(), b1.size()).raw("dec", TI<T>::json(d1.first)).i("consumed", d1.second)
        .raw("cdec1", TI<T>::json(std::get<0>(d2))).raw("cdec2", TI<T>::json(std::get<1>(d2))).i("cconsumed", std::get<2>(d2)).i("clen", (long)cc.size()).i("truncations", (long)ntr);
    e.end(); free(c1); free(c2);
}

#define COMMA ,
typedef std::vector<std::string> VS;
#endif
