// C11 driver: compat strto*/ato*, qsort, bsearch (symbols renamed igv_*).
#include "common/vlog.h"
#include "common/sstep.h"
#include <stdint.h>
#include <inttypes.h>
using namespace vlog;
extern "C" {
long igv_strtol(const char *, char **, int); unsigned long igv_strtoul(const char *, char **, int);
long long igv_strtoll(const char *, char **, int); unsigned long long igv_strtoull(const char *, char **, int);
intmax_t igv_strtoimax(const char *, char **, int); uintmax_t igv_strtoumax(const char *, char **, int);
long igv_atol(const char *); int igv_atoi(const char *);
void igv_qsort(void *, size_t, size_t, int (*)(const void *, const void *));
void *igv_bsearch(const void *, const void *, size_t, size_t, int (*)(const void *, const void *));
void igv_srand(unsigned);
}
// elements: byte 0 = key, bytes 1..2 = id (little endian) when size >= 3, remaining bytes = pattern of id
static unsigned char *g_base; static size_t g_n, g_size; static const void *g_key; static int g_div;
static std::vector<long long> g_cmps;
static long where(const void *p) { if (p == g_key) return -1; long d = (const unsigned char *)p - g_base; if (d >= 0 && (size_t)d < g_n * g_size && d % (long)g_size == 0) return d / (long)g_size; return -2; }
static int cmp_elem(const void *a, const void *b) { g_cmps.push_back(where(a)); g_cmps.push_back(where(b)); int x = *(const unsigned char *)a / g_div, y = *(const unsigned char *)b / g_div; return (x > y) - (x < y); }
// bsearch comparator: first argument is the key object (an int), second an array element
static int cmp_key(const void *k, const void *e) { g_cmps.push_back(where(k)); g_cmps.push_back(where(e));
    int x, y; if (k == g_key) x = *(const int *)k / g_div; else x = *(const unsigned char *)k / g_div; if (e == g_key) y = *(const int *)e / g_div; else y = *(const unsigned char *)e / g_div; return (x > y) - (x < y); }
// re-entrant use ("QsortN" / "BsearchN"): every third comparison of the outer call sorts and searches another small array through the
// same library functions (a comparator that normalises its operands, a lookup inside a comparison); the last inner sort is logged as an
// event of its own
static const size_t IN_N = 9, IN_SZ = 4; static unsigned char in_blk[IN_N * IN_SZ]; static const unsigned char in_keys[IN_N] = {5, 3, 9, 3, 1, 8, 5, 0, 7}; static int g_nestc = 0; static bool g_nest = false, g_inner = false;
static int cmp_plain(const void *a, const void *b) { int x = *(const unsigned char *)a, y = *(const unsigned char *)b; return (x > y) - (x < y); }
static void fill(unsigned char *el, size_t size, int key, int id);
static void inner_sort() { for (size_t i = 0; i < IN_N; ++i) fill(in_blk + i * IN_SZ, IN_SZ, in_keys[i], (int)i); igv_qsort(in_blk, IN_N, IN_SZ, cmp_plain); unsigned char k = 8; igv_bsearch(&k, in_blk, IN_N, IN_SZ, cmp_plain); g_inner = true; }
static int cmp_elem_n(const void *a, const void *b) { int r = cmp_elem(a, b); if (g_nest && ++g_nestc % 3 == 0) inner_sort(); return r; }
static int cmp_key_n(const void *k, const void *e) { int r = cmp_key(k, e); if (g_nest && ++g_nestc % 3 == 0) inner_sort(); return r; }
static void fill(unsigned char *el, size_t size, int key, int id) { el[0] = key; for (size_t j = 1; j < size; ++j) el[j] = j == 1 ? (id & 255) : j == 2 ? (id >> 8) : (unsigned char)(id * 7 + j); }
static int id_of(const unsigned char *el, size_t size) { return size >= 3 ? el[1] | (el[2] << 8) : size == 2 ? el[1] : -1; }
static bool intact(const unsigned char *el, size_t size) { int id = id_of(el, size); for (size_t j = 3; j < size; ++j) if (el[j] != (unsigned char)(id * 7 + j)) return false; return true; }
int main(int argc, char **argv) {
    return run(argc, argv, [&](const std::vector<std::string> &t) {
        if (t[0] == "R") { igv_srand(t.size() > 1 ? num(t[1]) : 1); Ev e("Reset"); e.end(); return; }
        if (t[0] == "Strto") {   // Strto fn text base
            const std::string &fn = t[1]; auto tx = blist(t[2]); int base = num(t[3]); char *s = (char *)malloc(tx.size() + 1); memcpy(s, tx.data(), tx.size()); s[tx.size()] = 0; char *end = 0; unsigned long long v = 0; int w = 8;
            if (fn == "strtol") v = igv_strtol(s, &end, base); else if (fn == "strtoul") v = igv_strtoul(s, &end, base); else if (fn == "strtoll") v = igv_strtoll(s, &end, base); else if (fn == "strtoull") v = igv_strtoull(s, &end, base);
            else if (fn == "strtoimax") v = igv_strtoimax(s, &end, base); else if (fn == "strtoumax") v = igv_strtoumax(s, &end, base);
            else if (fn == "atol") { v = igv_atol(s); end = s; } else if (fn == "atoi") { v = (unsigned)igv_atoi(s); w = 4; end = s; }
            else { fprintf(stderr, "bad fn\n"); exit(3); }
            Ev e("Strto"); e.str("fn", fn.c_str()).bytes("text", tx.data(), tx.size()).i("base", base).le("val", v, w).i("endoff", (long)(end - s)); e.end(); free(s); return; }
        if (t[0] == "StrtoBig") {   // StrtoBig fn ch k tail base : the text is k copies of the character ch (white space or '0') followed by tail; k up to 2^31 and more
            // (texts of gigabytes: offsets and counts that do not fit 31 / 32 bits).  The buffer is kept between calls with the same ch and k.
            const std::string &fn = t[1]; int ch = num(t[2]); unsigned long long k = strtoull(t[3].c_str(), 0, 10); auto tl = blist(t[4]); int base = num(t[5]);
            { unsigned keep0 = g_op_timeout; if (keep0) { g_op_timeout = 900; watchdog(true); g_op_timeout = keep0; } }     // gigabytes to fill and to scan
            static char *big = 0; static unsigned long long bigk = 0; static int bigch = -1;
            if (!big || bigk != k || bigch != ch) { free(big); big = (char *)malloc(k + 64); if (!big) { perror("malloc"); exit(3); } memset(big, ch, k); bigk = k; bigch = ch; }
            memcpy(big + k, tl.data(), tl.size()); big[k + tl.size()] = 0;
            unsigned keep = g_op_timeout; if (keep) { g_op_timeout = 900; watchdog(true); g_op_timeout = keep; }
            char *end = 0; unsigned long long v = 0; int w = 8;
            if (fn == "strtol") v = igv_strtol(big, &end, base); else if (fn == "strtoul") v = igv_strtoul(big, &end, base); else if (fn == "strtoll") v = igv_strtoll(big, &end, base); else if (fn == "strtoull") v = igv_strtoull(big, &end, base);
            else if (fn == "strtoimax") v = igv_strtoimax(big, &end, base); else if (fn == "strtoumax") v = igv_strtoumax(big, &end, base);
            else if (fn == "atol") { v = igv_atol(big); end = big; } else if (fn == "atoi") { v = (unsigned)igv_atoi(big); w = 4; end = big; }
            else { fprintf(stderr, "bad fn\n"); exit(3); }
            long long eo = end - big;      // end offset, logged as two halves of 16 bits below 2^47 and a sign
            Ev e("StrtoBig"); e.str("fn", fn.c_str()).i("ch", ch).str("ks", t[3].c_str()).i("kh", (long long)(k >> 16)).i("kl", (long long)(k & 0xffff)).bytes("tail", tl.data(), tl.size()).i("base", base).le("val", v, w)
             .i("eneg", eo < 0 ? 1 : 0).i("eh", (long long)((eo < 0 ? -eo : eo) >> 16)).i("el", (long long)((eo < 0 ? -eo : eo) & 0xffff)); e.end(); return; }
        if (t[0] == "QsortI") {   // QsortI size div keys points : qsort interrupted at an instruction boundary by a complete qsort + bsearch of another array
            // (an interrupt or signal handler that sorts); about `points` evenly spread boundaries.  Both sorts are logged as ordinary Qsort events.
            size_t size = num(t[1]); g_div = num(t[2]); auto keys = blist(t[3]); size_t n = keys.size(); long points = t[4][0] == 'k' ? -atol(t[4].c_str() + 1) : num(t[4]);
            unsigned char *blk = (unsigned char *)malloc(n * size ? n * size : 1); g_base = blk; g_n = n; g_size = size; g_key = 0; g_nest = false;
            unsigned keep = g_op_timeout; if (keep) { g_op_timeout = 120; watchdog(true); g_op_timeout = keep; }
            auto prepare = [&] { for (size_t i = 0; i < n; ++i) fill(blk + i * size, size, keys[i], (int)i); g_cmps.clear(); g_cmps.reserve(65536); g_inner = false; igv_srand(7); };
            prepare(); igv_qsort(blk, n, size, cmp_elem); inner_sort();                       // first use (lazy binding)
            prepare(); long N = sstep::run(0, [&] { igv_qsort(blk, n, size, cmp_elem); }, [](void *) { inner_sort(); }, 0);
            long step = points < 0 ? N + 1 : N <= points ? 1 : (N + points - 1) / points;
            for (long k = points < 0 ? -points : 1 + (step > 1 ? (long)(n * 7 + size) % step : 0); k <= N; k += step) {
                prepare(); sstep::run(k, [&] { igv_qsort(blk, n, size, cmp_elem); }, [](void *) { inner_sort(); }, 0);
                if (!g_inner) break;
                std::string ln = "QsortI " + t[1] + " " + t[2] + " " + t[3] + " k" + std::to_string(k);
                { std::vector<long long> ak, ai, ok; for (size_t i = 0; i < n; ++i) { ak.push_back(blk[i * size]); ai.push_back(id_of(blk + i * size, size)); ok.push_back(intact(blk + i * size, size) ? 1 : 0); }
                  Ev e("Qsort"); e.i("size", size).i("div", g_div).bytes("keys", keys.data(), n).ints("akeys", ak).ints("aids", ai).ints("intact", ok).i("ncmp", g_cmps.size() / 2).i("nested", 0).i("nest", k).i("steps", N).str("nestline", ln.c_str()); e.end(); }
                { std::vector<long long> ak, ai, ok; for (size_t i = 0; i < IN_N; ++i) { ak.push_back(in_blk[i * IN_SZ]); ai.push_back(id_of(in_blk + i * IN_SZ, IN_SZ)); ok.push_back(intact(in_blk + i * IN_SZ, IN_SZ) ? 1 : 0); }
                  Ev e("Qsort"); e.i("size", (long)IN_SZ).i("div", 1).bytes("keys", in_keys, IN_N).ints("akeys", ak).ints("aids", ai).ints("intact", ok).i("ncmp", 0).i("inner", 1).i("nest", k).str("nestline", ln.c_str()); e.end(); }
            }
            free(blk); return; }
        if (t[0] == "Qsort" || t[0] == "Bsearch" || t[0] == "QsortN" || t[0] == "BsearchN") {   // Qsort size div keys      Bsearch size div keys key
            size_t size = num(t[1]); g_div = num(t[2]); auto keys = blist(t[3]); size_t n = keys.size();
            unsigned char *blk = (unsigned char *)malloc(n * size ? n * size : 1); g_base = blk; g_n = n; g_size = size; g_cmps.clear();
            for (size_t i = 0; i < n; ++i) fill(blk + i * size, size, keys[i], (int)i);
            g_nest = t[0] == "QsortN" || t[0] == "BsearchN"; g_nestc = 0; g_inner = false;
            if (t[0] == "Qsort" || t[0] == "QsortN") {
                g_key = 0; igv_qsort(blk, n, size, g_nest ? cmp_elem_n : cmp_elem);
                std::vector<long long> ak, ai, ok; for (size_t i = 0; i < n; ++i) { ak.push_back(blk[i * size]); ai.push_back(id_of(blk + i * size, size)); ok.push_back(intact(blk + i * size, size) ? 1 : 0); }
                Ev e("Qsort"); e.i("size", size).i("div", g_div).bytes("keys", keys.data(), n).ints("akeys", ak).ints("aids", ai).ints("intact", ok).i("ncmp", g_cmps.size() / 2).i("nested", g_nest ? 1 : 0); e.end();
            } else {
                int *key = (int *)malloc(sizeof(int)); *key = num(t[4]); g_key = key; void *r = igv_bsearch(key, blk, n, size, g_nest ? cmp_key_n : cmp_key);
                Ev e("Bsearch"); e.i("size", size).i("div", g_div).bytes("keys", keys.data(), n).i("key", *key).i("ret", r ? where(r) : -1).ints("cmps", g_cmps).i("nested", g_nest ? 1 : 0); e.end(); free(key);
            }
            if (g_inner) {   // the last inner sort, judged like any other
                std::vector<long long> ak, ai, ok; for (size_t i = 0; i < IN_N; ++i) { ak.push_back(in_blk[i * IN_SZ]); ai.push_back(id_of(in_blk + i * IN_SZ, IN_SZ)); ok.push_back(intact(in_blk + i * IN_SZ, IN_SZ) ? 1 : 0); }
                Ev e("Qsort"); e.i("size", (long)IN_SZ).i("div", 1).bytes("keys", in_keys, IN_N).ints("akeys", ak).ints("aids", ai).ints("intact", ok).i("ncmp", 0).i("inner", 1); e.end(); }
            g_nest = false; free(blk); return; }
        fprintf(stderr, "bad op\n"); exit(3);
    });
}
