// Nested calls at instruction granularity (x86-64 Linux).  sstep::run(k, outer, inner) executes outer() with the CPU's trap
// flag set: every instruction of it raises SIGTRAP; the handler counts them and, at the k-th, calls inner() on the same
// stack - exactly what an interrupt handler or a signal handler that uses the same library function does to a call that
// is in progress.  Returns the number of instructions outer() took.  k <= 0: count only.
// The kernel clears the trap flag while the handler runs and restores it on return, so inner() runs at full speed.
#ifndef VERIF_SSTEP_H
#define VERIF_SSTEP_H
#include <signal.h>
#include <string.h>
#if !defined(__x86_64__) || !defined(__linux__)
#error "sstep.h needs x86-64 Linux"
#endif
namespace sstep {
inline volatile long g_count = 0, g_k = 0;
inline volatile int g_armed = 0;
inline void (*g_inner)(void *) = 0;
inline void *g_arg = 0;
inline bool g_installed = false;
static void on_trap(int, siginfo_t *, void *) {
    if (!g_armed) return;
    long c = ++g_count;
    if (c == g_k) { g_armed = 0; g_inner(g_arg); g_armed = 1; }
}
inline void install() {
    if (g_installed) return;
    struct sigaction sa; memset(&sa, 0, sizeof sa); sa.sa_sigaction = on_trap; sa.sa_flags = SA_SIGINFO; sigemptyset(&sa.sa_mask);
    sigaction(SIGTRAP, &sa, 0); g_installed = true;
}
// (the 128 bytes skipped are the red zone the compiler may be using below the stack pointer)
#define SSTEP_TF_ON()  asm volatile("lea -128(%%rsp),%%rsp\n\tpushfq\n\torq $0x100,(%%rsp)\n\tpopfq\n\tlea 128(%%rsp),%%rsp" ::: "memory", "cc")
#define SSTEP_TF_OFF() asm volatile("lea -128(%%rsp),%%rsp\n\tpushfq\n\tandq $~0x100,(%%rsp)\n\tpopfq\n\tlea 128(%%rsp),%%rsp" ::: "memory", "cc")
template <class F> long run(long k, F &&outer, void (*inner)(void *), void *arg) {
    install();
    g_count = 0; g_k = k; g_inner = inner; g_arg = arg; g_armed = 1;
    SSTEP_TF_ON();
    outer();
    SSTEP_TF_OFF();
    g_armed = 0;
    return g_count;
}
} // namespace sstep
#endif
