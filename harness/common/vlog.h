// Minimal ndjson event writer + script reader shared by all drivers.
// Drivers are dumb executors: they call the real igris code and log what they
// observe.  They never compare an observation with an expectation.
#ifndef VERIF_VLOG_H
#define VERIF_VLOG_H
#include <cstdio>
#include <cstdlib>
#include <cstring>
#include <string>
#include <vector>
#include <unistd.h>
#include <stdint.h>

#include <signal.h>
#include <sys/time.h>
#include <fcntl.h>
namespace vlog {
inline int g_fd = -1;
inline std::string g_buf;
inline void flush() { size_t off = 0; while (off < g_buf.size()) { ssize_t w = ::write(g_fd, g_buf.data() + off, g_buf.size() - off); if (w <= 0) break; off += (size_t)w; } g_buf.clear(); }
// the script line being executed (for the record a dying driver leaves behind)
inline const char *g_cur_text = 0, *g_reset_text = 0;
inline void mark_line() { if (g_cur_text) { g_buf += "{\"e\":\"AtLine\",\"text\":\""; for (const char *p = g_cur_text; *p; ++p) if (*p != '"' && *p != '\\' && (unsigned char)*p >= 32) g_buf += *p; g_buf += "\",\"reset\":\""; for (const char *p = g_reset_text ? g_reset_text : ""; *p; ++p) if (*p != '"' && *p != '\\' && (unsigned char)*p >= 32) g_buf += *p; g_buf += "\"}\n"; } }
// events are buffered; a dying driver flushes what it has (sanitizer callback / fatal signal)
static void on_fatal(int sig) { mark_line(); flush(); signal(sig, SIG_DFL); raise(sig); }
inline void open(const char *path) {
    g_fd = ::open(path, O_WRONLY | O_CREAT | O_TRUNC, 0644); if (g_fd < 0) { perror("trace"); exit(3);} 
    g_buf.reserve(1 << 20);
    int sigs[] = {SIGSEGV, SIGABRT, SIGBUS, SIGFPE, SIGALRM, SIGPROF, SIGILL, SIGTERM};
    for (int s : sigs) signal(s, on_fatal);
}
struct Ev {
    std::string s;
    explicit Ev(const char *name) { s = "{\"e\":\""; s += name; s += "\""; }
    Ev &i(const char *k, long long v) { s += ",\""; s += k; s += "\":"; s += std::to_string(v); return *this; }
    Ev &b(const char *k, bool v) { s += ",\""; s += k; s += "\":"; s += (v ? "true" : "false"); return *this; }
    Ev &str(const char *k, const char *v) { s += ",\""; s += k; s += "\":\""; s += v; s += "\""; return *this; }
    // byte array (each element 0..255)
    Ev &bytes(const char *k, const void *p, size_t n) {
        const unsigned char *u = (const unsigned char *)p;
        s += ",\""; s += k; s += "\":[";
        for (size_t j = 0; j < n; ++j) { if (j) s += ","; s += std::to_string((unsigned)u[j]); }
        s += "]"; return *this;
    }
    template <class It> Ev &ints(const char *k, It b, It e) {
        s += ",\""; s += k; s += "\":["; bool first = true;
        for (; b != e; ++b) { if (!first) s += ","; first = false; s += std::to_string((long long)*b); }
        s += "]"; return *this;
    }
    Ev &ints(const char *k, const std::vector<long long> &v) { return ints(k, v.begin(), v.end()); }
    Ev &raw(const char *k, const std::string &json) { s += ",\""; s += k; s += "\":"; s += json; return *this; }
    // little-endian byte image of a wide integer (TLC integers are 32 bit)
    Ev &le(const char *k, unsigned long long v, int nbytes) {
        unsigned char t[8]; for (int j = 0; j < 8; ++j) t[j] = (unsigned char)(v >> (8 * j));
        return bytes(k, t, nbytes);
    }
    void end() { s += "}\n"; g_buf += s; if (g_buf.size() > (1 << 19)) flush(); }
};
inline void done() { Ev("Done").end(); flush(); ::close(g_fd); }

// ---- script: lines of whitespace-separated tokens; lists are a,b,c or '-' ----
struct Line { std::vector<std::string> t; std::string raw; };
inline std::vector<Line> read_script(const char *path) {
    std::vector<Line> out; FILE *f = fopen(path, "r"); if (!f) { perror("script"); exit(3);} 
    char *buf = nullptr; size_t cap = 0; ssize_t n;
    while ((n = getline(&buf, &cap, f)) > 0) {
        Line l; char *save = nullptr; l.raw.assign(buf, (size_t)n); while (!l.raw.empty() && (l.raw.back() == '\n' || l.raw.back() == '\r')) l.raw.pop_back();
        for (char *tok = strtok_r(buf, " \t\r\n", &save); tok; tok = strtok_r(nullptr, " \t\r\n", &save)) l.t.push_back(tok);
        if (!l.t.empty()) out.push_back(l);
    }
    free(buf); fclose(f); return out;
}
inline std::vector<long long> list(const std::string &s) {
    std::vector<long long> v; if (s == "-" || s.empty()) return v;
    size_t i = 0; while (i < s.size()) { size_t j = s.find(',', i); if (j == std::string::npos) j = s.size(); v.push_back(atoll(s.substr(i, j - i).c_str())); i = j + 1; }
    return v;
}
inline std::vector<unsigned char> blist(const std::string &s) { auto v = list(s); return std::vector<unsigned char>(v.begin(), v.end()); }
inline long long num(const std::string &s) { return atoll(s.c_str()); }

// Watchdog per script line: g_op_timeout seconds of CPU time (a busy hang; insensitive to a loaded machine) and
// 15 times as much wall-clock time (a blocked hang).  VERIF_OP_TIMEOUT=0 disables both.
inline unsigned g_op_timeout = 2;
inline void watchdog(bool on) {
    struct itimerval it; memset(&it, 0, sizeof it); it.it_value.tv_sec = on ? g_op_timeout : 0; setitimer(ITIMER_PROF, &it, 0);
    alarm(on ? g_op_timeout * 15 : 0);
}
// Standard driver main loop: skip `skip` executions (lines starting with R), then feed lines.
template <class F> int run(int argc, char **argv, F &&on_line) {
    if (argc < 3) { fprintf(stderr, "usage: %s script trace [skip]\n", argv[0]); return 3; }
    auto sc = read_script(argv[1]); open(argv[2]);
    long skip = argc > 3 ? atol(argv[3]) : 0; long seen = 0;
    g_op_timeout = getenv("VERIF_OP_TIMEOUT") ? atoi(getenv("VERIF_OP_TIMEOUT")) : 2;
    for (auto &l : sc) {
        if (l.t[0] == "R") { ++seen; g_reset_text = l.raw.c_str(); }
        if (seen <= skip) continue;
        g_cur_text = l.raw.c_str();
        watchdog(true);               // a call that does not return is a Fault{timeout}
        on_line(l.t);
        watchdog(false);
    }
    done(); return 0;
}
} // namespace vlog
// default (no-op) sink of the IGRIS_VERIF_POINT hooks; drv_sync.cpp overrides it
#ifndef VLOG_OWN_HOOK_SINK
extern "C" __attribute__((weak)) void igris_verif_point(const char *, const void *, long) {}
#endif
// called by the ASan / UBSan runtime before it reports and dies (defined once per driver)
#ifndef VLOG_NO_SANITIZER_HOOKS
extern "C" void __asan_on_error() { vlog::mark_line(); vlog::flush(); }
extern "C" void __ubsan_on_report() { vlog::flush(); }
#endif
#endif
