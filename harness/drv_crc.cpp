// C17 driver: CRC routines on exactly sized heap blocks at every alignment.
#include "common/vlog.h"
#include <igris/util/crc.h>
extern "C" uint8_t igris_crc8_table(const uint8_t *addr, uint8_t len, uint8_t crc_init);
using namespace vlog;
static unsigned long long call(const std::string &fn, const unsigned char *p, size_t n, unsigned long long seed) {
    if (fn == "strm8") { uint8_t c = (uint8_t)seed; for (size_t i = 0; i < n; ++i) igris_strmcrc8(&c, (char)p[i]); return c; }
    if (fn == "dallas") return igris_crc8(p, (uint8_t)n, (uint8_t)seed);
    if (fn == "dallas_table") return igris_crc8_table(p, (uint8_t)n, (uint8_t)seed);
    if (fn == "crc16") return igris_crc16(p, (uint16_t)n, (uint16_t)seed);
    if (fn == "crc7") return igris_mmc_crc7(p, (uint8_t)n);
    if (fn == "crc32") return igris_crc32(p, (uint32_t)n, (uint32_t)seed);
    fprintf(stderr, "bad fn\n"); exit(3);
}
static int width(const std::string &fn) { return fn == "crc16" ? 2 : fn == "crc32" ? 4 : 1; }
// data placed so that it ends exactly at the end of a heap block and starts at address = off (mod 8)
struct Blk { unsigned char *base, *p; Blk(const std::vector<unsigned char> &d, int off) { size_t n = d.size(); size_t pad = ((off - (int)(n % 8)) % 8 + 8) % 8;
    base = (unsigned char *)malloc(pad + n ? pad + n : 1); p = base + pad; memcpy(p, d.data(), n); } ~Blk() { free(base); } };
int main(int argc, char **argv) {
    return run(argc, argv, [&](const std::vector<std::string> &t) {
        if (t[0] == "R") { Ev e("Reset"); e.end(); return; }
        // Crc fn seed(list LE) data align cut
        const std::string &fn = t[1]; auto sd = blist(t[2]); auto d = blist(t[3]); int off = num(t[4]); long cut = num(t[5]);
        unsigned long long seed = 0; for (size_t i = 0; i < sd.size(); ++i) seed |= (unsigned long long)sd[i] << (8 * i);
        unsigned long long one, two;
        { Blk b(d, off); one = call(fn, b.p, d.size(), seed); }
        { std::vector<unsigned char> a(d.begin(), d.begin() + cut), c(d.begin() + cut, d.end()); Blk ba(a, off), bc(c, (off + cut) % 8);
          unsigned long long mid = call(fn, ba.p, a.size(), seed); two = call(fn, bc.p, c.size(), fn == "crc7" ? 0 : mid); }
        Ev e("Crc"); e.str("fn", fn.c_str()).bytes("seed", sd.data(), sd.size()).bytes("data", d.data(), d.size()).i("off", off).i("cut", cut).le("ret", one, width(fn)).le("chunked", two, width(fn)); e.end();
    });
}
