// C17 driver: CRC routines on exactly sized heap blocks at every alignment.
#include "common/vlog.h"
#include "common/sstep.h"
#include <igris/util/crc.h>
#include <sys/mman.h>
extern "C" uint8_t igris_crc8_table(const uint8_t *addr, uint8_t len, uint8_t crc_init);
using namespace vlog;
static unsigned long long call(const std::string &fn, const unsigned char *p, size_t n, unsigned long long seed) {
    if (fn == "strm8") { uint8_t c = (uint8_t)seed; for (size_t i = 0; i < n; ++i) igris_strmcrc8(&c, (char)p[i]); return c; }
    if (fn == "dallas") return igris_crc8(p, (uint8_t)n, (uint8_t)seed);
    if (fn == "dallas_table") return igris_crc8_table(p, (uint8_t)n, (uint8_t)seed);
    if (fn == "crc16") return igris_crc16(p, (uint16_t)n, (uint16_t)seed);
    if (fn == "crc7") return igris_mmc_crc7(p, (uint8_t)n);
    if (fn == "crc32") return igris_crc32(p, (uint32_t)n, (uint32_t)seed);
    fprintf(stderr, "bad fn\n"); exit(3);
}
// one CRC call selected by an index (for the single-stepped calls)
static const char *CRCFN[] = {"dallas", "dallas_table", "crc16", "crc7", "crc32", "strm8"};
static int crc_index(const std::string &fn) { for (unsigned i = 0; i < 6; ++i) if (fn == CRCFN[i]) return (int)i; return -1; }
static unsigned long long call_i(int fi, const unsigned char *p, size_t n, unsigned long long seed) {
    switch (fi) { case 0: return igris_crc8(p, (uint8_t)n, (uint8_t)seed); case 1: return igris_crc8_table(p, (uint8_t)n, (uint8_t)seed); case 2: return igris_crc16(p, (uint16_t)n, (uint16_t)seed);
        case 3: return igris_mmc_crc7(p, (uint8_t)n); case 4: return igris_crc32(p, (uint32_t)n, (uint32_t)seed);
        default: { uint8_t c = (uint8_t)seed; for (size_t i = 0; i < n; ++i) igris_strmcrc8(&c, (char)p[i]); return c; } } }
struct CrcIn { int fi; const unsigned char *p; size_t n; unsigned long long seed, r; bool ran; };
static void crc_inner(void *q) { CrcIn *x = (CrcIn *)q; x->r = call_i(x->fi, x->p, x->n, x->seed); x->ran = true; }
static int width(const std::string &fn) { return fn == "crc16" ? 2 : fn == "crc32" ? 4 : 1; }
// data placed so that it ends exactly at the end of a heap block and starts at address = off (mod 8)
struct Blk { unsigned char *base, *p; Blk(const std::vector<unsigned char> &d, int off) { size_t n = d.size(); size_t pad = ((off - (int)(n % 8)) % 8 + 8) % 8;
    base = (unsigned char *)malloc(pad + n ? pad + n : 1); p = base + pad; memcpy(p, d.data(), n); } ~Blk() { free(base); } };
int main(int argc, char **argv) {
    return run(argc, argv, [&](const std::vector<std::string> &t) {
        if (t[0] == "R") { Ev e("Reset"); e.end(); return; }
        if (t[0] == "CrcBig") {   // CrcBig seed(list LE) length head tail : CRC-32 of a message of `length` bytes (up to 2^32-1) that is zero except for its
            // first |head| and last |tail| bytes; it lives in lazily committed address space and ends exactly at the end of the mapping
            auto sd = blist(t[1]); unsigned long long len = strtoull(t[2].c_str(), 0, 10); auto hd = blist(t[3]), tl = blist(t[4]);
            unsigned long long seed = 0; for (size_t i = 0; i < sd.size(); ++i) seed |= (unsigned long long)sd[i] << (8 * i);
            size_t span = ((len + 4095) / 4096 + 1) * 4096; unsigned char *base = (unsigned char *)mmap(nullptr, span, PROT_READ | PROT_WRITE, MAP_PRIVATE | MAP_ANONYMOUS | MAP_NORESERVE, -1, 0);
            if (base == (unsigned char *)MAP_FAILED) { perror("mmap"); exit(3); }
            unsigned char *msg = base + (span - len); memcpy(msg, hd.data(), hd.size()); memcpy(msg + len - tl.size(), tl.data(), tl.size());
            unsigned keep = g_op_timeout; if (keep) { g_op_timeout = 900; watchdog(true); g_op_timeout = keep; }       // gigabytes take a while
            unsigned long long r = igris_crc32(msg, (uint32_t)len, (uint32_t)seed);
            munmap(base, span);
            unsigned long long nz = len - hd.size() - tl.size();
            Ev e("CrcBig"); e.bytes("seed", sd.data(), sd.size()).str("len", t[2].c_str()).bytes("head", hd.data(), hd.size()).bytes("tail", tl.data(), tl.size()).i("nzh", (long long)(nz >> 16)).i("nzl", (long long)(nz & 0xffff)).le("ret", r, 4); e.end();
            return; }
        if (t[0] == "CrcI") {   // CrcI fn seed data fn2 seed2 data2 points : the call fn(data, seed) interrupted at an instruction boundary by a complete call
            // fn2(data2, seed2) (an interrupt handler that checks a frame while the main program computes a CRC); both logged as ordinary Crc events
            const std::string &fn = t[1], &fn2 = t[4]; auto sd = blist(t[2]), d = blist(t[3]), sd2 = blist(t[5]), d2 = blist(t[6]); long points = num(t[7]);
            unsigned long long seed = 0, seed2 = 0; for (size_t i = 0; i < sd.size(); ++i) seed |= (unsigned long long)sd[i] << (8 * i); for (size_t i = 0; i < sd2.size(); ++i) seed2 |= (unsigned long long)sd2[i] << (8 * i);
            int fi = crc_index(fn), fi2 = crc_index(fn2); if (fi < 0 || fi2 < 0) { fprintf(stderr, "bad CrcI fn\n"); exit(3); }
            Blk b(d, 0), b2(d2, 3); unsigned long long r = 0; CrcIn in{fi2, b2.p, d2.size(), seed2, 0, false};
            unsigned keep = g_op_timeout; if (keep) { g_op_timeout = 60; watchdog(true); g_op_timeout = keep; }
            call_i(fi, b.p, d.size(), seed); crc_inner(&in); in.ran = false;
            long N = sstep::run(0, [&] { r = call_i(fi, b.p, d.size(), seed); }, crc_inner, &in);
            long step = N <= points ? 1 : (N + points - 1) / points; bool have = false; unsigned long long pr = 0, pr2 = 0;
            for (long k = 1; k <= N; k += step) {
                in.ran = false; in.r = 0; r = 0; sstep::run(k, [&] { r = call_i(fi, b.p, d.size(), seed); }, crc_inner, &in);
                if (!in.ran) break;
                if (have && r == pr && in.r == pr2) continue;
                have = true; pr = r; pr2 = in.r;
                Ev e("Crc"); e.str("fn", fn.c_str()).bytes("seed", sd.data(), sd.size()).bytes("data", d.data(), d.size()).i("off", 0).i("cut", 0).le("ret", r, width(fn)).le("chunked", r, width(fn)).i("nest", k); e.end();
                Ev f("Crc"); f.str("fn", fn2.c_str()).bytes("seed", sd2.data(), sd2.size()).bytes("data", d2.data(), d2.size()).i("off", 3).i("cut", 0).le("ret", in.r, width(fn2)).le("chunked", in.r, width(fn2)).i("nest", k).str("role", "interrupting"); f.end();
            }
            return; }
        if (t[0] == "CrcReuse") {   // CrcReuse fn seed(list LE) dataA dataB align : one buffer; the CRC of its contents A, then the buffer is overwritten in
            // place with B (same length) and the CRC is taken again through the same pointer, length and seed - direct calls in one function,
            // as a caller that reuses a packet buffer makes them
            const std::string &fn = t[1]; auto sd = blist(t[2]); auto A = blist(t[3]), B = blist(t[4]); int off = num(t[5]);
            unsigned long long seed = 0; for (size_t i = 0; i < sd.size(); ++i) seed |= (unsigned long long)sd[i] << (8 * i);
            Blk b(A, off); unsigned char *p = b.p; size_t n = A.size(); unsigned long long r1 = 0, r2 = 0;
            if (fn == "dallas") { r1 = igris_crc8(p, (uint8_t)n, (uint8_t)seed); memcpy(p, B.data(), n); r2 = igris_crc8(p, (uint8_t)n, (uint8_t)seed); }
            else if (fn == "dallas_table") { r1 = igris_crc8_table(p, (uint8_t)n, (uint8_t)seed); memcpy(p, B.data(), n); r2 = igris_crc8_table(p, (uint8_t)n, (uint8_t)seed); }
            else if (fn == "crc16") { r1 = igris_crc16(p, (uint16_t)n, (uint16_t)seed); memcpy(p, B.data(), n); r2 = igris_crc16(p, (uint16_t)n, (uint16_t)seed); }
            else if (fn == "crc7") { r1 = igris_mmc_crc7(p, (uint8_t)n); memcpy(p, B.data(), n); r2 = igris_mmc_crc7(p, (uint8_t)n); }
            else if (fn == "crc32") { r1 = igris_crc32(p, (uint32_t)n, (uint32_t)seed); memcpy(p, B.data(), n); r2 = igris_crc32(p, (uint32_t)n, (uint32_t)seed); }
            else { fprintf(stderr, "bad fn\n"); exit(3); }
            Ev e("CrcReuse"); e.str("fn", fn.c_str()).bytes("seed", sd.data(), sd.size()).bytes("data", A.data(), n).bytes("data2", B.data(), n).i("off", off).le("ret", r1, width(fn)).le("ret2", r2, width(fn)); e.end();
            return; }
        // Crc fn seed(list LE) data align cut
        const std::string &fn = t[1]; auto sd = blist(t[2]); auto d = blist(t[3]); int off = num(t[4]); long cut = num(t[5]);
        unsigned long long seed = 0; for (size_t i = 0; i < sd.size(); ++i) seed |= (unsigned long long)sd[i] << (8 * i);
        unsigned long long one, two;
        { Blk b(d, off); one = call(fn, b.p, d.size(), seed); }
        { std::vector<unsigned char> a(d.begin(), d.begin() + cut), c(d.begin() + cut, d.end()); Blk ba(a, off), bc(c, (off + cut) % 8);
          unsigned long long mid = call(fn, ba.p, a.size(), seed); two = call(fn, bc.p, c.size(), fn == "crc7" ? 0 : mid); }
        Ev e("Crc"); e.str("fn", fn.c_str()).bytes("seed", sd.data(), sd.size()).bytes("data", d.data(), d.size()).i("off", off).i("cut", cut).le("ret", one, width(fn)).le("chunked", two, width(fn)); e.end();
    });
}
