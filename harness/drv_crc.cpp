// C17 driver: CRC routines on exactly sized heap blocks at every alignment.
#include "common/vlog.h"
#include <igris/util/crc.h>
#include <sys/mman.h>
extern "C" uint8_t igris_crc8_table(const uint8_t *addr, uint8_t len, uint8_t crc_init);
using namespace vlog;
static unsigned long long call(const std::string &fn, const unsigned char *p, size_t n, unsigned long long seed) {
    if (fn == "strm8") { uint8_t c = (uint8_t)seed; for (size_t i = 0; i < n; ++i) igris_strmcrc8(&c, (char)p[i]); return c; }
    if (fn == "dallas") return igris_crc8(p, (uint8_t)n, (uint8_t)seed);
    if (fn == "dallas_table") return igris_crc8_table(p, (uint8_t)n, (uint8_t)seed);
    if (fn == "crc16") return igris_crc16(p, (uint16_t)n, (uint16_t)seed);
    if (fn == "crc7") return igris_mmc_crc7(p, (uint8_t)n);
    if (fn == "crc32") return igris_crc32(p, (uint32_t)n, (uint32_t)seed);
    fprintf(stderr, "bad fn\n"); exit(3);
}
static int width(const std::string &fn) { return fn == "crc16" ? 2 : fn == "crc32" ? 4 : 1; }
// data placed so that it ends exactly at the end of a heap block and starts at address = off (mod 8)
struct Blk { unsigned char *base, *p; Blk(const std::vector<unsigned char> &d, int off) { size_t n = d.size(); size_t pad = ((off - (int)(n % 8)) % 8 + 8) % 8;
    base = (unsigned char *)malloc(pad + n ? pad + n : 1); p = base + pad; memcpy(p, d.data(), n); } ~Blk() { free(base); } };
int main(int argc, char **argv) {
    return run(argc, argv, [&](const std::vector<std::string> &t) {
        if (t[0] == "R") { Ev e("Reset"); e.end(); return; }
        if (t[0] == "CrcBig") {   // CrcBig seed(list LE) length head tail : CRC-32 of a message of `length` bytes (up to 2^32-1) that is zero except for its
            // first |head| and last |tail| bytes; it lives in lazily committed address space and ends exactly at the end of the mapping
            auto sd = blist(t[1]); unsigned long long len = strtoull(t[2].c_str(), 0, 10); auto hd = blist(t[3]), tl = blist(t[4]);
            unsigned long long seed = 0; for (size_t i = 0; i < sd.size(); ++i) seed |= (unsigned long long)sd[i] << (8 * i);
            size_t span = ((len + 4095) / 4096 + 1) * 4096; unsigned char *base = (unsigned char *)mmap(nullptr, span, PROT_READ | PROT_WRITE, MAP_PRIVATE | MAP_ANONYMOUS | MAP_NORESERVE, -1, 0);
            if (base == (unsigned char *)MAP_FAILED) { perror("mmap"); exit(3); }
            unsigned char *msg = base + (span - len); memcpy(msg, hd.data(), hd.size()); memcpy(msg + len - tl.size(), tl.data(), tl.size());
            unsigned keep = g_op_timeout; if (keep) { g_op_timeout = 900; watchdog(true); g_op_timeout = keep; }       // gigabytes take a while
            unsigned long long r = igris_crc32(msg, (uint32_t)len, (uint32_t)seed);
            munmap(base, span);
            unsigned long long nz = len - hd.size() - tl.size();
            Ev e("CrcBig"); e.bytes("seed", sd.data(), sd.size()).str("len", t[2].c_str()).bytes("head", hd.data(), hd.size()).bytes("tail", tl.data(), tl.size()).i("nzh", (long long)(nz >> 16)).i("nzl", (long long)(nz & 0xffff)).le("ret", r, 4); e.end();
            return; }
        if (t[0] == "CrcReuse") {   // CrcReuse fn seed(list LE) dataA dataB align : one buffer; the CRC of its contents A, then the buffer is overwritten in
            // place with B (same length) and the CRC is taken again through the same pointer, length and seed - direct calls in one function,
            // as a caller that reuses a packet buffer makes them
            const std::string &fn = t[1]; auto sd = blist(t[2]); auto A = blist(t[3]), B = blist(t[4]); int off = num(t[5]);
            unsigned long long seed = 0; for (size_t i = 0; i < sd.size(); ++i) seed |= (unsigned long long)sd[i] << (8 * i);
            Blk b(A, off); unsigned char *p = b.p; size_t n = A.size(); unsigned long long r1 = 0, r2 = 0;
            if (fn == "dallas") { r1 = igris_crc8(p, (uint8_t)n, (uint8_t)seed); memcpy(p, B.data(), n); r2 = igris_crc8(p, (uint8_t)n, (uint8_t)seed); }
            else if (fn == "dallas_table") { r1 = igris_crc8_table(p, (uint8_t)n, (uint8_t)seed); memcpy(p, B.data(), n); r2 = igris_crc8_table(p, (uint8_t)n, (uint8_t)seed); }
            else if (fn == "crc16") { r1 = igris_crc16(p, (uint16_t)n, (uint16_t)seed); memcpy(p, B.data(), n); r2 = igris_crc16(p, (uint16_t)n, (uint16_t)seed); }
            else if (fn == "crc7") { r1 = igris_mmc_crc7(p, (uint8_t)n); memcpy(p, B.data(), n); r2 = igris_mmc_crc7(p, (uint8_t)n); }
            else if (fn == "crc32") { r1 = igris_crc32(p, (uint32_t)n, (uint32_t)seed); memcpy(p, B.data(), n); r2 = igris_crc32(p, (uint32_t)n, (uint32_t)seed); }
            else { fprintf(stderr, "bad fn\n"); exit(3); }
            Ev e("CrcReuse"); e.str("fn", fn.c_str()).bytes("seed", sd.data(), sd.size()).bytes("data", A.data(), n).bytes("data2", B.data(), n).i("off", off).le("ret", r1, width(fn)).le("ret2", r2, width(fn)); e.end();
            return; }
        // Crc fn seed(list LE) data align cut
        const std::string &fn = t[1]; auto sd = blist(t[2]); auto d = blist(t[3]); int off = num(t[4]); long cut = num(t[5]);
        unsigned long long seed = 0; for (size_t i = 0; i < sd.size(); ++i) seed |= (unsigned long long)sd[i] << (8 * i);
        unsigned long long one, two;
        { Blk b(d, off); one = call(fn, b.p, d.size(), seed); }
        { std::vector<unsigned char> a(d.begin(), d.begin() + cut), c(d.begin() + cut, d.end()); Blk ba(a, off), bc(c, (off + cut) % 8);
          unsigned long long mid = call(fn, ba.p, a.size(), seed); two = call(fn, bc.p, c.size(), fn == "crc7" ? 0 : mid); }
        Ev e("Crc"); e.str("fn", fn.c_str()).bytes("seed", sd.data(), sd.size()).bytes("data", d.data(), d.size()).i("off", off).i("cut", cut).le("ret", one, width(fn)).le("chunked", two, width(fn)); e.end();
    });
}
