------------------------------- MODULE Lists -------------------------------
(***************************************************************************)
(* C01 - intrusive doubly linked lists:                                    *)
(*   flavor "c"   : igris/datastruct/dlist.h  (struct dlist_head)          *)
(*   flavor "cxx" : igris/container/dlist.h   (dlist_node / dlist<T>)      *)
(*                                                                         *)
(* Cells are list heads (0 .. nh-1) and nodes (nh .. nh+nn-1).             *)
(*                                                                         *)
(* Property layer - the reference: `cyc`, a set of cyclic sequences.  Every*)
(* live cell is in exactly one.  The reference list of head h is the tail  *)
(* of the cycle that starts with h; a singleton cycle is an unlinked node  *)
(* or an empty list; a cycle without a head is what the library leaves     *)
(* behind when a non-empty C++ list head is unlinked (splice into a        *)
(* non-empty destination).                                                 *)
(*                                                                         *)
(* Implementation-shaped layer: mem.n / mem.p - the next/prev pointers,    *)
(* updated by the exact assignment sequences of the code.  RefinementInv:  *)
(* the pointers are the successor/predecessor functions of `cyc`.          *)
(***************************************************************************)
EXTENDS Integers, Sequences, FiniteSets, TLC

CONSTANTS NHs, NNs        \* numbers of heads / nodes of the exhaustive configuration
VARIABLES flavor, nh, nn, \* fixed after Init (variables so that a trace can bind them)
          cyc, st, mem
vars == <<flavor, nh, nn, cyc, st, mem>>

Cells == 0 .. (nh + nn - 1)
Heads == 0 .. (nh - 1)
Nodes == nh .. (nh + nn - 1)
IsHead(c) == c < nh

\* ----- cyclic sequences ------------------------------------------------------
Elems(s) == {s[i] : i \in 1..Len(s)}
Pos(s, c) == CHOOSE i \in 1..Len(s) : s[i] = c
Rot(s, k) == SubSeq(s, k, Len(s)) \o SubSeq(s, 1, k-1)
MinOf(S) == CHOOSE x \in S : \A y \in S : x <= y
\* canonical rotation: head cell first if there is one, else the least cell
Canon(s) == LET hs == {c \in Elems(s) : IsHead(c)}
            IN Rot(s, Pos(s, IF hs # {} THEN MinOf(hs) ELSE MinOf(Elems(s))))
CycOf(C, c) == CHOOSE s \in C : c \in Elems(s)
Without(s, c) == SelectSeq(s, LAMBDA x : x # c)

\* reference operations on a set of cycles
RUnlink(C, c) ==
   LET s == CycOf(C, c) IN
   IF Len(s) = 1 THEN C ELSE (C \ {s}) \cup {Canon(Without(s, c)), <<c>>}
\* c is a singleton in C; a # c
RInsAfter(C, c, a) ==
   LET s == CycOf(C, a)  i == Pos(s, a) IN
   (C \ {s, <<c>>}) \cup {Canon(SubSeq(s, 1, i) \o <<c>> \o SubSeq(s, i+1, Len(s)))}
RInsBefore(C, c, a) ==
   LET s == CycOf(C, a)  i == Pos(s, a) IN
   (C \ {s, <<c>>}) \cup {Canon(SubSeq(s, 1, i-1) \o <<c>> \o SubSeq(s, i, Len(s)))}
\* every member of h's list becomes a singleton
RPopAll(C, h) ==
   LET s == CycOf(C, h) IN (C \ {s}) \cup {<<s[i]>> : i \in 1..Len(s)}

ListOf(C, h) == Tail(CycOf(C, h))
Linked(C, c) == Len(CycOf(C, c)) > 1
Succ(C, c) == LET s == CycOf(C, c) i == Pos(s, c) IN s[(i % Len(s)) + 1]
Pred(C, c) == LET s == CycOf(C, c) i == Pos(s, c) IN s[((i - 2) % Len(s)) + 1]

\* ----- pointer-level transcription -------------------------------------------
\* sequential assignment helpers: each returns the new memory
SetN(m, c, v) == [m EXCEPT !.n[c] = v]
SetP(m, c, v) == [m EXCEPT !.p[c] = v]

\* __dlist_add(lnk, next, prev): lnk->prev=prev; lnk->next=next; next->prev=lnk; prev->next=lnk
PAdd(m, lnk, next, prev) == SetN(SetP(SetN(SetP(m, lnk, prev), lnk, next), next, lnk), prev, lnk)
\* __dlist_del(prev, next): next->prev = prev; prev->next = next
PDel(m, prev, next) == SetN(SetP(m, next, prev), prev, next)
PInit(m, c) == SetP(SetN(m, c, c), c, c)
PAddNext(m, lnk, head) == PAdd(m, lnk, m.n[head], head)
PAddPrev(m, lnk, head) == PAdd(m, lnk, head, m.p[head])
\* dlist_node::unlink: if (is_linked()) { next->prev = prev; prev->next = next; next = prev = this; }
PUnlink(m, c) ==
   IF m.n[c] # c
   THEN LET m1 == SetP(m, m.n[c], m.p[c])
            m2 == SetN(m1, m1.p[c], m1.n[c])
        IN PInit(m2, c)
   ELSE m
\* move_prev_than(node): unlink(); old_prev = node->prev; node->prev = this;
\*                       old_prev->next = this; prev = old_prev; next = node;
PMovePrevThan(m, this, node) ==
   LET m0 == PUnlink(m, this)
       oldp == m0.p[node]
       m1 == SetP(m0, node, this)
       m2 == SetN(m1, oldp, this)
       m3 == SetP(m2, this, oldp)
   IN SetN(m3, this, node)
\* move_next_than(node): unlink(); old_next = node->next; node->next = this;
\*                       old_next->prev = this; next = old_next; prev = node;
PMoveNextThan(m, this, node) ==
   LET m0 == PUnlink(m, this)
       oldn == m0.n[node]
       m1 == SetN(m0, node, this)
       m2 == SetP(m1, oldn, this)
       m3 == SetN(m2, this, oldn)
   IN SetP(m3, this, node)
\* pop_front until empty
RECURSIVE PPopAll(_, _)
PPopAll(m, h) == IF m.n[h] = h THEN m ELSE PPopAll(PUnlink(m, m.n[h]), h)
\* unlink_and_move_all_nodes_from_other(oth): list.unlink(); if (oth.empty()) return; ...
PSplice(m, d, s) ==
   LET m0 == PUnlink(m, d) IN
   IF m0.n[s] = s THEN m0
   ELSE LET m1 == SetP(SetN(m0, d, m0.n[s]), d, m0.p[s])
            m2 == SetP(m1, m1.n[d], d)
            m3 == SetN(m2, m2.p[d], d)
        IN PInit(m3, s)

\* ----- state ----------------------------------------------------------------
Init == /\ flavor \in {"c", "cxx"} /\ nh \in NHs /\ nn \in NNs
        /\ cyc = {<<c>> : c \in 0..(nh+nn-1)}
        /\ st = [c \in 0..(nh+nn-1) |-> "live"]
        /\ mem = [n |-> [c \in 0..(nh+nn-1) |-> c], p |-> [c \in 0..(nh+nn-1) |-> c]]

Live(c) == st[c] = "live"
Fix == UNCHANGED <<flavor, nh, nn>>

\* ---- C++ flavour -------------------------------------------------------------
\* node.move_next_than(anchor) / list.move_next(obj, anchor) / move_front(obj)
MoveNext(n, a) ==
   /\ flavor = "cxx" /\ n \in Nodes /\ a \in Cells /\ Live(n) /\ Live(a) /\ Fix
   /\ cyc' = IF a = n THEN RUnlink(cyc, n) ELSE RInsAfter(RUnlink(cyc, n), n, a)
   /\ mem' = PMoveNextThan(mem, n, a) /\ UNCHANGED st
MovePrev(n, a) ==
   /\ flavor = "cxx" /\ n \in Nodes /\ a \in Cells /\ Live(n) /\ Live(a) /\ Fix
   /\ cyc' = IF a = n THEN RUnlink(cyc, n) ELSE RInsBefore(RUnlink(cyc, n), n, a)
   /\ mem' = PMovePrevThan(mem, n, a) /\ UNCHANGED st
\* unlink / pop(obj): harmless on an already unlinked node
Unlink(n) ==
   /\ flavor = "cxx" /\ n \in Nodes /\ Live(n) /\ Fix
   /\ cyc' = RUnlink(cyc, n) /\ mem' = PUnlink(mem, n) /\ UNCHANGED st
PopFront(h) ==
   /\ flavor = "cxx" /\ h \in Heads /\ Live(h) /\ Fix
   /\ cyc' = RUnlink(cyc, Succ(cyc, h)) /\ mem' = PUnlink(mem, mem.n[h]) /\ UNCHANGED st
PopBack(h) ==
   /\ flavor = "cxx" /\ h \in Heads /\ Live(h) /\ Fix
   /\ cyc' = RUnlink(cyc, Pred(cyc, h)) /\ mem' = PUnlink(mem, mem.p[h]) /\ UNCHANGED st
Clear(h) ==
   /\ flavor = "cxx" /\ h \in Heads /\ Live(h) /\ Fix
   /\ cyc' = RPopAll(cyc, h) /\ mem' = PPopAll(mem, h) /\ UNCHANGED st
\* d.unlink_and_move_all_nodes_from_other(std::move(s))
Splice(d, s) ==
   /\ flavor = "cxx" /\ d \in Heads /\ s \in Heads /\ d # s /\ Live(d) /\ Live(s) /\ Fix
   /\ cyc' = LET C0 == RUnlink(cyc, d)
                 src == CycOf(C0, s)
             IN IF Len(src) = 1 THEN C0
                ELSE (C0 \ {src, <<d>>}) \cup {<<d>> \o Tail(src), <<s>>}
   /\ mem' = PSplice(mem, d, s) /\ UNCHANGED st
DestroyNode(n) ==
   /\ flavor = "cxx" /\ n \in Nodes /\ Live(n) /\ Fix
   /\ cyc' = RUnlink(cyc, n) \ {<<n>>} /\ mem' = PUnlink(mem, n)
   /\ st' = [st EXCEPT ![n] = "dead"]
DestroyList(h) ==
   /\ flavor = "cxx" /\ h \in Heads /\ Live(h) /\ Fix
   /\ cyc' = RPopAll(cyc, h) \ {<<h>>} /\ mem' = PPopAll(mem, h)
   /\ st' = [st EXCEPT ![h] = "dead"]
\* placement-new of a destroyed node / list
Create(c) ==
   /\ flavor = "cxx" /\ c \in Cells /\ st[c] = "dead" /\ Fix
   /\ cyc' = cyc \cup {<<c>>} /\ mem' = PInit(mem, c) /\ st' = [st EXCEPT ![c] = "live"]

\* ---- C flavour ---------------------------------------------------------------
Free(c) == IF st[c] # "live" THEN TRUE ELSE ~Linked(cyc, c)     \* unlinked, poisoned or uninitialised
CInit(c) ==
   /\ flavor = "c" /\ c \in Cells /\ Free(c) /\ Fix
   /\ cyc' = cyc \cup {<<c>>} /\ mem' = PInit(mem, c) /\ st' = [st EXCEPT ![c] = "live"]
AddNext(n, a) ==
   /\ flavor = "c" /\ n \in Nodes /\ a \in Cells /\ a # n /\ Free(n) /\ Live(a) /\ Fix
   /\ cyc' = RInsAfter(cyc \cup {<<n>>}, n, a) /\ mem' = PAddNext(mem, n, a)
   /\ st' = [st EXCEPT ![n] = "live"]
AddPrev(n, a) ==
   /\ flavor = "c" /\ n \in Nodes /\ a \in Cells /\ a # n /\ Free(n) /\ Live(a) /\ Fix
   /\ cyc' = RInsBefore(cyc \cup {<<n>>}, n, a) /\ mem' = PAddPrev(mem, n, a)
   /\ st' = [st EXCEPT ![n] = "live"]
\* dlist_del: entry is poisoned afterwards
Del(n) ==
   /\ flavor = "c" /\ n \in Nodes /\ Live(n) /\ Fix
   /\ cyc' = RUnlink(cyc, n) \ {<<n>>} /\ mem' = PDel(mem, mem.p[n], mem.n[n])
   /\ st' = [st EXCEPT ![n] = "poison"]
DelInit(n) ==
   /\ flavor = "c" /\ n \in Nodes /\ Live(n) /\ Fix
   /\ cyc' = RUnlink(cyc, n) /\ mem' = PInit(PDel(mem, mem.p[n], mem.n[n]), n) /\ UNCHANGED st
\* dlist_move / dlist_move_tail: the entry may be linked anywhere (also next to
\* the anchor); anchor = the entry itself is outside the contract (as in Linux)
Move(n, a) ==
   /\ flavor = "c" /\ n \in Nodes /\ a \in Cells /\ a # n /\ Live(n) /\ Live(a) /\ Fix
   /\ cyc' = RInsAfter(RUnlink(cyc, n), n, a)
   /\ mem' = LET m0 == PDel(mem, mem.p[n], mem.n[n]) IN PAddNext(m0, n, a)
   /\ UNCHANGED st
MoveTail(n, a) ==
   /\ flavor = "c" /\ n \in Nodes /\ a \in Cells /\ a # n /\ Live(n) /\ Live(a) /\ Fix
   /\ cyc' = RInsBefore(RUnlink(cyc, n), n, a)
   /\ mem' = LET m0 == PDel(mem, mem.p[n], mem.n[n]) IN PAddPrev(m0, n, a)
   /\ UNCHANGED st
\* dlist_move_sorted(added, head, member, less): inserts the (unlinked) entry
\* before the first element that compares greater; key = cell number
SortedAnchor(C, n, h) ==
   LET lst == ListOf(C, h)
       gt == {i \in 1..Len(lst) : n < lst[i]}
   IN IF gt = {} THEN h ELSE lst[MinOf(gt)]
AddSorted(n, h) ==
   /\ flavor = "c" /\ n \in Nodes /\ h \in Heads /\ Free(n) /\ Live(h) /\ Fix
   /\ cyc' = RInsBefore(cyc \cup {<<n>>}, n, SortedAnchor(cyc, n, h))
   /\ mem' = PAddPrev(mem, n, SortedAnchor(cyc, n, h))
   /\ st' = [st EXCEPT ![n] = "live"]
\* dlist_insert_instead(iter, instead): iter takes the place of instead
InsertInstead(n, a) ==
   /\ flavor = "c" /\ n \in Nodes /\ a \in Nodes /\ a # n /\ Free(n) /\ Live(a) /\ Fix
   /\ cyc' = RUnlink(RInsBefore(cyc \cup {<<n>>}, n, a), a)
   /\ mem' = LET m0 == PAddPrev(mem, n, a) IN PInit(PDel(m0, m0.p[a], m0.n[a]), a)
   /\ st' = [st EXCEPT ![n] = "live"]

\* quantifier bounds are constant-level so that TLC splits Next into one
\* labelled action per call (the guards inside the actions restrict the cells)
MaxOf(S) == CHOOSE x \in S : \A y \in S : y <= x
AllC == 0 .. (MaxOf(NHs) + MaxOf(NNs) - 1)
Next == \/ \E n \in AllC, a \in AllC : MoveNext(n, a)
        \/ \E n \in AllC, a \in AllC : MovePrev(n, a)
        \/ \E n \in AllC : Unlink(n)
        \/ \E n \in AllC : DestroyNode(n)
        \/ \E h \in AllC : PopFront(h)
        \/ \E h \in AllC : PopBack(h)
        \/ \E h \in AllC : Clear(h)
        \/ \E h \in AllC : DestroyList(h)
        \/ \E d \in AllC, s \in AllC : Splice(d, s)
        \/ \E c \in AllC : Create(c)
        \/ \E c \in AllC : CInit(c)
        \/ \E n \in AllC, a \in AllC : AddNext(n, a)
        \/ \E n \in AllC, a \in AllC : AddPrev(n, a)
        \/ \E n \in AllC, a \in AllC : Move(n, a)
        \/ \E n \in AllC, a \in AllC : MoveTail(n, a)
        \/ \E n \in AllC : Del(n)
        \/ \E n \in AllC : DelInit(n)
        \/ \E n \in AllC, h \in AllC : AddSorted(n, h)
        \/ \E n \in AllC, a \in AllC : InsertInstead(n, a)

Spec == Init /\ [][Next]_vars

\* ----- the listed property ------------------------------------------------------
LiveCells == {c \in Cells : Live(c)}
\* reference well-formedness: the cycles partition the live cells, no duplicates
WellFormed ==
   /\ \A s \in cyc : Len(s) >= 1 /\ Cardinality(Elems(s)) = Len(s) /\ s = Canon(s)
   /\ \A s, t \in cyc : s # t => Elems(s) \cap Elems(t) = {}
   /\ UNION {Elems(s) : s \in cyc} = LiveCells
   /\ \A s \in cyc : Cardinality({c \in Elems(s) : IsHead(c)}) <= 1
\* pointers implement the reference: forward = list, backward = reverse,
\* neighbours point back, unlinked cells are self-linked
RefinementInv ==
   \A c \in LiveCells : /\ mem.n[c] = Succ(cyc, c) /\ mem.p[c] = Pred(cyc, c)
                        /\ mem.p[mem.n[c]] = c /\ mem.n[mem.p[c]] = c
\* a removed / destroyed cell is reachable from no list
Unreachable ==
   \A c \in Cells : ~Live(c) => \A d \in LiveCells : mem.n[d] # c /\ mem.p[d] # c
=============================================================================
