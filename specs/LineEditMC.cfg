CONSTANTS Caps = {2, 3}
          Depths = {1, 2}
SPECIFICATION Spec
INVARIANTS BoundsInv HistDistinct
