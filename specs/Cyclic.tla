------------------------------ MODULE Cyclic ------------------------------
(***************************************************************************)
(* C03 (second part) - ring_counter and igris::cyclic_buffer.              *)
(* Property layer: hist = the last n samples pushed (most recent last).    *)
(* Implementation-shaped layer: data[0..n-1] and the ring counter.         *)
(***************************************************************************)
EXTENDS Integers, Sequences, TLC

CONSTANTS Ns, Vals, MaxArg
VARIABLES kind,   \* "cb" = cyclic_buffer, "rc" = bare ring_counter
          n, hist, data, counter, ret
vars == <<kind, n, hist, data, counter, ret>>

Mod(i) == i % n
Last1(s, k) == IF Len(s) <= k THEN s ELSE SubSeq(s, Len(s) - k + 1, Len(s))

Init == /\ kind \in {"cb", "rc"} /\ n \in Ns /\ hist = <<>> /\ counter = 0
        /\ data = [i \in 0..(n-1) |-> 0] /\ ret = <<"init">>

\* cyclic_buffer::push(v): returns the sample that falls out (0 while filling)
Push(v) ==
   /\ kind = "cb" /\ UNCHANGED kind
   /\ ret' = <<"push", IF Len(hist) = n THEN hist[1] ELSE 0>>
   /\ hist' = Last1(Append(hist, v), n)
   /\ counter' = Mod(counter + 1)
   /\ data' = [data EXCEPT ![Mod(counter + 1)] = v]
   /\ UNCHANGED n

\* reference answer of operator[](i): the i-th previous sample (0 = latest)
RefIndex(h, i) == h[Len(h) - i]

\* ring_counter
Inc(a) == /\ kind = "rc" /\ UNCHANGED kind /\ counter' = Mod(counter + a) /\ ret' = <<"inc">> /\ UNCHANGED <<n, hist, data>>
SetC(v) == /\ kind = "rc" /\ UNCHANGED kind /\ counter' = Mod(v) /\ ret' = <<"set">> /\ UNCHANGED <<n, hist, data>>
CPrev(c, i) == (c - i) % n
CFixupPos(p) == p % n

Next == \/ \E v \in Vals : Push(v)
        \/ \E a \in 0..MaxArg : Inc(a)
        \/ \E a \in 0..MaxArg : SetC(a)

Spec == Init /\ [][Next]_vars

TypeOK == counter \in 0..(n-1) /\ Len(hist) <= n
\* i-th previous sample is found where the implementation looks for it
IndexInv == \A i \in 0..(Len(hist)-1) : data[CPrev(counter, i)] = RefIndex(hist, i)
\* counter laws: prev undoes increment; fix-up lands in range for any integer
CounterInv == /\ \A a \in 0..MaxArg : CPrev(Mod(counter + a), a) = counter
              /\ \A p \in (0 - 2*n)..(3*n) : CFixupPos(p) \in 0..(n-1) /\ (CFixupPos(p) - p) % n = 0
=============================================================================
