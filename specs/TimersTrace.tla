---------------------------- MODULE TimersTrace ----------------------------
(***************************************************************************)
(* Trace specification for C16.  Exec events carry the firing sequence the *)
(* real timer_manager produced; RefExec (property layer) accepts or        *)
(* rejects it, and the observable scheduler state afterwards (planned      *)
(* flags, finish times, emptiness, time to next deadline) must equal the   *)
(* reference state.  The implementation-shaped ImplExec is compared too    *)
(* (clause impl_order = model drift, never an alarm).                      *)
(***************************************************************************)
EXTENDS Timers, Judge
B2I(b) == IF b THEN 1 ELSE 0
MinOf(X) == CHOOSE x \in X : \A y \in X : x <= y
VARIABLES l, sync, kind, S2, now2
\* S2, now2: a second manager of the same type (its timers have no callback effects).  The two managers are independent: an exec of the
\* second one - also when it is called from inside a callback of the first (a fast tick manager driving a slow one) - fires exactly what is
\* due in the second and leaves the first alone.  Its events are logged where they happen, i.e. before the enclosing Exec event of the first.
tvars == <<l, sync, kind, S2, now2>>
EmptyS(n) == [list |-> <<>>, start |-> [t \in 1..n |-> 0], interval |-> [t \in 1..n |-> 1], cb |-> [t \in 1..n |-> <<"none">>]]
Obs2(s, tm) ==
   LET n == Len(s.start) IN
   [planned |-> [t \in 1..n |-> B2I(t \in Planned(s))],
    fin |-> [t \in 1..n |-> Deadline(s, t)],
    empty |-> B2I(Planned(s) = {}),
    mi |-> IF Planned(s) = {} THEN <<>> ELSE <<MinOf({Deadline(s, t) : t \in Planned(s)}) - tm>>]
Judge2(ev, s, tm) ==
   LET exp == Obs2(s, tm) mm == Mismatch(ev, exp)
   IN IF mm # {} THEN Flag(l, SetToSeq(mm), exp) /\ sync' = FALSE ELSE sync' = TRUE
Exec2Step(ev) ==
   LET j == RefExec(S2, ev.now, ev.fired) IN
   /\ now2' = ev.now /\ UNCHANGED vars
   /\ IF ~j.ok THEN Flag(l, <<j.clause>>, [second_manager |-> TRUE]) /\ sync' = FALSE /\ S2' = S2
      ELSE S2' = j.s /\ Judge2(ev, j.s, ev.now)

Obs(s, tm) ==
   [planned |-> [t \in 1..nt' |-> B2I(t \in Planned(s))],
    fin |-> [t \in 1..nt' |-> Deadline(s, t)],
    empty |-> B2I(Planned(s) = {}),
    mi |-> IF Planned(s) = {} THEN <<>> ELSE <<MinOf({Deadline(s, t) : t \in Planned(s)}) - tm>>]

JudgeTm(ev) ==
   LET exp == Obs(S', now') mm == Mismatch(ev, exp)
   IN IF mm # {} THEN Flag(l, SetToSeq(mm), exp) /\ sync' = FALSE ELSE sync' = TRUE
JudgeSt(ev, extra) ==
   LET exp == [sstart |-> sm'.start, sint |-> sm'.interval, splaned |-> sm'.planed] @@ extra
       mm == Mismatch(ev, exp)
   IN IF mm # {} THEN Flag(l, SetToSeq(mm), exp) /\ sync' = FALSE ELSE sync' = TRUE

EffOf(ev) == IF ev.k = "none" THEN <<"none">>
             ELSE IF ev.k = "exec2" THEN <<"exec2">>
             ELSE IF ev.k = "unplan" THEN <<"unplan", ev.k2>>
             ELSE <<"plan", ev.k2, ev.ds, ev.iv>>

ExecStep(ev) ==
   LET j == RefExec(S, ev.now, ev.fired)
       im == ImplExec(S, ev.now, <<>>)
   IN /\ now' = ev.now /\ UNCHANGED <<nt, sm>>
      /\ IF ~j.ok
         THEN /\ Flag(l, <<j.clause>>, [fired_by_impl_model |-> im.fired]) /\ sync' = FALSE /\ S' = S
         ELSE /\ S' = j.s
              /\ LET exp == Obs(j.s, ev.now) mm == Mismatch(ev, exp) IN
                 IF mm # {} THEN Flag(l, SetToSeq(mm), exp) /\ sync' = FALSE
                 ELSE IF im.fired # ev.fired THEN Flag(l, <<"impl_order">>, [fired |-> im.fired]) /\ sync' = TRUE
                 ELSE sync' = TRUE

Second(ev) == ev.e \in {"Plan2", "Unplan2", "Exec2", "Exec"}
Step1(ev) ==
   CASE ev.e = "Plan"   -> Plan(ev.t, ev.st, ev.iv) /\ JudgeTm(ev)
     [] ev.e = "Replan" -> Replan(ev.t) /\ JudgeTm(ev)
     [] ev.e = "Unplan" -> Unplan(ev.t) /\ JudgeTm(ev)
     [] ev.e = "SetCb"  -> SetCb(ev.t, EffOf(ev)) /\ JudgeTm(ev)
     [] ev.e = "Exec"   -> ExecStep(ev) /\ UNCHANGED <<S2, now2>>
     [] ev.e = "Plan2"  -> UNCHANGED <<vars, now2>> /\ S2' = PlanAt(S2, ev.t, ev.st, ev.iv) /\ Judge2(ev, S2', now2)
     [] ev.e = "Unplan2" -> UNCHANGED <<vars, now2>> /\ S2' = UnplanT(S2, ev.t) /\ Judge2(ev, S2', now2)
     [] ev.e = "Exec2"  -> Exec2Step(ev)
     [] ev.e = "SInit"  -> SInit(ev.st, ev.iv) /\ JudgeSt(ev, <<>>)
     [] ev.e = "SPlan"  -> SPlan(ev.st, ev.iv) /\ JudgeSt(ev, <<>>)
     [] ev.e = "SStart" -> SStart(ev.st) /\ JudgeSt(ev, <<>>)
     [] ev.e = "SSwift" -> SSwift /\ JudgeSt(ev, <<>>)
     [] ev.e = "SCheck" -> UNCHANGED vars /\
            JudgeSt(ev, [ret |-> B2I(SCheck(sm, ev.now)), periodic |-> B2I(SCheck(sm, ev.now)),
                         pstart |-> IF SCheck(sm, ev.now) THEN sm.start + sm.interval ELSE sm.start,
                         fin |-> sm.start + sm.interval])

Step(ev) ==
   /\ (~Second(ev) => UNCHANGED <<S2, now2>>)
   /\ Step1(ev)
TInit == /\ JInit /\ l = 1 /\ sync = FALSE /\ kind = "tm" /\ nt = 1 /\ now = 0 /\ S2 = EmptyS(0) /\ now2 = 0
         /\ S = [list |-> <<>>, start |-> [t \in 1..1 |-> 0], interval |-> [t \in 1..1 |-> 1], cb |-> [t \in 1..1 |-> <<"none">>]]
         /\ sm = [start |-> 0, interval |-> 1, planed |-> 0]
TNext ==
   /\ l <= NTrace /\ l' = l + 1 /\ Consumed(l)
   /\ LET ev == TraceLog[l] IN
      IF ev.e = "Reset" THEN
           /\ kind' = ev.kind /\ nt' = ev.nt /\ now' = 0
           /\ S' = [list |-> <<>>, start |-> [t \in 1..ev.nt |-> 0], interval |-> [t \in 1..ev.nt |-> 1],
                    cb |-> [t \in 1..ev.nt |-> <<"none">>]]
           /\ sm' = [start |-> 0, interval |-> 1, planed |-> 0]
           /\ S2' = EmptyS(IF "nt2" \in DOMAIN ev THEN ev.nt2 ELSE 0) /\ now2' = 0
           /\ IF ev.kind = "tm" THEN JudgeTm(ev) ELSE sync' = TRUE
      ELSE IF ~sync THEN UNCHANGED <<vars, sync, kind, S2, now2>>
      ELSE IF ev.e = "Fault" THEN Flag(l, <<"fault">>, [kind |-> ev.kind, where |-> ev.where]) /\ sync' = FALSE /\ UNCHANGED <<vars, kind, S2, now2>>
      ELSE UNCHANGED kind /\ Step(ev)
TSpec == TInit /\ [][TNext]_<<vars, tvars>>
Accepted == WriteVerdict
=============================================================================
