---- MODULE Ring_TTrace_1791138216 ----
EXTENDS Sequences, TLCExt, Ring, Toolbox, Naturals, TLC

_expression ==
    LET Ring_TEExpression == INSTANCE Ring_TEExpression
    IN Ring_TEExpression!expression
----

_trace ==
    LET Ring_TETrace == INSTANCE Ring_TETrace
    IN Ring_TETrace!trace
----

_inv ==
    ~(
        TLCGet("level") = Len(_TETrace)
        /\
        ret = (<<"putc", 1>>)
        /\
        head = (1)
        /\
        q = (<<0>>)
        /\
        size = (2)
        /\
        mem = ((0 :> 0 @@ 1 :> 0))
        /\
        tail = (0)
    )
----

_init ==
    /\ tail = _TETrace[1].tail
    /\ q = _TETrace[1].q
    /\ ret = _TETrace[1].ret
    /\ size = _TETrace[1].size
    /\ mem = _TETrace[1].mem
    /\ head = _TETrace[1].head
----

_next ==
    /\ \E i,j \in DOMAIN _TETrace:
        /\ \/ /\ j = i + 1
              /\ i = TLCGet("level")
        /\ tail  = _TETrace[i].tail
        /\ tail' = _TETrace[j].tail
        /\ q  = _TETrace[i].q
        /\ q' = _TETrace[j].q
        /\ ret  = _TETrace[i].ret
        /\ ret' = _TETrace[j].ret
        /\ size  = _TETrace[i].size
        /\ size' = _TETrace[j].size
        /\ mem  = _TETrace[i].mem
        /\ mem' = _TETrace[j].mem
        /\ head  = _TETrace[i].head
        /\ head' = _TETrace[j].head

\* Uncomment the ASSUME below to write the states of the error trace
\* to the given file in Json format. Note that you can pass any tuple
\* to `JsonSerialize`. For example, a sub-sequence of _TETrace.
    \* ASSUME
    \*     LET J == INSTANCE Json
    \*         IN J!JsonSerialize("Ring_TTrace_1791138216.json", _TETrace)

=============================================================================

 Note that you can extract this module `Ring_TEExpression`
  to a dedicated file to reuse `expression` (the module in the 
  dedicated `Ring_TEExpression.tla` file takes precedence 
  over the module `Ring_TEExpression` below).

---- MODULE Ring_TEExpression ----
EXTENDS Sequences, TLCExt, Ring, Toolbox, Naturals, TLC

expression == 
    [
        \* To hide variables of the `Ring` spec from the error trace,
        \* remove the variables below.  The trace will be written in the order
        \* of the fields of this record.
        tail |-> tail
        ,q |-> q
        ,ret |-> ret
        ,size |-> size
        ,mem |-> mem
        ,head |-> head
        
        \* Put additional constant-, state-, and action-level expressions here:
        \* ,_stateNumber |-> _TEPosition
        \* ,_tailUnchanged |-> tail = tail'
        
        \* Format the `tail` variable as Json value.
        \* ,_tailJson |->
        \*     LET J == INSTANCE Json
        \*     IN J!ToJson(tail)
        
        \* Lastly, you may build expressions over arbitrary sets of states by
        \* leveraging the _TETrace operator.  For example, this is how to
        \* count the number of times a spec variable changed up to the current
        \* state in the trace.
        \* ,_tailModCount |->
        \*     LET F[s \in DOMAIN _TETrace] ==
        \*         IF s = 1 THEN 0
        \*         ELSE IF _TETrace[s].tail # _TETrace[s-1].tail
        \*             THEN 1 + F[s-1] ELSE F[s-1]
        \*     IN F[_TEPosition - 1]
    ]

=============================================================================



Parsing and semantic processing can take forever if the trace below is long.
 In this case, it is advised to uncomment the module below to deserialize the
 trace from a generated binary file.

\*
\*---- MODULE Ring_TETrace ----
\*EXTENDS IOUtils, Ring, TLC
\*
\*trace == IODeserialize("Ring_TTrace_1791138216.bin", TRUE)
\*
\*=============================================================================
\*

---- MODULE Ring_TETrace ----
EXTENDS Ring, TLC

trace == 
    <<
    ([ret |-> <<"init">>,head |-> 0,q |-> <<>>,size |-> 2,mem |-> (0 :> 0 @@ 1 :> 0),tail |-> 0]),
    ([ret |-> <<"putc", 1>>,head |-> 1,q |-> <<0>>,size |-> 2,mem |-> (0 :> 0 @@ 1 :> 0),tail |-> 0])
    >>
----


=============================================================================

---- CONFIG Ring_TTrace_1791138216 ----
CONSTANTS
    Sizes = { 2 , 3 , 4 , 5 }
    Bytes = { 0 , 65 , 255 }
    MaxBulk = 2

INVARIANT
    _inv

CHECK_DEADLOCK
    \* CHECK_DEADLOCK off because of PROPERTY or INVARIANT above.
    FALSE

INIT
    _init

NEXT
    _next

CONSTANT
    _TETrace <- _trace

ALIAS
    _expression
=============================================================================
\* Generated on Sun Oct 04 18:23:37 UTC 2026