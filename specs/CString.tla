------------------------------ MODULE CString ------------------------------
(***************************************************************************)
(* C08 - the mem and str functions of compat/libc/string as ISO C / POSIX  *)
(* define them, on a byte arena m (a sequence; offset o is m[o+1]).        *)
(* Every definition yields [ret, mem]: the normalised result (offset into  *)
(* the arena, -1 for NULL, sign -1/0/1, or a count) and the arena          *)
(* afterwards.  String arguments are terminated inside the arena.          *)
(***************************************************************************)
EXTENDS Integers, Sequences, TLC

At(m, o) == m[o + 1]
Sign(x) == IF x < 0 THEN -1 ELSE IF x > 0 THEN 1 ELSE 0
Lower(c) == IF c >= 65 /\ c <= 90 THEN c + 32 ELSE c
Upper(c) == IF c >= 97 /\ c <= 122 THEN c - 32 ELSE c
\* length of the string starting at o
RECURSIVE StrLen(_, _)
\* (the end of the arena ends a string too: the n-bounded functions may be given a buffer of exactly n
\* unterminated bytes at the end of the arena; every other function is only called on terminated strings)
StrLen(m, o) == IF o >= Len(m) \/ At(m, o) = 0 THEN 0 ELSE 1 + StrLen(m, o + 1)
Bytes(m, o, n) == [i \in 1..n |-> At(m, o + i - 1)]
Str(m, o) == Bytes(m, o, StrLen(m, o))
Put(m, o, s) == [i \in 1..Len(m) |-> IF i - 1 >= o /\ i - 1 < o + Len(s) THEN s[i - o] ELSE m[i]]
R(ret, mem) == [ret |-> ret, mem |-> mem]
Min(a, b) == IF a < b THEN a ELSE b
Fill(c, n) == [i \in 1..n |-> c]

\* first index (1-based) in s satisfying P, or 0
RECURSIVE FirstIdx(_, _, _)
FirstIdx(s, i, c) == IF i > Len(s) THEN 0 ELSE IF s[i] = c THEN i ELSE FirstIdx(s, i + 1, c)
RECURSIVE LastIdx(_, _, _)
LastIdx(s, i, c) == IF i < 1 THEN 0 ELSE IF s[i] = c THEN i ELSE LastIdx(s, i - 1, c)
RECURSIVE FirstDiff(_, _, _)
FirstDiff(x, y, i) == IF i > Len(x) \/ i > Len(y) THEN 0 ELSE IF x[i] # y[i] THEN i ELSE FirstDiff(x, y, i + 1)
CmpSeq(x, y) == LET d == FirstDiff(x, y, 1) IN IF d = 0 THEN 0 ELSE Sign(x[d] - y[d])
InSet(c, s) == FirstIdx(s, 1, c) # 0
\* strings compared including their terminator
WithNul(s) == Append(s, 0)
MapSeq(s, F(_)) == [i \in 1..Len(s) |-> F(s[i])]
\* first occurrence of needle in hay (1-based start) or 0
RECURSIVE Find(_, _, _)
Find(hay, needle, i) == IF i + Len(needle) - 1 > Len(hay) THEN 0
                        ELSE IF SubSeq(hay, i, i + Len(needle) - 1) = needle THEN i ELSE Find(hay, needle, i + 1)
RECURSIVE SpanLen(_, _, _, _)
SpanLen(s, set, i, want) == IF i > Len(s) \/ InSet(s[i], set) # want THEN i - 1 ELSE SpanLen(s, set, i + 1, want)

MemCpy(m, d, s, n) == R(d, Put(m, d, Bytes(m, s, n)))
MemMove(m, d, s, n) == R(d, Put(m, d, Bytes(m, s, n)))        \* as if through a temporary
MemSet(m, d, c, n) == R(d, Put(m, d, Fill(c % 256, n)))
MemCmp(m, a, b, n) == R(CmpSeq(Bytes(m, a, n), Bytes(m, b, n)), m)
MemChr(m, s, c, n) == LET i == FirstIdx(Bytes(m, s, n), 1, c % 256) IN R(IF i = 0 THEN -1 ELSE s + i - 1, m)
MemRChr(m, s, c, n) == LET i == LastIdx(Bytes(m, s, n), n, c % 256) IN R(IF i = 0 THEN -1 ELSE s + i - 1, m)
StrLenF(m, s) == R(StrLen(m, s), m)
StrNLen(m, s, n) == R(Min(n, StrLen(m, s)), m)
StrCpy(m, d, s) == R(d, Put(m, d, WithNul(Str(m, s))))
StrNCpy(m, d, s, n) == LET l == StrLen(m, s) IN
                       R(d, Put(m, d, IF l >= n THEN Bytes(m, s, n) ELSE Str(m, s) \o Fill(0, n - l)))
StrLCpy(m, d, s, n) == LET l == StrLen(m, s) IN
                       R(l, IF n = 0 THEN m ELSE Put(m, d, WithNul(Bytes(m, s, Min(l, n - 1)))))
StrCat(m, d, s) == R(d, Put(m, d + StrLen(m, d), WithNul(Str(m, s))))
StrNCat(m, d, s, n) == R(d, Put(m, d + StrLen(m, d), WithNul(Bytes(m, s, Min(StrLen(m, s), n)))))
StrCmp(m, a, b) == R(CmpSeq(WithNul(Str(m, a)), WithNul(Str(m, b))), m)
StrNCmp(m, a, b, n) == R(CmpSeq(SubSeq(WithNul(Str(m, a)), 1, Min(n, StrLen(m, a) + 1)),
                                SubSeq(WithNul(Str(m, b)), 1, Min(n, StrLen(m, b) + 1))), m)
StrCaseCmp(m, a, b) == R(CmpSeq(MapSeq(WithNul(Str(m, a)), Lower), MapSeq(WithNul(Str(m, b)), Lower)), m)
StrNCaseCmp(m, a, b, n) == R(CmpSeq(MapSeq(SubSeq(WithNul(Str(m, a)), 1, Min(n, StrLen(m, a) + 1)), Lower),
                                    MapSeq(SubSeq(WithNul(Str(m, b)), 1, Min(n, StrLen(m, b) + 1)), Lower)), m)
\* the terminator is part of the string for strchr / strrchr
StrChr(m, s, c) == LET i == FirstIdx(WithNul(Str(m, s)), 1, c % 256) IN R(IF i = 0 THEN -1 ELSE s + i - 1, m)
StrRChr(m, s, c) == LET w == WithNul(Str(m, s)) i == LastIdx(w, Len(w), c % 256) IN R(IF i = 0 THEN -1 ELSE s + i - 1, m)
StrChrNul(m, s, c) == LET i == FirstIdx(Str(m, s), 1, c % 256) IN R(IF i = 0 THEN s + StrLen(m, s) ELSE s + i - 1, m)
StrStr(m, h, n) == LET i == Find(Str(m, h), Str(m, n), 1) IN R(IF i = 0 THEN -1 ELSE h + i - 1, m)
StrCaseStr(m, h, n) == LET i == Find(MapSeq(Str(m, h), Lower), MapSeq(Str(m, n), Lower), 1) IN R(IF i = 0 THEN -1 ELSE h + i - 1, m)
StrSpn(m, s, set) == R(SpanLen(Str(m, s), Str(m, set), 1, TRUE), m)
StrCSpn(m, s, set) == R(SpanLen(Str(m, s), Str(m, set), 1, FALSE), m)
StrPBrk(m, s, set) == LET k == SpanLen(Str(m, s), Str(m, set), 1, FALSE) IN R(IF k = StrLen(m, s) THEN -1 ELSE s + k, m)
StrLwr(m, s) == R(s, Put(m, s, MapSeq(Str(m, s), Lower)))
StrUpr(m, s) == R(s, Put(m, s, MapSeq(Str(m, s), Upper)))
\* strdup / strndup: the content of the new block (with terminator)
StrDup(m, s) == R(WithNul(Str(m, s)), m)
StrNDup(m, s, n) == R(WithNul(Bytes(m, s, Min(StrLen(m, s), n))), m)
\* strtok_r called until it returns NULL and then twice more ("subsequent searches return a null pointer"):
\* offsets of the tokens, -1 for each of the three NULLs, and the arena afterwards
RECURSIVE Tokens(_, _, _, _)
Tokens(m, pos, delim, acc) ==       \* pos: offset where scanning resumes
   LET s == Str(m, pos)
       skip == SpanLen(s, delim, 1, TRUE)
       start == pos + skip
       rest == Str(m, start)
       tl == SpanLen(rest, delim, 1, FALSE)
   IN IF rest = <<>> THEN R(acc, m)
      ELSE IF tl = Len(rest) THEN R(Append(acc, start), m)
      ELSE Tokens(Put(m, start + tl, <<0>>), start + tl + 1, delim, Append(acc, start))
StrTok(m, s, d) == Tokens(m, s, Str(m, d), <<>>)
StrTokCalls(m, s, d) == LET r == StrTok(m, s, d) IN R(r.ret \o <<-1, -1, -1>>, r.mem)

Def(fn, m, a, b, n) ==
   CASE fn = "memcpy" -> MemCpy(m, a, b, n)     [] fn = "memmove" -> MemMove(m, a, b, n)
     [] fn = "memset" -> MemSet(m, a, b, n)      [] fn = "memcmp" -> MemCmp(m, a, b, n)
     [] fn = "memchr" -> MemChr(m, a, b, n)      [] fn = "memrchr" -> MemRChr(m, a, b, n)
     [] fn = "strlen" -> StrLenF(m, a)           [] fn = "strnlen" -> StrNLen(m, a, n)
     [] fn = "strcpy" -> StrCpy(m, a, b)         [] fn = "strncpy" -> StrNCpy(m, a, b, n)
     [] fn = "strlcpy" -> StrLCpy(m, a, b, n)    [] fn = "strcat" -> StrCat(m, a, b)
     [] fn = "strncat" -> StrNCat(m, a, b, n)    [] fn = "strcmp" -> StrCmp(m, a, b)
     [] fn = "strncmp" -> StrNCmp(m, a, b, n)    [] fn = "strcasecmp" -> StrCaseCmp(m, a, b)
     [] fn = "strncasecmp" -> StrNCaseCmp(m, a, b, n)
     [] fn = "strchr" -> StrChr(m, a, b)         [] fn = "strrchr" -> StrRChr(m, a, b)
     [] fn = "strchrnul" -> StrChrNul(m, a, b)   [] fn = "strstr" -> StrStr(m, a, b)
     [] fn = "strcasestr" -> StrCaseStr(m, a, b) [] fn = "strspn" -> StrSpn(m, a, b)
     [] fn = "strcspn" -> StrCSpn(m, a, b)       [] fn = "strpbrk" -> StrPBrk(m, a, b)
     [] fn = "strlwr" -> StrLwr(m, a)            [] fn = "strupr" -> StrUpr(m, a)
     [] fn = "strdup" -> StrDup(m, a)            [] fn = "strndup" -> StrNDup(m, a, n)
     [] fn \in {"strtok_r", "strtok"} -> StrTokCalls(m, a, b)
=============================================================================
