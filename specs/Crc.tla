-------------------------------- MODULE Crc --------------------------------
(***************************************************************************)
(* C17 - CRC routines of igris/util/crc.c and crc.h, defined as remainders *)
(* of polynomial division over GF(2) on bit sequences (registers are bit   *)
(* sequences, index 1 = most significant bit; no integer wider than 8 bits *)
(* is ever formed, so TLC's 32-bit integers are not an issue).             *)
(*                                                                         *)
(*   strm8   igris_strmcrc8      x^8+x^5+x^4+1 (0x31), MSB first           *)
(*   dallas  igris_crc8 / igris_crc8_table   same polynomial reflected     *)
(*           (0x8C), LSB first                                             *)
(*   crc16   igris_crc16         x^16+x^12+x^5+1 (0x1021), MSB first       *)
(*   crc7    igris_mmc_crc7      x^7+x^3+1 (0x09 in 7 bits), MSB first,    *)
(*           seed 0                                                        *)
(*   crc32   igris_crc32         0x04C11DB7, MSB first over little-endian  *)
(*           32-bit words; a tail of 1..3 bytes is a zero-extended word    *)
(***************************************************************************)
EXTENDS Integers, Sequences, TLC, Bitwise

XorB(a, b) == IF a = b THEN 0 ELSE 1
XorSeq(x, y) == [i \in 1..Len(x) |-> XorB(x[i], y[i])]
\* bits of a byte, MSB first
ByteBits(b) == [i \in 1..8 |-> (b \div (2^(8-i))) % 2]
BitsByte(s) == s[1]*128 + s[2]*64 + s[3]*32 + s[4]*16 + s[5]*8 + s[6]*4 + s[7]*2 + s[8]
RevSeq(s) == [i \in 1..Len(s) |-> s[Len(s) + 1 - i]]
Zeros(n) == [i \in 1..n |-> 0]

\* one data bit into an MSB-first register (polynomial given without its top term)
StepMsb(reg, poly, d) ==
   LET top == XorB(reg[1], d)
       sh == Tail(reg) \o <<0>>
   IN IF top = 1 THEN XorSeq(sh, poly) ELSE sh
\* one data bit into an LSB-first (reflected) register
StepLsb(reg, poly, d) ==
   LET mix == XorB(reg[Len(reg)], d)
       sh == <<0>> \o SubSeq(reg, 1, Len(reg) - 1)
   IN IF mix = 1 THEN XorSeq(sh, poly) ELSE sh
RECURSIVE FeedBits(_, _, _, _, _)
FeedBits(reg, poly, bits, i, msb) ==
   IF i > Len(bits) THEN reg
   ELSE FeedBits(IF msb THEN StepMsb(reg, poly, bits[i]) ELSE StepLsb(reg, poly, bits[i]), poly, bits, i + 1, msb)
RECURSIVE BytesBits(_, _)
BytesBits(bytes, msb) ==      \* the message as a bit stream
   IF bytes = <<>> THEN <<>>
   ELSE (IF msb THEN ByteBits(Head(bytes)) ELSE RevSeq(ByteBits(Head(bytes)))) \o BytesBits(Tail(bytes), msb)

\* register <-> little-endian byte sequences (what the harness logs)
RECURSIVE RegBytesBE(_)
RegBytesBE(reg) == IF reg = <<>> THEN <<>> ELSE <<BitsByte(SubSeq(reg, 1, 8))>> \o RegBytesBE(SubSeq(reg, 9, Len(reg)))
RegLE(reg) == RevSeq(RegBytesBE(reg))
BitsOfLE(bytes) == BytesBits(RevSeq(bytes), TRUE)         \* LE byte image -> MSB-first bit sequence

P31 == <<0, 0, 1, 1, 0, 0, 0, 1>>                  \* 0x31
P8C == <<1, 0, 0, 0, 1, 1, 0, 0>>                  \* 0x8C
P1021 == <<0,0,0,1, 0,0,0,0, 0,0,1,0, 0,0,0,1>>    \* 0x1021
P09 == <<0, 0, 0, 1, 0, 0, 1>>                     \* 0x09, 7 bits
P04C11DB7 == <<0,0,0,0,0,1,0,0, 1,1,0,0,0,0,0,1, 0,0,0,1,1,1,0,1, 1,0,1,1,0,1,1,1>>

Strm8(seed, bytes) == BitsByte(FeedBits(ByteBits(seed), P31, BytesBits(bytes, TRUE), 1, TRUE))
Dallas(seed, bytes) == BitsByte(FeedBits(ByteBits(seed), P8C, BytesBits(bytes, FALSE), 1, FALSE))
\* 16-bit register, seed and result as two little-endian bytes
Crc16(seedLE, bytes) == RegLE(FeedBits(BitsOfLE(seedLE), P1021, BytesBits(bytes, TRUE), 1, TRUE))
\* 7-bit register, seed 0, result as a number 0..127
Crc7(bytes) == LET r == FeedBits(Zeros(7), P09, BytesBits(bytes, TRUE), 1, TRUE)
               IN BitsByte(<<0>> \o r)
\* CRC-32 over little-endian words: the bits of each word enter most significant first,
\* i.e. byte 3, 2, 1, 0 of every group of four; a short tail is padded with zero bytes on top
RECURSIVE WordBits(_)
WordBits(bytes) ==
   IF bytes = <<>> THEN <<>>
   ELSE LET n == IF Len(bytes) >= 4 THEN 4 ELSE Len(bytes)
            w == SubSeq(bytes, 1, n) \o Zeros(4 - n)
        IN BytesBits(RevSeq(w), TRUE) \o WordBits(SubSeq(bytes, n + 1, Len(bytes)))
Crc32(seedLE, bytes) == RegLE(FeedBits(BitsOfLE(seedLE), P04C11DB7, WordBits(bytes), 1, TRUE))

\* ----- CRC-32 once more, byte-at-a-time on a register held as two 16-bit halves <<hi, lo>> with a 256-entry table that is
\* itself computed from the bit-serial definition; no recursion deeper than log(length), so that TLC can evaluate it on
\* messages of hundreds of kilobytes.  CrcMC.tla checks Fast32 = Crc32 on the enumerated domain.
RECURSIVE BitsNat(_)
BitsNat(bits) == IF bits = <<>> THEN 0 ELSE 2 * BitsNat(SubSeq(bits, 1, Len(bits) - 1)) + bits[Len(bits)]
Tbl32 == [b \in 0..255 |-> LET r == FeedBits(Zeros(32), P04C11DB7, ByteBits(b), 1, TRUE) IN <<BitsNat(SubSeq(r, 1, 16)), BitsNat(SubSeq(r, 17, 32))>>]
StepB(hl, byte) == LET t == Tbl32[(hl[1] \div 256) ^^ byte]
                   IN <<(((hl[1] % 256) * 256) + (hl[2] \div 256)) ^^ t[1], ((hl[2] % 256) * 256) ^^ t[2]>>
\* the byte that enters at step j: little-endian words most significant byte first, a short tail zero-extended
ByteAtStep(bytes, j) == LET i == 4 * ((j - 1) \div 4) + (4 - ((j - 1) % 4)) IN IF i <= Len(bytes) THEN bytes[i] ELSE 0
RECURSIVE Fold32(_, _, _, _)
Fold32(hl, bytes, lo, hi) ==
   IF lo > hi THEN hl
   ELSE IF lo = hi THEN StepB(hl, ByteAtStep(bytes, lo))
   \* (the test on the left half forces its evaluation before the right half starts: TLC passes arguments lazily and would
   \* otherwise build a chain of suspended calls as long as the message)
   ELSE LET mid == (lo + hi) \div 2  left == Fold32(hl, bytes, lo, mid) IN IF left[1] >= 0 THEN Fold32(left, bytes, mid + 1, hi) ELSE left
Fast32(seedLE, bytes) ==
   LET r == Fold32(<<seedLE[4] * 256 + seedLE[3], seedLE[2] * 256 + seedLE[1]>>, bytes, 1, 4 * ((Len(bytes) + 3) \div 4))
   IN <<r[2] % 256, r[2] \div 256, r[1] % 256, r[1] \div 256>>

\* ----- CRC-32 of messages of gigabytes that are zero except for a head and a tail: a run of n zero bytes multiplies the register by
\* x^(8n) modulo the polynomial (StepB with byte 0 is multiplication by x^8), computed by square-and-multiply on the two halves.
\* CrcMC.tla checks ZeroRun against Fold32 over explicit zero bytes.
Shl1(hl) == LET top == hl[1] >= 32768
                h == (hl[1] % 32768) * 2 + (hl[2] \div 32768)  lw == (hl[2] % 32768) * 2
            IN IF top THEN <<h ^^ 1217, lw ^^ 7607>> ELSE <<h, lw>>           \* 0x04C1, 0x1DB7
BitOf(hl, i) == IF i >= 16 THEN (hl[1] \div (2^(i - 16))) % 2 ELSE (hl[2] \div (2^i)) % 2    \* bit i (0 = least significant)
RECURSIVE MulFrom(_, _, _, _)
MulFrom(acc, a, b, i) ==            \* acc * x^(i+1) + a * (bits i..0 of b), modulo the polynomial
   IF i < 0 THEN acc
   ELSE LET sh == Shl1(acc)  nx == IF BitOf(b, i) = 1 THEN <<sh[1] ^^ a[1], sh[2] ^^ a[2]>> ELSE sh
        IN IF nx[1] >= 0 THEN MulFrom(nx, a, b, i - 1) ELSE nx
MulP(a, b) == MulFrom(<<0, 0>>, a, b, 31)
RECURSIVE XPow(_)
XPow(k) ==                          \* x^k modulo the polynomial, k < 2^31
   IF k = 0 THEN <<0, 1>>
   ELSE LET h == XPow(k \div 2)  sq == MulP(h, h) IN IF k % 2 = 1 THEN Shl1(sq) ELSE sq
RECURSIVE PowP(_, _)
PowP(a, k) == IF k = 0 THEN <<0, 1>> ELSE LET h == PowP(a, k \div 2)  sq == MulP(h, h) IN IF k % 2 = 1 THEN MulP(sq, a) ELSE sq
\* register after nh * 65536 + nl zero bytes
ZeroRun(hl, nh, nl) == MulP(MulP(hl, PowP(XPow(8 * 65536), nh)), XPow(8 * nl))
\* head (a multiple of four bytes), then nzh * 65536 + nzl zero bytes (a multiple of four), then the tail (any length, zero-extended)
Sparse32(seedLE, head, nzh, nzl, tail) ==
   LET h0 == <<seedLE[4] * 256 + seedLE[3], seedLE[2] * 256 + seedLE[1]>>
       h1 == Fold32(h0, head, 1, Len(head))
       h2 == ZeroRun(h1, nzh, nzl)
       r == Fold32(h2, tail, 1, 4 * ((Len(tail) + 3) \div 4))
   IN <<r[2] % 256, r[2] \div 256, r[1] % 256, r[1] \div 256>>

Def(fn, seedLE, bytes) ==
   CASE fn = "strm8"  -> <<Strm8(seedLE[1], bytes)>>
     [] fn = "dallas" -> <<Dallas(seedLE[1], bytes)>>
     [] fn = "dallas_table" -> <<Dallas(seedLE[1], bytes)>>
     [] fn = "crc16"  -> Crc16(seedLE, bytes)
     [] fn = "crc7"   -> <<Crc7(bytes)>>
     [] fn = "crc32"  -> IF Len(bytes) > 64 THEN Fast32(seedLE, bytes) ELSE Crc32(seedLE, bytes)
=============================================================================
