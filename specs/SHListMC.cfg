CONSTANTS NNs = {1, 2, 3, 4}
SPECIFICATION Spec
INVARIANTS RefinementInv
CHECK_DEADLOCK FALSE
