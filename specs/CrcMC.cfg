CONSTANTS Seeds = {0, 255, 49}
          Alphabet = {1, 128, 255}
          MaxLen = 4
SPECIFICATION Spec
INVARIANTS Fast32Same SparseSame SparseWide Chunking8 Chunking16 Chunking32 Residue8 SameAsTableForm
CHECK_DEADLOCK FALSE
