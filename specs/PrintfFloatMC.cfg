CONSTANTS Ms = {0, 1, 2, 3, 5, 7, 8, 9, 10, 15, 16, 19, 25, 31, 32, 33, 39, 63, 64, 79, 80, 81, 95, 99, 100, 101, 127, 159, 160, 161, 999, 1000, 1001, 1599, 1600, 12345}
          Ks = {0, 1, 3, 4}
          Precs = {0, 1, 2, 3}
          Widths = {0, 9}
SPECIFICATION Spec
INVARIANTS AcceptsReference RejectsNeighbours
CHECK_DEADLOCK FALSE
