----------------------------- MODULE FloatTrace -----------------------------
(* C12: recorded igris_f32toa / f64toa / ftoa and atof32 / atof64 / strtod / atof calls judged by DecFloat.tla *)
EXTENDS DecFloat, Judge
VARIABLES l, sync
Rec(ev, p) == IF p = "x" THEN [cls |-> ev.x_cls, neg |-> ev.x_neg, m |-> ev.x_m, e |-> ev.x_e]
              ELSE IF p = "y" THEN [cls |-> ev.y_cls, neg |-> ev.y_neg, m |-> ev.y_m, e |-> ev.y_e]
              ELSE [cls |-> ev.r_cls, neg |-> ev.r_neg, m |-> ev.r_m, e |-> ev.r_e]
\* the supported magnitude range of the renderer: every argument whose binary32 value is finite
InRange(x) == TRUE
RenderEventErrs(ev) ==
   LET x == Rec(ev, "x")  y == Rec(ev, "y")
       safety == (IF ev.terminated # 1 THEN {"unterminated"} ELSE {})
                 \cup (IF ev.touched > Len(ev.text) THEN {"write_beyond_text"} ELSE {})
   IN IF ev.terminated # 1 THEN safety
      ELSE IF x.cls # "fin" THEN safety \cup RenderErrs(x, ev.prec, ev.text)
      ELSE IF y.cls # "fin" \/ ~InRange(x)
           \* outside the supported range: only "no non-numeric character, no write beyond the text" (inf tokens allowed)
           THEN safety \cup (IF OnlyNumeric(ev.text) \/ InfNanText([cls |-> "inf", neg |-> x.neg], ev.text) THEN {} ELSE {"non_numeric_character"})
      ELSE safety \cup (IF ~OnlyNumeric(ev.text) THEN {"non_numeric_character"} ELSE {})
           \* accuracy relative to the argument, tolerance in ulps of the binary32 value the renderer works on
           \cup (LET p == PlainDecimal(ev.text) IN
                 IF ~p.ok THEN {"not_a_decimal"}
                 ELSE (IF ev.prec >= 0 /\ ev.prec <= 10 /\ Len(p.fp) # ev.prec THEN {"fraction_digits"} ELSE {})
                      \cup (IF (ev.prec < 0 \/ ev.prec > 10) /\ Len(p.fp) > 10 THEN {"fraction_digits"} ELSE {})
                      \cup (IF p.neg /\ x.neg = 0 THEN {"sign"} ELSE {})
                      \cup (IF ~p.neg /\ x.neg = 1 /\ ~AllZero(p.ip \o p.fp) THEN {"sign"} ELSE {})
                      \cup (IF ~Within(x.m, x.e, BOfDigits(p.ip \o p.fp), Len(p.fp), 2, RenderUlps, y.e) THEN {"inaccurate"} ELSE {}))
ParseEventErrs(ev) ==
   IF ev.wide = 1 THEN ParseErrs(ev.text, Rec(ev, "r"), ev.end, -1074, 1024, 53)
   ELSE ParseErrs(ev.text, Rec(ev, "r"), ev.end, -149, 128, 24)
TInit == JInit /\ l = 1 /\ sync = FALSE
TNext ==
   /\ l <= NTrace /\ l' = l + 1 /\ Consumed(l)
   /\ LET ev == TraceLog[l] IN
      IF ev.e = "Reset" THEN sync' = TRUE
      ELSE IF ~sync THEN UNCHANGED sync
      ELSE IF ev.e = "Fault" THEN Flag(l, <<"fault">>, [kind |-> ev.kind, where |-> ev.where]) /\ sync' = FALSE
      ELSE IF ev.e = "SweepDone" THEN sync' = TRUE
      ELSE LET errs == IF ev.e = "Render" THEN RenderEventErrs(ev) ELSE ParseEventErrs(ev) IN
           /\ sync' = TRUE
           /\ IF errs # {} THEN Flag(l, SetToSeq(errs), IF ev.e = "Parse" THEN [lit |-> Literal(ev.text)] ELSE [dec |-> PlainDecimal(ev.text)]) ELSE TRUE
TSpec == TInit /\ [][TNext]_<<l, sync>>
Accepted == WriteVerdict
=============================================================================
