SPECIFICATION TSpec
POSTCONDITION Accepted
CHECK_DEADLOCK FALSE
