------------------------------- MODULE Codec -------------------------------
(***************************************************************************)
(* C18 - hexascii (igris/util/hexascii.h/.c, string/hexascii_string.h) and *)
(* base64 (igris/util/base64.h/.cpp), defined on byte sequences.           *)
(*   HexEnc / HexDec     upper-case hexadecimal, two characters per byte   *)
(*   B64Enc / B64Dec     RFC 4648 section 4, '=' padding                   *)
(*   B64UrlEnc / B64UrlDec   RFC 4648 section 5 alphabet ('-' and '_')     *)
(*   UintToHex / HexToUint   fixed width, most significant byte first      *)
(***************************************************************************)
EXTENDS Integers, Sequences, TLC

Str2Bytes(s) == s   \* (strings are given as byte sequences throughout)
HexDigit(n) == IF n < 10 THEN 48 + n ELSE 55 + n            \* '0'.. / 'A'..
HexVal(c) == IF c <= 57 THEN c - 48 ELSE c - 55
RECURSIVE HexEnc(_)
HexEnc(b) == IF b = <<>> THEN <<>> ELSE <<HexDigit(Head(b) \div 16), HexDigit(Head(b) % 16)>> \o HexEnc(Tail(b))
RECURSIVE HexDec(_)
HexDec(c) == IF Len(c) < 2 THEN <<>> ELSE <<HexVal(c[1]) * 16 + HexVal(c[2])>> \o HexDec(SubSeq(c, 3, Len(c)))
IsUpperHex(c) == (c >= 48 /\ c <= 57) \/ (c >= 65 /\ c <= 70)
Rev(s) == [i \in 1..Len(s) |-> s[Len(s) + 1 - i]]
\* value given as little-endian bytes (as the harness logs wide integers)
UintToHex(le) == HexEnc(Rev(le))
HexToUint(chars) == Rev(HexDec(chars))

\* RFC 4648 alphabets
B64Char(v) == IF v < 26 THEN 65 + v ELSE IF v < 52 THEN 97 + (v - 26) ELSE IF v < 62 THEN 48 + (v - 52)
              ELSE IF v = 62 THEN 43 ELSE 47
UrlChar(v) == IF v = 62 THEN 45 ELSE IF v = 63 THEN 95 ELSE B64Char(v)
B64Val(c) == IF c >= 65 /\ c <= 90 THEN c - 65 ELSE IF c >= 97 /\ c <= 122 THEN c - 97 + 26
             ELSE IF c >= 48 /\ c <= 57 THEN c - 48 + 52 ELSE IF c = 43 \/ c = 45 THEN 62 ELSE 63
PAD == 61
RECURSIVE EncWith(_, _)
EncWith(url, b) ==
   LET C(v) == IF url THEN UrlChar(v) ELSE B64Char(v) IN
   IF b = <<>> THEN <<>>
   ELSE IF Len(b) = 1 THEN <<C(b[1] \div 4), C((b[1] % 4) * 16), PAD, PAD>>
   ELSE IF Len(b) = 2 THEN <<C(b[1] \div 4), C((b[1] % 4) * 16 + b[2] \div 16), C((b[2] % 16) * 4), PAD>>
   ELSE <<C(b[1] \div 4), C((b[1] % 4) * 16 + b[2] \div 16), C((b[2] % 16) * 4 + b[3] \div 64), C(b[3] % 64)>>
        \o EncWith(url, SubSeq(b, 4, Len(b)))
B64Enc(b) == EncWith(FALSE, b)
B64UrlEnc(b) == EncWith(TRUE, b)
\* decoding of well-formed text (what the encoders produce)
Strip(c) == SelectSeq(c, LAMBDA x : x # PAD)
RECURSIVE DecVals(_)
DecVals(v) ==
   IF Len(v) < 2 THEN <<>>
   ELSE IF Len(v) = 2 THEN <<v[1] * 4 + v[2] \div 16>>
   ELSE IF Len(v) = 3 THEN <<v[1] * 4 + v[2] \div 16, (v[2] % 16) * 16 + v[3] \div 4>>
   ELSE <<v[1] * 4 + v[2] \div 16, (v[2] % 16) * 16 + v[3] \div 4, (v[3] % 4) * 64 + v[4]>> \o DecVals(SubSeq(v, 5, Len(v)))
B64Dec(c) == LET s == Strip(c) IN DecVals([i \in 1..Len(s) |-> B64Val(s[i])])
B64UrlDec(c) == B64Dec(c)
\* the same two functions written position by position (no recursion: TLC evaluates them on inputs of hundreds of kilobytes);
\* CodecMC.tla checks that they agree with the recursive definitions above on the enumerated domain
EncIdx(url, b) ==
   LET n == Len(b)
       By(i) == IF i <= n THEN b[i] ELSE 0
       C(v) == IF url THEN UrlChar(v) ELSE B64Char(v)
   IN [j \in 1..(4 * ((n + 2) \div 3)) |->
         LET r == (j - 1) % 4  i == 3 * ((j - 1) \div 4) + 1 IN
         IF r = 0 THEN C(By(i) \div 4)
         ELSE IF r = 1 THEN C((By(i) % 4) * 16 + By(i + 1) \div 16)
         ELSE IF r = 2 THEN (IF i + 1 > n THEN PAD ELSE C((By(i + 1) % 16) * 4 + By(i + 2) \div 64))
         ELSE (IF i + 2 > n THEN PAD ELSE C(By(i + 2) % 64))]
DecIdx(c) ==
   LET s == Strip(c)
       V(i) == B64Val(s[i])
   IN [j \in 1..((Len(s) * 3) \div 4) |->
         LET r == (j - 1) % 3  i == 4 * ((j - 1) \div 3) + 1 IN
         IF r = 0 THEN V(i) * 4 + V(i + 1) \div 16
         ELSE IF r = 1 THEN (V(i + 1) % 16) * 16 + V(i + 2) \div 4
         ELSE (V(i + 2) % 4) * 64 + V(i + 3)]
Big(x) == Len(x) > 2000
InB64Alphabet(c) == (c >= 65 /\ c <= 90) \/ (c >= 97 /\ c <= 122) \/ (c >= 48 /\ c <= 57) \/ c \in {43, 47, PAD}
InUrlAlphabet(c) == (c >= 65 /\ c <= 90) \/ (c >= 97 /\ c <= 122) \/ (c >= 48 /\ c <= 57) \/ c \in {45, 95, PAD}

Def(fn, in) ==
   CASE fn \in {"hexenc_c", "hexenc_ptr", "hexenc_string", "hexenc_buffer"} -> HexEnc(in)
     [] fn = "hexdec_c" -> HexDec(in)
     \* decoded over its own text: the decoded bytes in front, the untouched second half of the text behind them
     [] fn = "hexdec_c_inplace" -> HexDec(in) \o SubSeq(in, Len(in) \div 2 + 1, Len(in))
     [] fn \in {"b64enc_ptr", "b64enc_string"} -> IF Big(in) THEN EncIdx(FALSE, in) ELSE B64Enc(in)
     [] fn = "b64dec" -> IF Big(in) THEN DecIdx(in) ELSE B64Dec(in)
     [] fn \in {"b64urlenc_ptr", "b64urlenc_string"} -> IF Big(in) THEN EncIdx(TRUE, in) ELSE B64UrlEnc(in)
     [] fn = "b64urldec" -> IF Big(in) THEN DecIdx(in) ELSE B64UrlDec(in)
     [] fn \in {"u8hex", "u16hex", "u32hex", "u64hex"} -> UintToHex(in)
     [] fn \in {"hexu8", "hexu16", "hexu32", "hexu64"} -> HexToUint(in)
=============================================================================
