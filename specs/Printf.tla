------------------------------- MODULE Printf -------------------------------
(***************************************************************************)
(* C06 - the printf engine (igris/util/printf_impl.c) for the conversions  *)
(* d i u o x X c s p and the literal percent sign, as ISO C 7.21.6.1       *)
(* defines the output.                                                     *)
(* A format is a byte sequence; arguments are records                      *)
(*   [v |-> the 8-byte little-endian image of the argument slot,           *)
(*    s |-> for a string argument the bytes up to (not including) the      *)
(*          terminator, or up to the end of its block when unterminated]   *)
(* Out(fmt, args) is the exact character sequence ISO C prescribes.  The   *)
(* text of the p conversion is implementation-defined; PtrOK states what   *)
(* the property demands of it.                                             *)
(***************************************************************************)
EXTENDS NumText

IsDigitC(c) == c >= 48 /\ c <= 57
FmtAt(f, i) == IF i <= Len(f) THEN f[i] ELSE 0
Spaces(n) == [i \in 1..(IF n > 0 THEN n ELSE 0) |-> 32]
ZerosC(n) == [i \in 1..(IF n > 0 THEN n ELSE 0) |-> 48]
Max2(a, b) == IF a > b THEN a ELSE b

\* ----- parsing one directive starting after the percent sign --------------------------
RECURSIVE PFlags(_, _, _)
PFlags(f, i, acc) == IF FmtAt(f, i) \in {45, 43, 32, 35, 48} THEN PFlags(f, i + 1, acc \cup {FmtAt(f, i)}) ELSE [fl |-> acc, i |-> i]
RECURSIVE PNum(_, _, _)
PNum(f, i, acc) == IF IsDigitC(FmtAt(f, i)) THEN PNum(f, i + 1, acc * 10 + (FmtAt(f, i) - 48)) ELSE [n |-> acc, i |-> i]
\* signed 32-bit value of an argument slot (for * width / precision); only small magnitudes are used
ArgInt(a) == IF a.v[4] >= 128 THEN a.v[1] + 256 * a.v[2] - 65536 ELSE a.v[1] + 256 * a.v[2]
\* length modifier: number of bytes of the argument that are converted
PLen(f, i) ==
   IF FmtAt(f, i) = 104 THEN (IF FmtAt(f, i + 1) = 104 THEN [w |-> 1, i |-> i + 2] ELSE [w |-> 2, i |-> i + 1])
   ELSE IF FmtAt(f, i) = 108 THEN (IF FmtAt(f, i + 1) = 108 THEN [w |-> 8, i |-> i + 2] ELSE [w |-> 8, i |-> i + 1])
   ELSE IF FmtAt(f, i) \in {106, 122, 116} THEN [w |-> 8, i |-> i + 1]
   ELSE [w |-> 4, i |-> i]

\* ----- rendering ----------------------------------------------------------------------
\* d: [fl, width, prec (-1 = none), w, conv]; a: the argument
Pad(d, body, signpfx, zeroable) ==
   \* body: digits/characters; signpfx: sign or 0x prefix that zero padding goes after
   LET n == Len(signpfx) + Len(body)
       fill == d.width - n
   IN IF 45 \in d.fl THEN signpfx \o body \o Spaces(fill)
      ELSE IF 48 \in d.fl /\ zeroable THEN signpfx \o ZerosC(fill) \o body
      ELSE Spaces(fill) \o signpfx \o body
IntArg(a, w) == SubSeq(a.v, 1, w)
RenderInt(d, a) ==
   LET le == IntArg(a, d.w)
       signed == d.conv \in {100, 105}
       neg == signed /\ le[d.w] >= 128
       magBE == IF neg THEN Negate(Rev(le)) ELSE Rev(le)
       base == IF d.conv = 111 THEN 8 ELSE IF d.conv \in {120, 88} THEN 16 ELSE 10
       zero == IsZero(magBE)
       raw == IF zero /\ d.prec = 0 THEN <<>> ELSE RenderMag(magBE, base, d.conv = 88)
       withPrec == ZerosC(d.prec - Len(raw)) \o raw
       \* '#' for o: force a leading zero when there is none
       digits == IF d.conv = 111 /\ 35 \in d.fl /\ (withPrec = <<>> \/ withPrec[1] # 48) THEN <<48>> \o withPrec ELSE withPrec
       sign == IF neg THEN <<45>> ELSE IF signed /\ 43 \in d.fl THEN <<43>> ELSE IF signed /\ 32 \in d.fl THEN <<32>> ELSE <<>>
       pfx == IF d.conv \in {120, 88} /\ 35 \in d.fl /\ ~zero THEN <<48, d.conv>> ELSE <<>>
   IN Pad(d, digits, sign \o pfx, d.prec = -1)
RenderChar(d, a) == Pad(d, <<a.v[1]>>, <<>>, FALSE)
RenderStr(d, a) == Pad(d, IF d.prec >= 0 /\ d.prec < Len(a.s) THEN SubSeq(a.s, 1, d.prec) ELSE a.s, <<>>, FALSE)

\* ----- whole format ---------------------------------------------------------------------
RECURSIVE Out(_, _, _, _)
Out(f, i, args, k) ==
   IF i > Len(f) THEN <<>>
   ELSE IF f[i] # 37 THEN <<f[i]>> \o Out(f, i + 1, args, k)
   ELSE IF FmtAt(f, i + 1) = 37 THEN <<37>> \o Out(f, i + 2, args, k)
   ELSE LET pf == PFlags(f, i + 1, {})
            wstar == FmtAt(f, pf.i) = 42
            wn == IF wstar THEN [n |-> ArgInt(args[k]), i |-> pf.i + 1] ELSE PNum(f, pf.i, 0)
            k1 == IF wstar THEN k + 1 ELSE k
            hasp == FmtAt(f, wn.i) = 46
            pstar == hasp /\ FmtAt(f, wn.i + 1) = 42
            pn == IF ~hasp THEN [n |-> -1, i |-> wn.i]
                  ELSE IF pstar THEN [n |-> ArgInt(args[k1]), i |-> wn.i + 2] ELSE PNum(f, wn.i + 1, 0)
            k2 == IF pstar THEN k1 + 1 ELSE k1
            ln == PLen(f, pn.i)
            conv == FmtAt(f, ln.i)
            \* a negative width argument is a '-' flag and a positive width; a negative precision is none
            d == [fl |-> IF wn.n < 0 THEN pf.fl \cup {45} ELSE pf.fl,
                  width |-> IF wn.n < 0 THEN 0 - wn.n ELSE wn.n,
                  prec |-> IF pn.n < 0 THEN -1 ELSE pn.n, w |-> ln.w, conv |-> conv]
            txt == IF conv = 99 THEN RenderChar(d, args[k2])
                   ELSE IF conv = 115 THEN RenderStr(d, args[k2])
                   ELSE RenderInt(d, args[k2])
        IN txt \o Out(f, ln.i + 1, args, k2 + 1)
Expected(f, args) == Out(f, 1, args, 1)

\* ----- %p: "0x" followed by hexadecimal digits that parse back to the pointer, padded to the width
IsHexC(c) == DigitVal(c) < 16
Trim(s) == LET nl == CHOOSE n \in 0..Len(s) : (\A i \in 1..n : s[i] = 32) /\ (n = Len(s) \/ s[n + 1] # 32)
               t == SubSeq(s, nl + 1, Len(s))
               nr == CHOOSE n \in 0..Len(t) : (\A i \in (Len(t) - n + 1)..Len(t) : t[i] = 32) /\ (n = Len(t) \/ t[Len(t) - n] # 32)
           IN SubSeq(t, 1, Len(t) - nr)
PtrOK(out, a, width) ==
   LET t == Trim(out) IN
   /\ Len(out) >= width
   /\ Len(t) >= 3 /\ t[1] = 48 /\ t[2] \in {120, 88}
   /\ \A i \in 3..Len(t) : IsHexC(t[i])
   /\ ParseU(SubSeq(t, 3, Len(t)), 16, 8) = [val |-> a.v, end |-> Len(t) - 2]
=============================================================================
