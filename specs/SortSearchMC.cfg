CONSTANTS Keys = {0, 1, 2}
          MaxLen = 4
SPECIFICATION Spec
INVARIANTS QsortMonitorExact BsearchMonitorExact
CHECK_DEADLOCK FALSE
