CONSTANTS Keys = {1, 2, 3}
          ValsA = {0, 7}
SPECIFICATION Spec
INVARIANTS MapInv
