CONSTANTS Vals = {1}
          MaxSize = 1
          Caps = {0}
          Keeps = {FALSE}
SPECIFICATION TSpec
POSTCONDITION Accepted
CHECK_DEADLOCK FALSE
