CONSTANTS Widths = {0, 1, 5}
          Precs = {99, 0, 1, 5}
          Ws = {1, 2, 4, 8}
          Convs = {100, 117, 111, 120, 88}
          ArgBytes = {0, 255}
SPECIFICATION Spec
INVARIANTS WidthLaw ValueLaw PrecLaw
CHECK_DEADLOCK FALSE
