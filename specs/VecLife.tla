------------------------------ MODULE VecLife ------------------------------
(***************************************************************************)
(* C02 / C14 - igris::vector (and its std_portable twin), static_vector.   *)
(*                                                                         *)
(* Abstract layer: two container objects c in {0, 1}; ex[c] says whether   *)
(* the object exists, el[c] is its element sequence as std::vector defines *)
(* it.  cap = 0 means a growing vector; cap = N > 0 a fixed-capacity       *)
(* container whose every result is the std result cut to its first N       *)
(* elements.                                                               *)
(*                                                                         *)
(* Lifetime ledger (evaluated on recorded traces): blk maps an allocation  *)
(* id to its slot count (while allocated), slot maps <<id, index>> to      *)
(* "raw" | "live" | "moved" and the value held.  The enabling conditions   *)
(* of the element events are the property: construct only into a raw slot  *)
(* inside a live block, destroy / assign to / move from / read only        *)
(* constructed objects, release a block only when every slot is raw.       *)
(***************************************************************************)
EXTENDS Integers, Sequences, FiniteSets, TLC

CONSTANTS Vals, MaxSize, Caps, Keeps
VARIABLES cap, keep, ex, el
avars == <<cap, keep, ex, el>>

Cut(s) == IF cap = 0 \/ Len(s) <= cap THEN s ELSE SubSeq(s, 1, cap)
Ins(s, p, v) == SubSeq(s, 1, p) \o <<v>> \o SubSeq(s, p + 1, Len(s))         \* before position p (0-based)
Era(s, a, b) == SubSeq(s, 1, a) \o SubSeq(s, b + 1, Len(s))                  \* remove [a, b)
Rsz(s, n) == IF n <= Len(s) THEN SubSeq(s, 1, n) ELSE s \o [i \in 1..(n - Len(s)) |-> 0]
C == {0, 1}

Init == cap \in Caps /\ keep \in Keeps /\ ex = [c \in C |-> FALSE] /\ el = [c \in C |-> <<>>]
Fix == UNCHANGED <<cap, keep>>
Set(c, s) == el' = [el EXCEPT ![c] = Cut(s)] /\ UNCHANGED ex /\ Fix

Create(c) == ~ex[c] /\ ex' = [ex EXCEPT ![c] = TRUE] /\ el' = [el EXCEPT ![c] = <<>>] /\ Fix
\* constructor from a range / initializer list
\* (the keep flavour is the older interface: no range / list constructor, no erase)
CreateFrom(c, s) == ~keep /\ ~ex[c] /\ ex' = [ex EXCEPT ![c] = TRUE] /\ el' = [el EXCEPT ![c] = Cut(s)] /\ Fix
Destroy(c) == ex[c] /\ ex' = [ex EXCEPT ![c] = FALSE] /\ el' = [el EXCEPT ![c] = <<>>] /\ Fix
PushBack(c, v) == ex[c] /\ Set(c, Append(el[c], v))
EmplaceBack(c, v) == ex[c] /\ Set(c, Append(el[c], v))
Insert(c, p, v) == ex[c] /\ cap = 0 /\ p \in 0..Len(el[c]) /\ Set(c, Ins(el[c], p, v))
Emplace(c, p, v) == ex[c] /\ cap = 0 /\ p \in 0..Len(el[c]) /\ Set(c, Ins(el[c], p, v))
Erase(c, a, b) == ~keep /\ ex[c] /\ a \in 0..Len(el[c]) /\ b \in a..Len(el[c]) /\ Set(c, Era(el[c], a, b))
\* erase(pos): exactly the element at pos goes, as in std::vector
EraseAt(c, a) == ex[c] /\ cap = 0 /\ a \in 0..(Len(el[c]) - 1) /\ Set(c, Era(el[c], a, a + 1))
PopBack(c) == ex[c] /\ cap = 0 /\ el[c] # <<>> /\ Set(c, SubSeq(el[c], 1, Len(el[c]) - 1))
Resize(c, n) == ex[c] /\ Set(c, Rsz(el[c], n))
Reserve(c, n) == ex[c] /\ cap = 0 /\ Set(c, el[c])
Clear(c) == ex[c] /\ Set(c, <<>>)
CopyCtor(c, d) == c # d /\ ~ex[c] /\ ex[d] /\ ex' = [ex EXCEPT ![c] = TRUE] /\ el' = [el EXCEPT ![c] = el[d]] /\ Fix
\* keep = TRUE: the flavour whose move constructor leaves the source's (moved-from) elements in place;
\* their number is kept, their values are unspecified (the trace layer adopts what is observed)
MoveCtor(c, d) == c # d /\ ~ex[c] /\ ex[d] /\ ex' = [ex EXCEPT ![c] = TRUE] /\ el' = [el EXCEPT ![c] = el[d], ![d] = IF keep THEN el[d] ELSE <<>>] /\ Fix
\* trace layer, keep = TRUE: the values of the moved-from elements are what was observed (their number is fixed)
MoveCtorAdopt(c, d, oc) == c # d /\ ~ex[c] /\ ex[d] /\ ex' = [ex EXCEPT ![c] = TRUE] /\ Fix
                           /\ el' = [el EXCEPT ![c] = el[d], ![d] = IF Len(oc) = Len(el[d]) THEN oc ELSE el[d]]
CopyAssign(c, d) == ex[c] /\ ex[d] /\ el' = [el EXCEPT ![c] = el[d]] /\ UNCHANGED ex /\ Fix
MoveAssign(c, d) == ex[c] /\ ex[d] /\ el' = (IF c = d THEN el ELSE [el EXCEPT ![c] = el[d], ![d] = <<>>]) /\ UNCHANGED ex /\ Fix
\* queries (state unchanged; answers from el)
Query(c) == ex[c] /\ UNCHANGED avars
\* an operation at the end of the sequence (push_back, emplace_back, growing resize, reserve) that ends with an exception - thrown by the
\* constructor of the new element or by the allocator - has no effect (std::vector: strong guarantee; a fixed-capacity container cannot
\* hold an element that was never constructed either)
Failed(c) == ex[c] /\ UNCHANGED avars
\* element comparison: ordinary values compare as numbers; the codes 1000 / 1001 / 1002 stand for +0.0 / -0.0 / NaN of a
\* floating element type (equal zeros, a NaN equal to nothing and ordered with nothing), as std::vector compares them
IsNaNv(v) == v = 1002
NumOf(v) == IF v \in {1000, 1001} THEN 0 ELSE v
EqVal(a, b) == ~IsNaNv(a) /\ ~IsNaNv(b) /\ NumOf(a) = NumOf(b)
LtVal(a, b) == ~IsNaNv(a) /\ ~IsNaNv(b) /\ NumOf(a) < NumOf(b)
SeqEq(a, b) == Len(a) = Len(b) /\ \A i \in 1..Len(a) : EqVal(a[i], b[i])
RECURSIVE LexLess(_, _, _)
LexLess(a, b, i) == IF i > Len(b) THEN FALSE ELSE IF i > Len(a) THEN TRUE
                    ELSE IF LtVal(a[i], b[i]) THEN TRUE ELSE IF LtVal(b[i], a[i]) THEN FALSE ELSE LexLess(a, b, i + 1)

Srcs == UNION {[1..k -> Vals] : k \in 0..(MaxSize + 2)}
Next == \/ \E c \in C : Create(c)
        \/ \E c \in C, s \in Srcs : CreateFrom(c, s)
        \/ \E c \in C : Destroy(c)
        \/ \E c \in C, v \in Vals : PushBack(c, v)
        \/ \E c \in C, v \in Vals : EmplaceBack(c, v)
        \/ \E c \in C, p \in 0..MaxSize, v \in Vals : Insert(c, p, v)
        \/ \E c \in C, p \in 0..MaxSize, v \in Vals : Emplace(c, p, v)
        \/ \E c \in C, a \in 0..MaxSize, b \in 0..MaxSize : Erase(c, a, b)
        \/ \E c \in C, a \in 0..MaxSize : EraseAt(c, a)
        \/ \E c \in C : PopBack(c)
        \/ \E c \in C, n \in 0..(MaxSize + 1) : Resize(c, n)
        \/ \E c \in C, n \in 0..(MaxSize + 1) : Reserve(c, n)
        \/ \E c \in C : Clear(c)
        \/ \E c \in C, d \in C : CopyCtor(c, d)
        \/ \E c \in C, d \in C : MoveCtor(c, d)
        \/ \E c \in C, d \in C : CopyAssign(c, d)
        \/ \E c \in C, d \in C : MoveAssign(c, d)
Spec == Init /\ [][Next]_avars
SizeBound == \A c \in C : Len(el[c]) <= MaxSize
\* reference laws of the abstract layer
CapInv == cap > 0 => \A c \in C : Len(el[c]) <= cap
Laws == \A c \in C : \A v \in Vals : \A p \in 0..Len(el[c]) :
           /\ Era(Ins(el[c], p, v), p, p + 1) = el[c]                      \* erase undoes insert
           /\ Len(Ins(el[c], p, v)) = Len(el[c]) + 1
           /\ Rsz(Rsz(el[c], Len(el[c]) + 1), Len(el[c])) = el[c]

\* ===================== lifetime ledger (trace layer) ====================================
\* ledger L = [blk : id -> slots, dead : set of released ids, slot : <<id, i>> -> [st, v]]
LInit == [blk |-> <<>>, dead |-> {}, slot |-> <<>>]
SlotOf(L, b, i) == IF <<b, i>> \in DOMAIN L.slot THEN L.slot[<<b, i>>] ELSE [st |-> "raw", v |-> 0]
SetSlot(L, b, i, st, v) == [L EXCEPT !.slot = [k \in DOMAIN L.slot \cup {<<b, i>>} |-> IF k = <<b, i>> THEN [st |-> st, v |-> v] ELSE L.slot[k]]]
Constructed(L, b, i) == SlotOf(L, b, i).st \in {"live", "moved"}
InBlock(L, b, i) == b \in DOMAIN L.blk /\ i >= 0 /\ i < L.blk[b]
\* one element event: [L, errs]
LedgerStep(L, ev) ==
   LET b == ev.b  i == ev.i  sb == ev.sb  si == ev.si
       dstIn == b # -1
       srcIn == sb # -1
       dstErr == IF ~dstIn THEN {}
                 ELSE IF b \in L.dead THEN {"touch_released_block"}
                 ELSE IF ~InBlock(L, b, i) THEN {"outside_allocation"}
                 ELSE IF ev.k \in {"ctor", "cctor", "mctor"} THEN (IF SlotOf(L, b, i).st # "raw" THEN {"construct_over_constructed_object"} ELSE {})
                 ELSE IF ev.k = "dtor" THEN (IF ~Constructed(L, b, i) THEN {"destroy_unconstructed_or_destroyed"} ELSE {})
                 ELSE IF ev.k \in {"cassign", "massign"} THEN (IF ~Constructed(L, b, i) THEN {"assign_to_unconstructed_or_destroyed"} ELSE {})
                 ELSE (IF ~Constructed(L, b, i) THEN {"read_unconstructed_or_destroyed"} ELSE {})
       srcErr == IF ~srcIn \/ ev.k \in {"ctor", "dtor", "read"} THEN {}
                 ELSE IF sb \in L.dead THEN {"touch_released_block"}
                 ELSE IF ~InBlock(L, sb, si) THEN {"outside_allocation"}
                 ELSE IF ~Constructed(L, sb, si) THEN {"read_unconstructed_or_destroyed"} ELSE {}
       L1 == IF ~dstIn \/ dstErr # {} THEN L
             ELSE IF ev.k = "dtor" THEN SetSlot(L, b, i, "raw", 0)
             ELSE IF ev.k = "read" THEN L
             ELSE SetSlot(L, b, i, "live", ev.v)
       L2 == IF srcIn /\ srcErr = {} /\ ev.k \in {"mctor", "massign"} /\ InBlock(L1, sb, si) /\ ~(sb = b /\ si = i)
             THEN SetSlot(L1, sb, si, "moved", SlotOf(L1, sb, si).v) ELSE L1
   IN [L |-> L2, errs |-> dstErr \cup srcErr]
AllocStep(L, b, n) == [L EXCEPT !.blk = [k \in DOMAIN L.blk \cup {b} |-> IF k = b THEN n ELSE L.blk[k]]]
DeallocErrs(L, b) == IF b \notin DOMAIN L.blk THEN {"release_unknown_block"}
                     ELSE IF \E i \in 0..(L.blk[b] - 1) : SlotOf(L, b, i).st # "raw" THEN {"release_block_with_undestroyed_elements"} ELSE {}
DeallocStep(L, b) == [blk |-> [k \in DOMAIN L.blk \ {b} |-> L.blk[k]], dead |-> L.dead \cup {b},
                      slot |-> [k \in {x \in DOMAIN L.slot : x[1] # b} |-> L.slot[k]]]
\* at the end of an operation: the container's block holds exactly its elements
HoldsExactly(L, b, s) ==
   IF b = -1 THEN s = <<>>
   ELSE /\ b \in DOMAIN L.blk
        /\ \A i \in 0..(L.blk[b] - 1) : IF i < Len(s) THEN \/ SlotOf(L, b, i) = [st |-> "live", v |-> s[i + 1]]
                                                           \/ keep /\ SlotOf(L, b, i).st = "moved"
                                                      ELSE SlotOf(L, b, i).st = "raw"
NothingLeft(L) == DOMAIN L.blk = {} /\ \A k \in DOMAIN L.slot : L.slot[k].st = "raw"
=============================================================================
