CONSTANTS Threads = {1, 2, 3, 4, 5, 11, 12, 13, 14}
          Programs = {}
          NotifyUnderLock = TRUE
          Delegates = {}
          CursorBeforeWake = FALSE
          SpuriousWakeups = TRUE
SPECIFICATION TSpec
POSTCONDITION Accepted
CHECK_DEADLOCK FALSE
