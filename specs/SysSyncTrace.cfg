CONSTANTS Threads = {1, 2, 3, 4}
          Programs = {}
          NotifyUnderLock = TRUE
          SpuriousWakeups = TRUE
SPECIFICATION TSpec
POSTCONDITION Accepted
CHECK_DEADLOCK FALSE
