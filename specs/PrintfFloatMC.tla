--------------------------- MODULE PrintfFloatMC ---------------------------
(***************************************************************************)
(* Self-test of the C13 judge: for every small dyadic x = m / 2^k, every    *)
(* conversion, precision, flag set and width of the configuration, the      *)
(* correctly rounded ISO rendering (computed here with TLC's integers) is   *)
(* accepted by FiniteErrs, and renderings that are off by two units in the  *)
(* last digit, lack a fraction digit, or are padded differently are         *)
(* rejected.                                                                *)
(***************************************************************************)
EXTENDS PrintfFloat
CONSTANTS Ms, Ks, Precs, Widths
VARIABLES stage, m, k, neg, conv, p, fl, width
vars == <<stage, m, k, neg, conv, p, fl, width>>
FlagSets == {{}, {45}, {48}, {43}, {32}, {35}, {45, 48}, {35, 43}, {32, 48, 35}}
Init == stage = 0 /\ m \in Ms /\ k = 0 /\ neg = 0 /\ conv = 102 /\ p = 0 /\ fl = {} /\ width = 0
Next == /\ stage = 0 /\ stage' = 1 /\ m' = m
        /\ k' \in Ks /\ neg' \in {0, 1} /\ conv' \in {102, 101, 103, 69, 71} /\ p' \in Precs /\ fl' \in FlagSets /\ width' \in Widths
Spec == Init /\ [][Next]_vars

RECURSIVE P10(_)
P10(n) == IF n = 0 THEN 1 ELSE 10 * P10(n - 1)
RECURSIVE P2(_)
P2(n) == IF n = 0 THEN 1 ELSE 2 * P2(n - 1)
\* round-half-up of  mm / 2^kk * 10^s
Rnd(mm, kk, s) == IF s >= 0 THEN (2 * mm * P10(s) + P2(kk)) \div P2(kk + 1)
                  ELSE (2 * mm + P2(kk) * P10(0 - s)) \div (P2(kk + 1) * P10(0 - s))
RECURSIVE NatDigits(_)
NatDigits(n) == IF n = 0 THEN <<>> ELSE NatDigits(n \div 10) \o <<n % 10>>
RECURSIVE ZPad(_, _)
ZPad(ds, n) == IF Len(ds) >= n THEN ds ELSE ZPad(<<0>> \o ds, n)
Chars(ds) == [i \in 1..Len(ds) |-> 48 + ds[i]]
RECURSIVE StripZ(_)
StripZ(ds) == IF ds # <<>> /\ ds[Len(ds)] = 0 THEN StripZ(SubSeq(ds, 1, Len(ds) - 1)) ELSE ds
\* decimal exponent of the value rounded to q+1 significant digits
ExpOf(mm, kk, q) == IF mm = 0 THEN 0
                    ELSE CHOOSE X \in {Y \in -2..5 : q - Y <= 0 \/ mm * P10(q - Y) < 50000000} : Len(NatDigits(Rnd(mm, kk, q - X))) = q + 1
ExpText(X, up) == <<IF up THEN 69 ELSE 101, IF X < 0 THEN 45 ELSE 43>> \o Chars(ZPad(NatDigits(IF X < 0 THEN 0 - X ELSE X), 2))
FStyle(mm, kk, fd, alt, strip) ==
   LET ds == ZPad(NatDigits(Rnd(mm, kk, fd)), fd + 1)
       ip == SubSeq(ds, 1, Len(ds) - fd)
       fp0 == SubSeq(ds, Len(ds) - fd + 1, Len(ds))
       fp == IF strip THEN StripZ(fp0) ELSE fp0
   IN Chars(ip) \o (IF fp # <<>> \/ alt THEN <<46>> ELSE <<>>) \o Chars(fp)
EStyle(mm, kk, q, alt, strip, up) ==
   LET X == ExpOf(mm, kk, q)
       ds == IF mm = 0 THEN [i \in 1..(q + 1) |-> 0] ELSE NatDigits(Rnd(mm, kk, q - X))
       fp0 == SubSeq(ds, 2, Len(ds))
       fp == IF strip THEN StripZ(fp0) ELSE fp0
   IN <<48 + ds[1]>> \o (IF fp # <<>> \/ alt THEN <<46>> ELSE <<>>) \o Chars(fp) \o ExpText(X, up)
RefBody(mm, kk, cv, pp, alt) ==
   LET up == cv \in {69, 71, 70}
       c == Lower(cv)
   IN IF c = 102 THEN FStyle(mm, kk, pp, alt, FALSE)
      ELSE IF c = 101 THEN EStyle(mm, kk, pp, alt, FALSE, up)
      ELSE LET P == IF pp = 0 THEN 1 ELSE pp
               X == ExpOf(mm, kk, P - 1)
           IN IF X >= -4 /\ X < P THEN FStyle(mm, kk, P - 1 - X, alt, ~alt) ELSE EStyle(mm, kk, P - 1, alt, ~alt, up)
\* the argument with a realistic ulp: (m * 2^40) * 2^(-k-40)
Arg == [cls |-> "fin", neg |-> neg, m |-> BMulPow2(BOfInt(m), 40), e |-> 0 - k - 40]
Dir == [fl |-> fl, width |-> width, prec |-> p, conv |-> conv, last |-> 0]
RefOut == Pad(Dir, RefBody(m, k, conv, p, 35 \in fl), SignStr(Dir, neg), TRUE)
\* position of the last mantissa digit of a body (before the exponent part, if any)
RECURSIVE LastMant(_, _)
LastMant(t, i) == IF i = 0 THEN 0 ELSE IF IsDig(t[i]) /\ ~(\E j \in 1..i : t[j] \in {101, 69}) THEN i ELSE LastMant(t, i - 1)
Bump(t, by) == LET i == LastMant(t, Len(t)) IN [t EXCEPT ![i] = t[i] + by]
AcceptsReference == stage = 1 => FiniteErrs(Arg, Dir, RefOut) = {}
RejectsNeighbours == stage = 1 =>
   LET body == RefBody(m, k, conv, p, 35 \in fl)
       i == LastMant(body, Len(body))
       sg == SignStr(Dir, neg)
   IN /\ (i > 0 /\ body[i] >= 50 /\ body[i] <= 55 /\ Lower(conv) # 103 =>
             /\ "inaccurate" \in FiniteErrs(Arg, Dir, Pad(Dir, Bump(body, 2), sg, TRUE))
             /\ "inaccurate" \in FiniteErrs(Arg, Dir, Pad(Dir, Bump(body, -2), sg, TRUE)))
      \* an extra blank in front / a missing sign is a padding error
      /\ FiniteErrs(Arg, Dir, <<32>> \o RefOut) # {}
      /\ (sg # <<>> => FiniteErrs(Arg, [Dir EXCEPT !.width = 0], body) # {})
      \* f and e: one fraction digit fewer is a shape error
      /\ (Lower(conv) = 102 /\ p >= 2 => "shape" \in FiniteErrs(Arg, [Dir EXCEPT !.width = 0], sg \o SubSeq(body, 1, Len(body) - 1)))
=============================================================================
