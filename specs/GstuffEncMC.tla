----------------------------- MODULE GstuffEncMC -----------------------------
(***************************************************************************)
(* C04 at the specification level: for every payload over the interesting  *)
(* alphabet the frame Encode(cx, p) has the stated structure and, fed to   *)
(* the (transcribed) receiver with a large buffer, yields exactly one      *)
(* packet, on the last byte, equal to p.                                   *)
(***************************************************************************)
EXTENDS Gstuff
CONSTANTS Names, MaxLen, Data
VARIABLES name, p
vars == <<name, p>>

Specials(cx) == {cx.START, cx.STOP, cx.STUB, cx.SSTART, cx.SSTOP, cx.SSTUB}
\* single bytes whose CRC is itself a marker / escape byte
CrcSpecial(cx) == {b \in 0..255 : CrcOf(<<b>>) \in Specials(cx)}
Alphabet(n) == Specials(CtxOf(n)) \cup CrcSpecial(CtxOf(n)) \cup Data
Payloads(n) == UNION {[1..k -> Alphabet(n)] : k \in 0..MaxLen}

Init == name \in Names /\ p \in Payloads(name)
Next == UNCHANGED vars
Spec == Init /\ [][Next]_vars

\* run the receiver over a byte string: [s, sts, out, at]
RECURSIVE Run(_, _, _, _, _)
Run(n, s, bytes, i, acc) ==
   IF i > Len(bytes) THEN acc
   ELSE LET r == RecvStep(n, s, bytes[i], Len(bytes) + 8)
        IN Run(n, r.s, bytes, i + 1,
               IF r.st = NEWPACKAGE THEN [npk |-> acc.npk + 1, at |-> i, out |-> r.out] ELSE acc)

FrameShape ==
   LET cx == CtxOf(name)  f == Encode(cx, p)  n == Len(p) IN
   /\ f[1] = cx.START /\ f[Len(f)] = cx.STOP /\ Len(f) <= 2*n + 4
   \* no unescaped marker inside: START and STOP never occur between the two ends
   /\ \A i \in 2..(Len(f)-1) : f[i] # cx.START /\ f[i] # cx.STOP
RoundTrip ==
   LET f == Encode(CtxOf(name), p)
       r == Run(name, ImplInit, f, 1, [npk |-> 0, at |-> 0, out |-> <<>>])
   IN /\ r.npk = 1 /\ r.at = Len(f)
      /\ r.out = (IF name = "legacy" THEN Append(p, CrcOf(p)) ELSE p)   \* legacy: known finding delivered_with_crc
=============================================================================
