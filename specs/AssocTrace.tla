------------------------------ MODULE AssocTrace ------------------------------
EXTENDS Assoc, Judge, Sequences
VARIABLES l, sync
RECURSIVE SortedKeys(_)
SortedKeys(S) == IF S = {} THEN <<>> ELSE LET x == CHOOSE y \in S : \A z \in S : y <= z IN <<x>> \o SortedKeys(S \ {x})
Exp(ev) ==
   [size |-> IF ev.kind = "map" THEN Cardinality(DOMAIN m') ELSE Cardinality(s'),
    keys |-> IF ev.kind = "map" THEN SortedKeys(DOMAIN m') ELSE SortedKeys(s'),
    vals |-> IF ev.kind = "map" THEN [i \in 1..Cardinality(DOMAIN m') |-> m'[SortedKeys(DOMAIN m')[i]]] ELSE <<>>,
    ret |-> IF Len(ret') >= 2 THEN ret'[2] ELSE 0,
    threw |-> IF ret'[1] = "throws" THEN 1 ELSE 0,
    found |-> IF ret'[1] \in {"found", "at", "index", "insert"} \/ (ret'[1] \in {"count", "scount", "emplace"}) THEN 1 ELSE 0]
Step(ev) ==
   CASE ev.op = "MIndex" -> MIndex(ev.k) [] ev.op = "MSet" -> MSet(ev.k, ev.v) [] ev.op = "MAt" -> MAt(ev.k)
     [] ev.op = "MFind" -> MFind(ev.k) [] ev.op = "MCount" -> MCount(ev.k) [] ev.op = "MInsert" -> MInsert(ev.k, ev.v)
     [] ev.op = "MEmplace" -> MEmplace(ev.k, ev.v) [] ev.op = "MClear" -> MClear
     [] ev.op = "SInsert" -> SInsert(ev.k) [] ev.op = "SCount" -> SCount(ev.k) [] ev.op = "SClear" -> SClear
TInit == JInit /\ l = 1 /\ sync = FALSE /\ m = <<>> /\ s = {} /\ ret = <<"init">>
TNext ==
   /\ l <= NTrace /\ l' = l + 1 /\ Consumed(l)
   /\ LET ev == TraceLog[l] IN
      IF ev.e = "Reset" THEN m' = <<>> /\ s' = {} /\ ret' = <<"init">> /\ sync' = TRUE
      ELSE IF ~sync THEN UNCHANGED <<vars, sync>>
      ELSE IF ev.e = "Fault" THEN Flag(l, <<"fault">>, [kind |-> ev.kind, where |-> ev.where]) /\ sync' = FALSE /\ UNCHANGED vars
      ELSE /\ Step(ev)
           /\ LET exp == Exp(ev) mm == Mismatch(ev, exp) IN
              IF mm # {} THEN Flag(l, SetToSeq(mm), exp) /\ sync' = FALSE ELSE sync' = TRUE
TSpec == TInit /\ [][TNext]_<<vars, l, sync>>
Accepted == WriteVerdict
=============================================================================
