CONSTANTS Names = {"default", "v0", "legacy"}
          Caps = {6, 8}
          Data = {0, 97}
SPECIFICATION Spec
INVARIANTS Sound Safety MonRunSame
