--------------------------- MODULE LineEditTrace ---------------------------
(***************************************************************************)
(* Trace specification for C15.  Key events: the lines handed to execute,  *)
(* the signal, the accessor values and the screen reached by interpreting  *)
(* the echoed bytes must equal what the reference editor of LineEdit.tla   *)
(* gives.  Sl* events: the sline API against its reference.                *)
(***************************************************************************)
EXTENDS LineEdit, Judge
VARIABLES l, sync, kind, scr
tvars == <<l, sync, kind, scr>>
Guard == <<165, 165, 165, 165, 165, 165, 165, 165>>
Prompt == <<36, 32>>     \* "$ "

ScreenOK(sc) == \/ sc.row = Prompt \o line' /\ sc.col = Len(Prompt) + cursor'
                \/ line' = <<>> /\ sc.row = <<>> /\ sc.col = 0            \* prompt not printed yet
GuardsOK(ev) == kind' # "c" \/ (ev.gl = Guard /\ ev.gr = Guard /\ ev.hgl = Guard /\ ev.hgr = Guard)

\* len/cursor are public fields of the C struct; the C++ twin keeps them private (and resets them lazily)
JudgeKey(ev, ex, scr0) ==
   LET sc == Screen(scr0, ev.out, 1)
       exp == [exec |-> ex.exec, sig |-> ex.sig, nul |-> [i \in 1..Len(ex.exec) |-> 0]]
              @@ (IF kind' = "c" THEN [len |-> Len(line'), cursor |-> cursor'] ELSE <<>>)
       mm == Mismatch(ev, exp) \cup (IF ScreenOK(sc) THEN {} ELSE {"screen"})
                               \cup (IF GuardsOK(ev) THEN {} ELSE {"guard"})
   IN /\ scr' = sc
      /\ IF mm # {} THEN Flag(l, SetToSeq(mm), exp @@ [line |-> line', screen_row |-> sc.row, screen_col |-> sc.col]) /\ sync' = FALSE
         ELSE sync' = TRUE

JudgeSl(ev) ==
   LET hasNul == \E i \in 1..Len(line') : line'[i] = 0
       exp == [ret |-> outp', len |-> Len(line'), cursor |-> cursor', buf |-> line',
               \* the read-only accessors: right part of the line, its size, cursor-at-end test, comparison with a C string
               rsize |-> Len(line') - cursor', inright |-> IF Len(line') = cursor' THEN 1 ELSE 0,
               rpart |-> SubSeq(line', cursor' + 1, Len(line')),
               eq_self |-> IF hasNul THEN 0 ELSE 1, eq_other |-> 0]
              @@ (IF kind' = "sl" THEN [avail |-> cap' - Len(line'), empty |-> IF line' = <<>> THEN 1 ELSE 0, size |-> Len(line')] ELSE <<>>)
       mm == Mismatch(ev, exp) \cup (IF kind' = "sl" /\ (ev.gl # Guard \/ ev.gr # Guard) THEN {"guard"} ELSE {})
   IN /\ UNCHANGED scr
      /\ IF mm # {} THEN Flag(l, SetToSeq(mm), exp) /\ sync' = FALSE ELSE sync' = TRUE

\* vt100_left(buf, n): the cursor-left sequence both terminals emit on every redraw is ESC [ <n in decimal> D, NUL terminated,
\* and the returned length is that of the sequence - for every n (lines longer than 2^16 columns included)
RECURSIVE DecDigits(_)
DecDigits(n) == IF n < 10 THEN <<48 + n>> ELSE Append(DecDigits(n \div 10), 48 + (n % 10))
JudgeVt(ev) ==
   LET want == <<27, 91>> \o DecDigits(ev.n) \o <<68>>
       exp == [out |-> want \o <<0>>, ret |-> Len(want)]
       mm == Mismatch(ev, exp) \cup (IF ev.gl # Guard \/ ev.gr # Guard THEN {"guard"} ELSE {})
   IN /\ UNCHANGED <<vars, scr>>
      /\ IF mm # {} THEN Flag(l, SetToSeq(mm), exp) /\ sync' = TRUE ELSE sync' = TRUE
Step(ev) ==
   CASE ev.e = "Key"   -> Key(ev.k) /\ JudgeKey(ev, outp', scr)
     [] ev.e = "VtLeft" -> JudgeVt(ev)
     [] ev.e = "SlPut" -> SlPut(ev.c) /\ JudgeSl(ev)
     [] ev.e = "SlNew" -> SlNew(ev.s) /\ JudgeSl(ev)
     [] ev.e = "SlBs"  -> SlBs(ev.n) /\ JudgeSl(ev)
     [] ev.e = "SlDel" -> SlDel(ev.n) /\ JudgeSl(ev)
     [] ev.e = "SlLeft" -> SlLeft /\ JudgeSl(ev)
     [] ev.e = "SlRight" -> SlRight /\ JudgeSl(ev)
     [] ev.e = "SlGet" -> SlGet /\ JudgeSl(ev)
     [] ev.e = "SlReset" -> SlReset /\ JudgeSl(ev)

TInit == /\ JInit /\ l = 1 /\ sync = FALSE /\ kind = "c" /\ scr = [row |-> <<>>, col |-> 0]
         /\ cap = 2 /\ depth = 1 /\ line = <<>> /\ cursor = 0 /\ esc = 0 /\ last = 0 /\ hist = <<>> /\ browse = 0
         /\ outp = [exec |-> <<>>, sig |-> 0]
TNext ==
   /\ l <= NTrace /\ l' = l + 1 /\ Consumed(l)
   /\ LET ev == TraceLog[l] IN
      \* Reinit: the same terminal object initialised again with another capacity / depth - as good as new
      IF ev.e = "Reset" \/ (ev.e = "Reinit" /\ sync) THEN
           /\ kind' = ev.kind /\ cap' = ev.cap /\ depth' = ev.depth
           /\ line' = <<>> /\ cursor' = 0 /\ esc' = 0 /\ last' = 0 /\ hist' = <<>> /\ browse' = 0
           /\ outp' = [exec |-> <<>>, sig |-> 0]
           /\ IF ev.kind \in {"c", "xx"} THEN JudgeKey(ev, [exec |-> <<>>, sig |-> 0], [row |-> <<>>, col |-> 0])
              ELSE scr' = [row |-> <<>>, col |-> 0] /\ sync' = TRUE
      ELSE IF ~sync THEN UNCHANGED <<vars, sync, kind, scr>>
      ELSE IF ev.e = "Fault" THEN Flag(l, <<"fault">>, [kind |-> ev.kind, where |-> ev.where]) /\ sync' = FALSE /\ UNCHANGED <<vars, kind, scr>>
      ELSE UNCHANGED kind /\ Step(ev)
TSpec == TInit /\ [][TNext]_<<vars, tvars>>
Accepted == WriteVerdict
=============================================================================
