CONSTANTS NHs = {2, 3}
          NNs = {4}
SPECIFICATION Spec
INVARIANTS WellFormed RefinementInv Unreachable
