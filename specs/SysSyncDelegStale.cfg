CONSTANTS Threads <- T3
          Programs <- ProgDeleg
          NotifyUnderLock = TRUE
          Delegates <- D3
          CursorBeforeWake = TRUE
          SpuriousWakeups = FALSE
SPECIFICATION FairSpec
INVARIANTS NoDoubleWake NoTouchAfterDestroy LockInv NoSpuriousReturn QueueInv QueueWellFormed PerProducerOrder
PROPERTIES NoLostWakeup WakeOrderOK
CHECK_DEADLOCK FALSE
