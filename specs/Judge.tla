------------------------------- MODULE Judge -------------------------------
(***************************************************************************)
(* Shared part of every trace ("judge") specification.                     *)
(* "Judge, don't block": a trace specification consumes every line of the  *)
(* recorded trace; a line the specification cannot explain is recorded in  *)
(* TLC register 1 (with the clause that failed and the value the           *)
(* specification expected) and the execution is skipped up to the next     *)
(* Reset.  The POSTCONDITION serialises the verdict for the runner.        *)
(* Needs -workers 1.                                                       *)
(***************************************************************************)
EXTENDS TLC, TLCExt, Json, IOUtils, Sequences, Integers, FiniteSets

TraceLog == ndJsonDeserialize(IOEnv.TRACE)
NTrace == Len(TraceLog)
MaxBad == 300

JInit == TLCSet(1, <<>>) /\ TLCSet(2, 0) /\ TLCSet(3, 0)

\* record one unexplainable event
Flag(l, clauses, exp) ==
   /\ TLCSet(3, TLCGet(3) + 1)
   /\ IF Len(TLCGet(1)) < MaxBad
      THEN TLCSet(1, Append(TLCGet(1), [line |-> l, clauses |-> clauses, exp |-> exp]))
      ELSE TRUE

Consumed(l) == TLCSet(2, l)

\* names of the fields of exp whose logged value differs
Mismatch(ev, exp) == {k \in DOMAIN exp : ev[k] # exp[k]}
RECURSIVE SetToSeq(_)
SetToSeq(S) == IF S = {} THEN <<>> ELSE LET x == CHOOSE y \in S : TRUE IN <<x>> \o SetToSeq(S \ {x})

WriteVerdict ==
   JsonSerialize(IOEnv.VERDICT, [consumed |-> TLCGet(2), total |-> NTrace,
                                 nbad |-> TLCGet(3), bad |-> TLCGet(1)])
=============================================================================
