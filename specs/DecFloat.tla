------------------------------ MODULE DecFloat ------------------------------
(***************************************************************************)
(* C12 / C13 - binary floating point values against decimal text.          *)
(*                                                                         *)
(* Every finite binary float is the exact rational  m * 2^e  (m a natural  *)
(* number, e an integer), every decimal text the exact rational D * 10^-s. *)
(* "The text is accurate to u units of its last digit plus k ulps" is then *)
(* an inequality between natural numbers after multiplying through by the  *)
(* common denominator.  TLC has 32-bit integers only, so naturals are      *)
(* sequences of limbs in base 10^4, least significant limb first, without  *)
(* a most significant zero limb (<<>> is zero).  The base is a power of    *)
(* ten, so decimal digit strings convert by grouping and multiplying by a  *)
(* power of ten is a shift.                                                *)
(*                                                                         *)
(* A float is a record [cls, neg, m, e]: cls in "fin","inf","nan";         *)
(* neg in 0,1; m limbs; e the exponent of the unit in the last place (the  *)
(* harness logs the integer significand, 24 / 53 bits, and e = exponent    *)
(* of its last bit, so 2^e is the ulp of the value, also for denormals).   *)
(***************************************************************************)
EXTENDS Integers, Sequences, TLC

BB == 10000
\* ---------------------------------------------------------------- naturals
RECURSIVE BNorm(_)
BNorm(a) == IF a # <<>> /\ a[Len(a)] = 0 THEN BNorm(SubSeq(a, 1, Len(a) - 1)) ELSE a
BLimb(a, i) == IF i <= Len(a) THEN a[i] ELSE 0
RECURSIVE BAddFrom(_, _, _, _)
BAddFrom(a, b, i, c) ==
   IF i > Len(a) /\ i > Len(b) THEN (IF c = 0 THEN <<>> ELSE <<c>>)
   ELSE LET x == BLimb(a, i) + BLimb(b, i) + c IN <<x % BB>> \o BAddFrom(a, b, i + 1, x \div BB)
BAdd(a, b) == BAddFrom(a, b, 1, 0)
\* a - b for a >= b
RECURSIVE BSubFrom(_, _, _, _)
BSubFrom(a, b, i, br) ==
   IF i > Len(a) THEN <<>>
   ELSE LET x == a[i] - BLimb(b, i) - br IN
        IF x < 0 THEN <<x + BB>> \o BSubFrom(a, b, i + 1, 1) ELSE <<x>> \o BSubFrom(a, b, i + 1, 0)
BSub(a, b) == BNorm(BSubFrom(a, b, 1, 0))
\* -1, 0, 1
RECURSIVE BCmpFrom(_, _, _)
BCmpFrom(a, b, i) == IF i = 0 THEN 0 ELSE IF a[i] < b[i] THEN -1 ELSE IF a[i] > b[i] THEN 1 ELSE BCmpFrom(a, b, i - 1)
BCmp(a, b) == IF Len(a) < Len(b) THEN -1 ELSE IF Len(a) > Len(b) THEN 1 ELSE BCmpFrom(a, b, Len(a))
BLeq(a, b) == BCmp(a, b) <= 0
BAbsDiff(a, b) == IF BLeq(b, a) THEN BSub(a, b) ELSE BSub(b, a)
\* a * k for 0 <= k <= 100000
RECURSIVE BMulSFrom(_, _, _, _)
BMulSFrom(a, k, i, c) ==
   IF i > Len(a) THEN (IF c = 0 THEN <<>> ELSE IF c < BB THEN <<c>> ELSE <<c % BB, c \div BB>>)
   ELSE LET x == a[i] * k + c IN <<x % BB>> \o BMulSFrom(a, k, i + 1, x \div BB)
BMulS(a, k) == IF k = 0 \/ a = <<>> THEN <<>> ELSE BMulSFrom(a, k, 1, 0)
BShiftLimbs(a, n) == IF a = <<>> THEN <<>> ELSE [i \in 1..n |-> 0] \o a
RECURSIVE BMulFrom(_, _, _)
BMulFrom(a, b, j) == IF j > Len(b) THEN <<>> ELSE BAdd(BShiftLimbs(BMulS(a, b[j]), j - 1), BMulFrom(a, b, j + 1))
BMul(a, b) == IF a = <<>> \/ b = <<>> THEN <<>> ELSE IF Len(a) >= Len(b) THEN BMulFrom(a, b, 1) ELSE BMulFrom(b, a, 1)
SmallPow10(n) == IF n = 0 THEN 1 ELSE IF n = 1 THEN 10 ELSE IF n = 2 THEN 100 ELSE 1000
BMulPow10(a, n) == BShiftLimbs(BMulS(a, SmallPow10(n % 4)), n \div 4)
RECURSIVE BPow2(_)
BPow2(n) == IF n = 0 THEN <<1>> ELSE IF n >= 13 THEN BMulS(BPow2(n - 13), 8192) ELSE BMulS(BPow2(n - 1), 2)
BMulPow2(a, n) == IF n = 0 THEN a ELSE BMul(a, BPow2(n))
RECURSIVE BOfInt(_)
BOfInt(k) == IF k = 0 THEN <<>> ELSE IF k < BB THEN <<k>> ELSE <<k % BB>> \o BOfInt(k \div BB)
\* digit values, most significant first  ->  natural
RECURSIVE BOfDigitsFrom(_, _)
BOfDigitsFrom(ds, hi) ==            \* digits ds[1..hi]
   IF hi <= 0 THEN <<>>
   ELSE LET d(i) == IF i >= 1 THEN ds[i] ELSE 0 IN
        <<d(hi) + 10 * d(hi - 1) + 100 * d(hi - 2) + 1000 * d(hi - 3)>> \o BOfDigitsFrom(ds, hi - 4)
BOfDigits(ds) == BNorm(BOfDigitsFrom(ds, Len(ds)))

\* ------------------------------------------------------------ closeness of  m * 2^e  and  D * 10^-s
MaxI(a, b) == IF a > b THEN a ELSE b
\* | m*2^e - D*10^-s |  <=  (u2 / 2) * 10^-s  +  k * 2^ue            (s may be negative)
Within(m, e, D, s, u2, k, ue) ==
   LET sp == MaxI(s, 0)                      \* decimal places of the common unit
       D1 == BMulPow10(D, MaxI(0 - s, 0))    \* text = D1 * 10^-sp
       lo == IF e < ue THEN e ELSE ue
       F == MaxI(0 - lo, 0)                  \* binary places of the common unit
       \* common unit 10^-sp * 2^-F ; everything doubled so that half units stay integral
       A == BMulS(BMulPow2(BMulPow10(m, sp), e + F), 2)
       T == BMulS(BMulPow2(D1, F), 2)
       tol == BAdd(BMulS(BMulPow10(BPow2(F), MaxI(0 - s, 0)), u2), BMulS(BMulPow2(BMulPow10(<<1>>, sp), ue + F), 2 * k))
   IN BLeq(BAbsDiff(A, T), tol)

\* ------------------------------------------------------------ decimal text
IsDig(c) == c >= 48 /\ c <= 57
\* index of the first non-digit at or after i - by halving the index range (recursion depth log n: literals of 10^5 characters)
RECURSIVE FirstNonDig(_, _, _)
FirstNonDig(t, lo, hi) ==          \* first index in lo..hi holding a non-digit, hi + 1 if there is none
   IF lo > hi THEN hi + 1
   ELSE IF lo = hi THEN (IF IsDig(t[lo]) THEN hi + 1 ELSE lo)
   ELSE LET mid == (lo + hi) \div 2  l == FirstNonDig(t, lo, mid) IN IF l <= mid THEN l ELSE FirstNonDig(t, mid + 1, hi)
DigEnd(t, i) == FirstNonDig(t, i, Len(t))
\* first / last index in lo..hi of a sequence of digit values that is not zero (hi + 1 / lo - 1 if all are zero)
RECURSIVE FirstNZ(_, _, _)
FirstNZ(ds, lo, hi) == IF lo > hi THEN hi + 1 ELSE IF lo = hi THEN (IF ds[lo] = 0 THEN hi + 1 ELSE lo)
                       ELSE LET mid == (lo + hi) \div 2  l == FirstNZ(ds, lo, mid) IN IF l <= mid THEN l ELSE FirstNZ(ds, mid + 1, hi)
RECURSIVE LastNZ(_, _, _)
LastNZ(ds, lo, hi) == IF lo > hi THEN lo - 1 ELSE IF lo = hi THEN (IF ds[lo] = 0 THEN lo - 1 ELSE lo)
                      ELSE LET mid == (lo + hi) \div 2  r == LastNZ(ds, mid + 1, hi) IN IF r > mid THEN r ELSE LastNZ(ds, lo, mid)
DigVals(t, a, b) == [i \in 1..(b - a) |-> t[a + i - 1] - 48]       \* digits t[a..b-1]
\* [-]digits[.digits] exactly: [ok, neg, ip, fp] with ip / fp the digit value sequences
PlainDecimal(t) ==
   LET neg == Len(t) >= 1 /\ t[1] = 45
       a == IF neg THEN 2 ELSE 1
       b == DigEnd(t, a)
       hasPoint == b <= Len(t) /\ t[b] = 46
       c == IF hasPoint THEN DigEnd(t, b + 1) ELSE b
   IN [ok |-> b > a /\ c = Len(t) + 1 /\ (hasPoint => c > b + 1),
       neg |-> neg, ip |-> DigVals(t, a, b), fp |-> IF hasPoint THEN DigVals(t, b + 1, c) ELSE <<>>, point |-> hasPoint]
OnlyNumeric(t) == \A i \in 1..Len(t) : IsDig(t[i]) \/ t[i] \in {45, 43, 46}

\* ------------------------------------------------------------ C12, rendering: igris_f32toa / f64toa / ftoa
\* x: the argument as a binary32 value (the renderer computes in binary32); prec: requested precision
InfNanText(x, t) == IF x.cls = "nan" THEN t \in {<<110, 97, 110>>, <<45, 110, 97, 110>>, <<43, 110, 97, 110>>}
                    ELSE t \in {<<105, 110, 102>>} \cup (IF x.neg = 1 THEN {<<45, 105, 110, 102>>} ELSE {<<43, 105, 110, 102>>})
RenderUlps == 4      \* binary representation error: the float renderer rounds a few times in binary32
RenderErrs(x, prec, t) ==
   IF x.cls # "fin" THEN (IF InfNanText(x, t) THEN {} ELSE {"inf_nan_token"})
   ELSE LET p == PlainDecimal(t) IN
        IF ~p.ok THEN {"not_a_decimal"}
        ELSE (IF prec >= 0 /\ prec <= 10 /\ Len(p.fp) # prec THEN {"fraction_digits"} ELSE {})
             \cup (IF (prec < 0 \/ prec > 10) /\ Len(p.fp) > 10 THEN {"fraction_digits"} ELSE {})
             \cup (IF p.neg /\ x.neg = 0 THEN {"sign"} ELSE {})
             \cup (IF ~p.neg /\ x.neg = 1 /\ \E i \in 1..Len(p.ip \o p.fp) : (p.ip \o p.fp)[i] # 0 THEN {"sign"} ELSE {})
             \cup (IF ~Within(x.m, x.e, BOfDigits(p.ip \o p.fp), Len(p.fp), 2, RenderUlps, x.e) THEN {"inaccurate"} ELSE {})

\* ------------------------------------------------------------ C12, parsing: atof32 / atof64 / strtod / atof
RECURSIVE SatVal(_, _, _)
SatVal(ds, i, acc) == IF i > Len(ds) THEN acc ELSE SatVal(ds, i + 1, IF acc >= 100000000 THEN acc ELSE acc * 10 + ds[i])
\* literal grammar [+-]d*[.d*][(e|E)[+-]d+] with at least one mantissa digit; the longest such prefix is consumed
Literal(t) ==
   LET hasSign == Len(t) >= 1 /\ t[1] \in {43, 45}
       a == IF hasSign THEN 2 ELSE 1
       b == DigEnd(t, a)
       hasPoint == b <= Len(t) /\ t[b] = 46
       c == IF hasPoint THEN DigEnd(t, b + 1) ELSE b
       nd == (b - a) + (IF hasPoint THEN c - b - 1 ELSE 0)
       mend == IF hasPoint /\ nd > 0 THEN c ELSE b                 \* "5." consumes the point, "." alone nothing
       hasE == nd > 0 /\ mend <= Len(t) /\ t[mend] \in {101, 69}
       es == IF hasE /\ mend + 1 <= Len(t) /\ t[mend + 1] \in {43, 45} THEN mend + 2 ELSE mend + 1
       ee == IF hasE THEN DigEnd(t, es) ELSE mend
       expOK == hasE /\ ee > es
       \* exponent value, exact up to 10^8 (a written exponent of 100000 can be cancelled by as many leading or trailing zeros of the
       \* mantissa: it is not "far out of range" by itself); saturated beyond that; leading zeros do not count
       ev == IF expOK THEN SatVal(DigVals(t, es, ee), 1, 0) ELSE 0
       eneg == expOK /\ t[mend + 1] = 45
   IN [ok |-> nd > 0,
       end |-> IF nd = 0 THEN 0 ELSE IF expOK THEN ee - 1 ELSE mend - 1,       \* offset of the first unconsumed character
       neg |-> hasSign /\ t[1] = 45,
       digits |-> DigVals(t, a, b) \o (IF hasPoint THEN DigVals(t, b + 1, c) ELSE <<>>),
       scale |-> (IF hasPoint THEN c - b - 1 ELSE 0) - (IF eneg THEN 0 - ev ELSE ev)]   \* value = digits * 10^-scale
ParseUlps == 8       \* "a few ulps"
\* r: returned float (binary32 or binary64 record), end: reported end offset (or -1 when no end pointer was passed)
\* emin: exponent of the smallest denormal ulp, emax: 2^emax is the first value that overflows, pbits: significand bits
AllZero(ds) == FirstNZ(ds, 1, Len(ds)) > Len(ds)
ParseErrs(t, r, end, emin, emax, pbits) ==
   LET L == Literal(t) IN
   IF ~L.ok THEN (IF end # -1 /\ end # 0 THEN {"end"} ELSE {}) \cup (IF r.cls # "fin" \/ r.m # <<>> THEN {"value"} ELSE {})
   ELSE (IF end # -1 /\ end # L.end THEN {"end"} ELSE {})
        \cup (IF AllZero(L.digits) THEN (IF r.cls = "fin" /\ r.m = <<>> THEN {} ELSE {"value"})
              ELSE LET \* the significant digits: leading zeros do not change the value, trailing zeros only the scale
                       fz == FirstNZ(L.digits, 1, Len(L.digits))  lz == LastNZ(L.digits, 1, Len(L.digits))
                       core == SubSeq(L.digits, fz, lz)
                       D == BOfDigits(core)
                       nd == Len(core)
                       sc == L.scale - (Len(L.digits) - lz)              \* value = core * 10^-sc
                       \* decimal order of magnitude: 10^(nd - sc - 1) <= value < 10^(nd - sc)
                       mag == nd - sc
                   IN IF mag > 320 THEN (IF r.cls = "inf" THEN {} ELSE {"overflow_not_inf"})
                      ELSE IF mag < -340 THEN (IF r.cls = "fin" /\ (r.m = <<>> \/ r.e = emin) THEN {} ELSE {"underflow_not_zero"})
                      ELSE IF r.cls = "inf" THEN
                           \* overflow is within tolerance iff the literal is not more than ParseUlps ulps (of the top binade) below 2^emax
                           (IF Within(BPow2(pbits), emax - pbits, D, sc, 0, ParseUlps, emax - pbits)
                               \/ ~BLeq(BMulPow10(D, MaxI(0 - sc, 0)), BMulPow10(BPow2(emax), MaxI(sc, 0)))
                            THEN {} ELSE {"value"})
                      ELSE IF r.cls # "fin" THEN {"value"}
                      ELSE (IF (r.neg = 1) # L.neg THEN {"sign"} ELSE {})
                           \cup (IF ~Within(r.m, r.e, D, sc, 0, ParseUlps, r.e) THEN {"inaccurate"} ELSE {}))
=============================================================================
