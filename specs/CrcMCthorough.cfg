CONSTANTS Seeds = {0, 255, 49, 140}
          Alphabet = {0, 1, 128, 255}
          MaxLen = 5
SPECIFICATION Spec
INVARIANTS Fast32Same SparseSame SparseWide Chunking8 Chunking16 Chunking32 Residue8 SameAsTableForm
CHECK_DEADLOCK FALSE
