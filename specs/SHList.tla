------------------------------- MODULE SHList -------------------------------
(***************************************************************************)
(* C01 (second part) - singly linked slist (C and C++ wrapper) and hlist.  *)
(* Cell 0 is the list head, cells 1..nn are nodes.                         *)
(* Property layer: lst, the reference sequence.                            *)
(* Implementation-shaped: nx (next pointers; slist is circular through the *)
(* head, hlist is NULL (= -1) terminated) and pp (hlist pprev, as the cell *)
(* whose next field it addresses).                                         *)
(***************************************************************************)
EXTENDS Integers, Sequences, FiniteSets, TLC
CONSTANTS NNs
VARIABLES kind, nn, lst, fresh, nx, pp
vars == <<kind, nn, lst, fresh, nx, pp>>

Nodes == 1..nn
Elems(s) == {s[i] : i \in 1..Len(s)}
Pos(s, c) == CHOOSE i \in 1..Len(s) : s[i] = c
InsAfterPos(s, i, c) == SubSeq(s, 1, i) \o <<c>> \o SubSeq(s, i+1, Len(s))
Without(s, c) == SelectSeq(s, LAMBDA x : x # c)
End == IF kind = "hlist" THEN -1 ELSE 0

Init == /\ kind \in {"slist", "slistxx", "hlist"} /\ nn \in NNs
        /\ lst = <<>> /\ fresh = 1..nn
        /\ nx = [c \in 0..nn |-> IF c = 0 THEN (IF kind = "hlist" THEN -1 ELSE 0) ELSE -9]
        /\ pp = [c \in 1..nn |-> -9]
Fix == UNCHANGED <<kind, nn>>

\* slist_add(link, head) / hlist_add_next(node, &head->first)
AddFront(n) ==
   /\ n \in Nodes /\ n \notin Elems(lst) /\ Fix
   /\ lst' = <<n>> \o lst /\ fresh' = fresh \ {n}
   /\ nx' = [nx EXCEPT ![n] = nx[0], ![0] = n]
   /\ pp' = IF kind = "hlist"
            THEN [c \in 1..nn |-> IF c = n THEN 0 ELSE IF nx[0] = c THEN n ELSE pp[c]]
            ELSE pp
\* slist_add(link, member) / hlist_add_next(node, &member->next)
AddAfter(n, a) ==
   /\ kind # "slistxx" /\ n \in Nodes /\ n \notin Elems(lst) /\ a \in Elems(lst) /\ Fix
   /\ lst' = InsAfterPos(lst, Pos(lst, a), n) /\ fresh' = fresh \ {n}
   /\ nx' = [nx EXCEPT ![n] = nx[a], ![a] = n]
   /\ pp' = IF kind = "hlist"
            THEN [c \in 1..nn |-> IF c = n THEN a ELSE IF nx[a] = c THEN n ELSE pp[c]]
            ELSE pp
\* slist_pop_first: NULL on an empty list
PopFirst ==
   /\ kind = "slist" /\ Fix /\ UNCHANGED <<fresh, pp>>
   /\ IF lst = <<>> THEN UNCHANGED <<lst, nx>>
      ELSE lst' = Tail(lst) /\ nx' = [nx EXCEPT ![0] = nx[lst[1]]]
\* hlist_del: on a linked node, or (harmless) on a node that was never added
Del(n) ==
   /\ kind = "hlist" /\ n \in Nodes /\ Fix /\ UNCHANGED fresh
   /\ IF n \in fresh THEN UNCHANGED <<lst, nx, pp>>
      ELSE /\ n \in Elems(lst)
           /\ lst' = Without(lst, n)
           /\ nx' = [nx EXCEPT ![pp[n]] = nx[n]]
           /\ pp' = [c \in 1..nn |-> IF nx[n] = c THEN pp[n] ELSE pp[c]]

MaxOf(S) == CHOOSE x \in S : \A y \in S : y <= x
AllN == 1 .. MaxOf(NNs)
Next == \/ \E n \in AllN : AddFront(n)
        \/ \E n \in AllN : Del(n)
        \/ \E n \in AllN, a \in AllN : AddAfter(n, a)
        \/ PopFirst
Spec == Init /\ [][Next]_vars

\* pointers implement the reference sequence
RECURSIVE Walk(_, _, _)
Walk(f, c, k) == IF c = End \/ k = 0 THEN <<>> ELSE <<c>> \o Walk(f, f[c], k-1)
RefinementInv ==
   /\ Walk(nx, nx[0], nn + 1) = lst
   /\ Cardinality(Elems(lst)) = Len(lst)
   /\ kind = "hlist" => \A i \in 1..Len(lst) : pp[lst[i]] = (IF i = 1 THEN 0 ELSE lst[i-1])
                                               /\ nx[pp[lst[i]]] = lst[i]
=============================================================================
