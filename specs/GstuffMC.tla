------------------------------ MODULE GstuffMC ------------------------------
(***************************************************************************)
(* Exhaustive product: receiver automaton x monitor, history-free, so byte *)
(* streams of every length are covered for the capacities in the config.   *)
(***************************************************************************)
EXTENDS Gstuff
CONSTANTS Names, Caps, Data
VARIABLES name, cap, s, m, err
vars == <<name, cap, s, m, err>>

Init == /\ name \in Names /\ cap \in Caps /\ s = ImplInit /\ m = MonInit /\ err = {}

Specials(cx) == {cx.START, cx.STOP, cx.STUB, cx.SSTART, cx.SSTOP, cx.SSTUB}
Feed(c) ==
   LET r == RecvStep(name, s, c, cap)
       mo == MonStep(name, m, c, r.st, r.out, cap)
   IN /\ s' = r.s /\ m' = mo.m /\ err' = mo.errs /\ UNCHANGED <<name, cap>>
\* the byte that completes a valid checksum for what the monitor has accumulated
FeedCrc == /\ CrcOf(m.acc) \notin Specials(CtxOf(name)) /\ Feed(CrcOf(m.acc))

AllBytes == Specials(Default) \cup Specials(V0) \cup Data
Next == \/ \E c \in AllBytes : (c \in Specials(CtxOf(name)) \cup Data) /\ Feed(c)
        \/ FeedCrc
Spec == Init /\ [][Next]_vars

\* ----- the listed property -------------------------------------------------------
\* known deviations of the legacy receiver (recorded in known_findings.json)
LegacyKnown == {"delivered_with_crc", "delivery_without_start_marker", "legacy_fragment_delivered"}
\* the closed form of the monitor (and of the automaton) over a run of plain bytes equals the byte-by-byte fold, from every reachable
\* state, for every run up to length 4 over the data bytes
Runs == UNION {[1..k -> Data] : k \in 0..4}
MonRunSame == \A r \in Runs : (\A i \in 1..Len(r) : Plain(CtxOf(name), r[i])) =>
                 /\ MonRunCx(CtxOf(name), name = "legacy", m, r, cap) = MonFold(CtxOf(name), name = "legacy", m, r, 1, cap)
                 /\ LET a == ImplRun(CtxOf(name), name = "legacy", s, r, cap)  b == ImplFold(CtxOf(name), name = "legacy", s, r, 1, cap, TRUE)
                    IN a.allzero => (b.allzero /\ a.s = b.s)
Sound == IF name = "legacy" THEN err \subseteq LegacyKnown ELSE err = {}
Safety == Len(s.line) <= cap - 1
=============================================================================
