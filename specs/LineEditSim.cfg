CONSTANTS Caps = {5, 8}
          Depths = {3}
SPECIFICATION Spec
INVARIANTS BoundsInv HistDistinct
