---------------------------- MODULE NumTextTrace ----------------------------
(***************************************************************************)
(* Trace specification for C07.                                            *)
(*  Toa: the 112-byte window (8 guard bytes, 96-byte buffer, 8 guard bytes, *)
(*       pre-filled with 0xA5) must hold exactly the canonical text and its*)
(*       terminator and nothing else; igris_*toa return the terminator.    *)
(*  Ato: value (two's complement, result width) and end offset.            *)
(*  Dpr: debug printers: decimal canonical, hex/bin zero padded full width.*)
(***************************************************************************)
EXTENDS NumText, Judge
VARIABLES l, sync
Signed(fn) == fn \in {"i8", "i16", "i32", "i64", "itoa", "ltoa"}
\* documented letter case: igris_i*toa and the libc shims lower, igris_u*toa upper
Upper(fn) == fn \in {"u8", "u16", "u32", "u64"}
Text(ev) == IF Signed(ev.fn) THEN RenderI(ev.val, ev.base, Upper(ev.fn)) ELSE RenderU(ev.val, ev.base, Upper(ev.fn))
Fill(n) == [i \in 1..n |-> 165]
ToaExp(ev) == LET t == Text(ev) IN
   [win |-> Fill(8) \o t \o <<0>> \o Fill(96 - Len(t) - 1 + 8),
    retoff |-> IF ev.fn \in {"itoa", "utoa", "ltoa", "ultoa"} THEN 0 ELSE Len(t)]
W(fn) == CASE fn \in {"i8", "u8"} -> 1 [] fn \in {"i16", "u16"} -> 2 [] fn \in {"i32", "u32"} -> 4 [] OTHER -> 8
AtoExp(ev) == LET r == IF Signed(ev.fn) THEN ParseI(ev.text, ev.base, 8) ELSE ParseU(ev.text, ev.base, 8)
              IN [val |-> SubSeq(r.val, 1, W(ev.fn)), endoff |-> r.end]
RevSeq(q) == [i \in 1..Len(q) |-> q[Len(q) + 1 - i]]
\* w digits per byte, byte after byte (F renders one byte)
PerByte(q, w, F(_)) == [j \in 1..(w * Len(q)) |-> F(<<q[((j - 1) \div w) + 1]>>)[((j - 1) % w) + 1]]
DprExp(ev) ==
   [out |-> CASE ev.fn \in {"dec_i8", "dec_i16", "dec_i32", "dec_i64", "dec_il"} -> RenderI(ev.val, 10, TRUE)
              [] ev.fn \in {"dec_u8", "dec_u16", "dec_u32", "dec_u64", "dec_uc", "dec_ul"} -> RenderU(ev.val, 10, TRUE)
              [] ev.fn \in {"dec_us", "dec_ui"} -> RenderU(ev.val, 10, TRUE)
              [] ev.fn \in {"hex_u8", "hex_u16", "hex_u32", "hex_u64"} -> HexFixed(ev.val)
              \* the printers named after C types and the pointer printer: the value, most significant digit first, full width
              [] ev.fn \in {"hex_c", "hex_uc", "hex_sc", "hex_us", "hex_ss", "hex_ui", "hex_si", "hex_ul", "hex_sl", "hex_ull", "hex_sll", "hex_ptr"} -> HexFixed(ev.val)
              \* memory images (val = the bytes in address order): two hex / eight binary digits per byte, in address order or reversed
              [] ev.fn = "mem_hex" -> PerByte(ev.val, 2, HexFixed)
              [] ev.fn = "mem_hexr" -> PerByte(RevSeq(ev.val), 2, HexFixed)
              [] ev.fn = "mem_bin" -> PerByte(ev.val, 8, BinFixed)
              [] ev.fn = "mem_binr" -> PerByte(RevSeq(ev.val), 8, BinFixed)
              [] OTHER -> BinFixed(ev.val)]
TInit == JInit /\ l = 1 /\ sync = TRUE
TNext ==
   /\ l <= NTrace /\ l' = l + 1 /\ Consumed(l) /\ sync' = TRUE
   /\ LET ev == TraceLog[l] IN
      IF ev.e = "Reset" THEN TRUE
      ELSE IF ev.e = "Fault" THEN Flag(l, <<"fault">>, [kind |-> ev.kind, where |-> ev.where])
      ELSE LET exp == IF ev.e = "Toa" THEN ToaExp(ev) ELSE IF ev.e = "Ato" THEN AtoExp(ev) ELSE DprExp(ev)
               mm == Mismatch(ev, exp)
           IN IF mm # {} THEN Flag(l, SetToSeq(mm), IF ev.e = "Toa" THEN [text |-> Text(ev), retoff |-> exp.retoff] ELSE exp) ELSE TRUE
TSpec == TInit /\ [][TNext]_<<l, sync>>
Accepted == WriteVerdict
=============================================================================
