---------------------------- MODULE NumTextTrace ----------------------------
(***************************************************************************)
(* Trace specification for C07.                                            *)
(*  Toa: the 112-byte window (8 guard bytes, 96-byte buffer, 8 guard bytes, *)
(*       pre-filled with 0xA5) must hold exactly the canonical text and its*)
(*       terminator and nothing else; igris_*toa return the terminator.    *)
(*  Ato: value (two's complement, result width) and end offset.            *)
(*  Dpr: debug printers: decimal canonical, hex/bin zero padded full width.*)
(***************************************************************************)
EXTENDS NumText, Judge
VARIABLES l, sync
Signed(fn) == fn \in {"i8", "i16", "i32", "i64", "itoa", "ltoa"}
\* documented letter case: igris_i*toa and the libc shims lower, igris_u*toa upper
Upper(fn) == fn \in {"u8", "u16", "u32", "u64"}
Text(ev) == IF Signed(ev.fn) THEN RenderI(ev.val, ev.base, Upper(ev.fn)) ELSE RenderU(ev.val, ev.base, Upper(ev.fn))
Fill(n) == [i \in 1..n |-> 165]
ToaExp(ev) == LET t == Text(ev) IN
   [win |-> Fill(8) \o t \o <<0>> \o Fill(96 - Len(t) - 1 + 8),
    retoff |-> IF ev.fn \in {"itoa", "utoa", "ltoa", "ultoa"} THEN 0 ELSE Len(t)]
W(fn) == CASE fn \in {"i8", "u8"} -> 1 [] fn \in {"i16", "u16"} -> 2 [] fn \in {"i32", "u32"} -> 4 [] OTHER -> 8
AtoExp(ev) == LET r == IF Signed(ev.fn) THEN ParseI(ev.text, ev.base, 8) ELSE ParseU(ev.text, ev.base, 8)
              IN [val |-> SubSeq(r.val, 1, W(ev.fn)), endoff |-> r.end]
DprExp(ev) ==
   [out |-> CASE ev.fn \in {"dec_i8", "dec_i16", "dec_i32", "dec_i64", "dec_il"} -> RenderI(ev.val, 10, TRUE)
              [] ev.fn \in {"dec_u8", "dec_u16", "dec_u32", "dec_u64", "dec_uc", "dec_ul"} -> RenderU(ev.val, 10, TRUE)
              [] ev.fn \in {"hex_u8", "hex_u16", "hex_u32", "hex_u64"} -> HexFixed(ev.val)
              [] OTHER -> BinFixed(ev.val)]
TInit == JInit /\ l = 1 /\ sync = TRUE
TNext ==
   /\ l <= NTrace /\ l' = l + 1 /\ Consumed(l) /\ sync' = TRUE
   /\ LET ev == TraceLog[l] IN
      IF ev.e = "Reset" THEN TRUE
      ELSE IF ev.e = "Fault" THEN Flag(l, <<"fault">>, [kind |-> ev.kind, where |-> ev.where])
      ELSE LET exp == IF ev.e = "Toa" THEN ToaExp(ev) ELSE IF ev.e = "Ato" THEN AtoExp(ev) ELSE DprExp(ev)
               mm == Mismatch(ev, exp)
           IN IF mm # {} THEN Flag(l, SetToSeq(mm), IF ev.e = "Toa" THEN [text |-> Text(ev), retoff |-> exp.retoff] ELSE exp) ELSE TRUE
TSpec == TInit /\ [][TNext]_<<l, sync>>
Accepted == WriteVerdict
=============================================================================
