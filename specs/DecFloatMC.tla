---------------------------- MODULE DecFloatMC ----------------------------
(* laws of the arithmetic and text layer of DecFloat.tla, checked by TLC over small domains against TLC's own integers *)
EXTENDS DecFloat
CONSTANTS Nats, Alphabet, MaxLen
Exps == {-5, -3, -1, 0, 1, 3}
VARIABLES kind, a, b, t
vars == <<kind, a, b, t>>
Strs == UNION {[1..n -> Alphabet] : n \in 0..MaxLen}
Init == \/ kind = "arith" /\ a \in Nats /\ b \in Nats /\ t = <<>>
        \/ kind = "within" /\ a \in Nats /\ b \in Nats /\ t = <<>>
        \/ kind = "text" /\ a = 0 /\ b = 0 /\ t \in Strs
Next == UNCHANGED vars
Spec == Init /\ [][Next]_vars
Pow(x, n) == IF n = 0 THEN 1 ELSE IF n = 1 THEN x ELSE IF n = 2 THEN x * x ELSE IF n = 3 THEN x * x * x ELSE x * x * x * x
RECURSIVE Pow2N(_)
Pow2N(n) == IF n = 0 THEN 1 ELSE 2 * Pow2N(n - 1)
\* the limb arithmetic is integer arithmetic (operands scaled up so that several limbs are involved)
Arith == kind = "arith" =>
   LET x == a * 9973 + a  y == b * 7919 + 3 IN
   /\ BAdd(BOfInt(x), BOfInt(y)) = BOfInt(x + y)
   /\ (x >= y => BSub(BOfInt(x), BOfInt(y)) = BOfInt(x - y))
   /\ BCmp(BOfInt(x), BOfInt(y)) = (IF x < y THEN -1 ELSE IF x > y THEN 1 ELSE 0)
   /\ BMul(BOfInt((a % 1000) * 37), BOfInt((b % 500) * 41)) = BOfInt((a % 1000) * 37 * (b % 500) * 41)
   /\ BMulS(BOfInt(a), b % 30000) = BOfInt(a * (b % 30000))
   /\ BMulPow10(BOfInt(a % 20000), b % 6) = BOfInt((a % 20000) * Pow(10, IF b % 6 = 5 THEN 4 ELSE b % 6) * (IF b % 6 = 5 THEN 10 ELSE 1))
   /\ BPow2(b % 30) = BOfInt(Pow2N(b % 30))
   /\ BMulPow2(BOfInt(a % 4000), b % 19) = BOfInt((a % 4000) * Pow2N(b % 19))
\* Within is the stated inequality, for every small significand / exponent / text / tolerance
Abs(x) == IF x < 0 THEN 0 - x ELSE x
WithinLaw == kind = "within" =>
   \A e \in Exps : \A s \in {-1, 0, 1, 2} : \A u2 \in {0, 1, 2} : \A k \in {0, 1, 3} : \A ue \in {e, e - 1} :
      LET F == MaxI(0 - ue, 0)          \* ue <= e
          sp == MaxI(s, 0)
          aw == a % 300  bw == b % 300
          lhs == 2 * Abs(aw * Pow2N(e + F) * Pow(10, sp) - bw * Pow(10, MaxI(0 - s, 0)) * Pow2N(F))
          rhs == u2 * Pow2N(F) * Pow(10, MaxI(0 - s, 0)) + 2 * k * Pow2N(ue + F) * Pow(10, sp)
      IN Within(BOfInt(aw), e, BOfInt(bw), s, u2, k, ue) = (lhs <= rhs)
\* text layer
Take(s, n) == SubSeq(s, 1, n)
TextLaws == kind = "text" =>
   LET L == Literal(t) IN
   /\ L.end >= 0 /\ L.end <= Len(t)
   /\ (L.ok <=> L.end > 0)
   \* the consumed prefix is itself a complete literal with the same value
   /\ (L.ok => LET P == Literal(Take(t, L.end)) IN P.ok /\ P.end = L.end /\ P.digits = L.digits /\ P.scale = L.scale /\ P.neg = L.neg)
   \* the consumed prefix is maximal: no longer prefix of t is a complete literal
   /\ \A n \in (L.end + 1)..Len(t) : LET Q == Literal(Take(t, n)) IN ~(Q.ok /\ Q.end = n)
   \* a plain decimal is a literal without exponent, consumed entirely, unless it starts with the point
   /\ (PlainDecimal(t).ok => L.ok /\ L.end = Len(t) /\ L.scale = Len(PlainDecimal(t).fp))
=============================================================================
