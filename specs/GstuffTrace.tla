---------------------------- MODULE GstuffTrace ----------------------------
(***************************************************************************)
(* Trace specification for C04 (Encode events) and C05 (Recv events).      *)
(* Recv: the monitor of Gstuff.tla judges every (byte, status) pair;       *)
(*       the implementation-shaped automaton is compared status by status  *)
(*       (impl_* clauses = model drift only).                              *)
(* Encode: the bytes produced must equal Encode(cx, p); feeding them to    *)
(*       the real receiver must have given exactly one packet, at the last *)
(*       byte, equal to p.                                                 *)
(***************************************************************************)
EXTENDS Gstuff, Judge
VARIABLES l, sync, name, cxv, cap, m, s
vars == <<l, sync, name, cxv, cap, m, s>>
\* the context in force is taken from the Reset event (six bytes), so any configured context is judged, not only the shipped ones
CxOf(v) == [START |-> v[1], STOP |-> v[2], STUB |-> v[3], SSTART |-> v[4], SSTOP |-> v[5], SSTUB |-> v[6]]
Guard == <<165, 165, 165, 165, 165, 165, 165, 165>>

RecvStepJ(ev) ==
   LET mo == MonStepCx(cxv, name = "legacy", m, ev.c, ev.st, ev.out, cap)
       im == RecvStepCx(cxv, name = "legacy", s, ev.c, cap)
       errs == mo.errs \cup (IF ev.size > cap - 1 \/ ev.size < 0 THEN {"stored_more_than_capacity"} ELSE {})
                       \cup (IF ev.gl # Guard \/ ev.gr # Guard THEN {"guard"} ELSE {})
       drift == (IF im.st # ev.st THEN {"impl_status"} ELSE {})
                \cup (IF Len(im.s.line) # ev.size THEN {"impl_size"} ELSE {})
   IN /\ m' = mo.m /\ s' = im.s /\ UNCHANGED <<name, cxv, cap>>
      \* recorded deviations of the legacy receiver are flagged but judging goes on
      /\ IF errs # {} THEN Flag(l, SetToSeq(errs), [want |-> mo.want, model_status |-> im.st])
                            /\ sync' = (errs \subseteq {"delivered_with_crc", "delivery_without_start_marker", "legacy_fragment_delivered"})
         ELSE IF drift # {} THEN Flag(l, SetToSeq(drift), [model_status |-> im.st, model_size |-> Len(im.s.line)]) /\ sync' = TRUE
         ELSE sync' = TRUE

\* a run of plain bytes (none of the six context bytes) for each of which status 0 was reported, merged by the driver into one event:
\* cs the bytes, size / maxsize the stored count after the last byte / the largest during the run
RecvRunJ(ev) ==
   LET legacy == name = "legacy"
       okrun == \A i \in 1..Len(ev.cs) : Plain(cxv, ev.cs[i])
       mo == MonRunCx(cxv, legacy, m, ev.cs, cap)
       im == ImplRun(cxv, legacy, s, ev.cs, cap)
       errs == (IF ev.size > cap - 1 \/ ev.size < 0 \/ ev.maxsize > cap - 1 THEN {"stored_more_than_capacity"} ELSE {})
               \cup (IF ev.gl # Guard \/ ev.gr # Guard THEN {"guard"} ELSE {})
       drift == (IF ~im.allzero THEN {"impl_status"} ELSE {}) \cup (IF Len(im.s.line) # ev.size THEN {"impl_size"} ELSE {})
                \cup (IF ~okrun THEN {"impl_run_not_plain"} ELSE {})
   IN /\ m' = mo /\ s' = im.s /\ UNCHANGED <<name, cxv, cap>>
      /\ IF errs # {} THEN Flag(l, SetToSeq(errs), [model_size |-> Len(im.s.line)]) /\ sync' = FALSE
         ELSE IF drift # {} THEN Flag(l, SetToSeq(drift), [model_size |-> Len(im.s.line)]) /\ sync' = TRUE
         ELSE sync' = TRUE

EncodeJ(ev) ==
   LET cx == cxv
       want == Encode(cx, ev.p)
       n == Len(ev.p)
       errs == (IF ev.out # want THEN {"frame"} ELSE {})
               \cup (IF ev.ret # Len(want) THEN {"ret"} ELSE {})
               \cup (IF Len(want) > 2*n + 4 THEN {"length_bound"} ELSE {})
               \cup (IF ev.gl # Guard \/ ev.gr # Guard \/ \E i \in 1..Len(ev.tail) : ev.tail[i] # 165 THEN {"guard"} ELSE {})
               \cup (IF ev.npk # 1 THEN {"packet_count"} ELSE {})
               \cup (IF ev.npk = 1 /\ ev.at # Len(ev.out) THEN {"packet_not_on_last_byte"} ELSE {})
               \cup (IF ev.npk = 1 /\ ev.delivered # ev.p
                     THEN (IF name = "legacy" /\ ev.delivered = Append(ev.p, CrcOf(ev.p)) THEN {"delivered_with_crc"} ELSE {"roundtrip_content"})
                     ELSE {})
   IN /\ UNCHANGED <<name, cxv, cap, m, s>>
      /\ IF errs # {} THEN Flag(l, SetToSeq(errs), [frame |-> want]) /\ sync' = (errs = {"delivered_with_crc"}) ELSE sync' = TRUE

TInit == JInit /\ l = 1 /\ sync = FALSE /\ name = "default" /\ cxv = Default /\ cap = 2 /\ m = MonInit /\ s = ImplInit
TNext ==
   /\ l <= NTrace /\ l' = l + 1 /\ Consumed(l)
   /\ LET ev == TraceLog[l] IN
      IF ev.e = "Reset" THEN /\ name' = ev.name /\ cxv' = CxOf(ev.cx) /\ cap' = ev.cap /\ m' = MonInit /\ s' = ImplInit
                                 \* a context outside the domain of the property is not judged (generator mistake, not an alarm)
                                 /\ sync' = ValidCx(CxOf(ev.cx))
      ELSE IF ~sync THEN UNCHANGED <<sync, name, cxv, cap, m, s>>
      ELSE IF ev.e = "Fault" THEN Flag(l, <<"fault">>, [kind |-> ev.kind, where |-> ev.where]) /\ sync' = FALSE /\ UNCHANGED <<name, cxv, cap, m, s>>
      ELSE IF ev.e = "Reinit" THEN         \* init / setbuf on a receiver in use: as good as new
           /\ m' = MonInit /\ s' = ImplInit /\ UNCHANGED <<name, cxv, cap>>
           /\ IF ev.size # 0 THEN Flag(l, <<"not_empty_after_init">>, [size |-> 0]) /\ sync' = TRUE ELSE sync' = TRUE
      ELSE IF ev.e = "Recv" THEN RecvStepJ(ev)
      ELSE IF ev.e = "RecvRun" THEN RecvRunJ(ev)
      ELSE EncodeJ(ev)
TSpec == TInit /\ [][TNext]_vars
Accepted == WriteVerdict
=============================================================================
