-------------------------------- MODULE Assoc --------------------------------
(***************************************************************************)
(* C02 (second part) - flat_map / flat_set, the std::map / std::set        *)
(* stand-ins: a map is a partial function Key -> Val, a set a set of keys. *)
(***************************************************************************)
EXTENDS Integers, FiniteSets, TLC
CONSTANTS Keys, ValsA
VARIABLES m, s, ret
vars == <<m, s, ret>>
Init == m = <<>> /\ s = {} /\ ret = <<"init">>
Has(k) == k \in DOMAIN m
Put(k, v) == [x \in DOMAIN m \cup {k} |-> IF x = k THEN v ELSE m[x]]
\* operator[]: inserts a value-initialised element when the key is absent
MIndex(k) == /\ m' = (IF Has(k) THEN m ELSE Put(k, 0)) /\ ret' = <<"index", IF Has(k) THEN m[k] ELSE 0>> /\ UNCHANGED s
MSet(k, v) == m' = Put(k, v) /\ ret' = <<"set">> /\ UNCHANGED s                     \* m[k] = v
MAt(k) == /\ UNCHANGED <<m, s>> /\ ret' = (IF Has(k) THEN <<"at", m[k]>> ELSE <<"throws">>)
MFind(k) == /\ UNCHANGED <<m, s>> /\ ret' = (IF Has(k) THEN <<"found", m[k]>> ELSE <<"end">>)
MCount(k) == /\ UNCHANGED <<m, s>> /\ ret' = <<"count", IF Has(k) THEN 1 ELSE 0>>
MInsert(k, v) == /\ m' = (IF Has(k) THEN m ELSE Put(k, v)) /\ ret' = <<"insert", IF Has(k) THEN m[k] ELSE v>> /\ UNCHANGED s
MEmplace(k, v) == /\ m' = (IF Has(k) THEN m ELSE Put(k, v)) /\ ret' = <<"emplace", IF Has(k) THEN 0 ELSE 1>> /\ UNCHANGED s
MClear == m' = <<>> /\ ret' = <<"clear">> /\ UNCHANGED s
SInsert(k) == s' = s \cup {k} /\ ret' = <<"sinsert">> /\ UNCHANGED m
SCount(k) == UNCHANGED <<m, s>> /\ ret' = <<"scount", IF k \in s THEN 1 ELSE 0>>
SClear == s' = {} /\ ret' = <<"sclear">> /\ UNCHANGED m
Next == \/ \E k \in Keys : MIndex(k)
        \/ \E k \in Keys, v \in ValsA : MSet(k, v)
        \/ \E k \in Keys : MAt(k)
        \/ \E k \in Keys : MFind(k)
        \/ \E k \in Keys : MCount(k)
        \/ \E k \in Keys, v \in ValsA : MInsert(k, v)
        \/ \E k \in Keys, v \in ValsA : MEmplace(k, v)
        \/ MClear
        \/ \E k \in Keys : SInsert(k)
        \/ \E k \in Keys : SCount(k)
        \/ SClear
Spec == Init /\ [][Next]_vars
\* std::map laws: at most one element per key, size = number of keys, lookups agree
MapInv == /\ DOMAIN m \subseteq Keys /\ s \subseteq Keys
          /\ (ret[1] = "at" => \E k \in DOMAIN m : m[k] = ret[2])
=============================================================================
