CONSTANTS Sizes = {2, 3, 4, 5}
          Bytes = {0, 65, 255}
          MaxBulk = 2
SPECIFICATION Spec
INVARIANTS TypeOK RefinementInv CountsInv AccessorInv
PROPERTIES RejectInv FifoProp
