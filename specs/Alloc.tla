------------------------------- MODULE Alloc -------------------------------
(***************************************************************************)
(* C10 - the bare-metal heap (compat/mem/lin_malloc.cpp, lin_realloc.cpp)  *)
(* and the fixed-block pools (datastruct/pool.h, container/pool.h,         *)
(* container/static_object_pool.h).                                        *)
(*                                                                         *)
(* Heap, implementation-shaped, in units of U = 8 bytes (= sizeof(size_t)):*)
(*   brk     first unit above the heap in use                              *)
(*   fl      free chunks [a, p] (chunk start, payload units), address order*)
(*   live    id -> [a, p]    chunks handed out (payload starts at a + 1)   *)
(* A request of n bytes gets payload Round(n): rounded up to the word size *)
(* the code uses (__WORDSIZE = 64 bytes = 8 units), at least 1 unit.       *)
(* Property layer = the invariants below (tiling: live and free chunks     *)
(* partition [0, brk), so blocks never overlap and nothing is lost) and    *)
(* the monitor clauses evaluated on recorded traces (AllocTrace.tla).      *)
(***************************************************************************)
EXTENDS Integers, Sequences, FiniteSets, TLC

CONSTANTS Ids, ReqBytes, MaxBrk
VARIABLES brk, fl, live, lastret
vars == <<brk, fl, live, lastret>>

WS == 8                    \* rounding granule in units (64 bytes)
FLSZ == 2                  \* sizeof(struct __freelist) in units
Round(n) == LET u == (n + 7) \div 8            \* bytes -> units
                r == IF u % WS = 0 THEN u ELSE u + (WS - (u % WS))
            IN IF r < FLSZ - 1 THEN FLSZ - 1 ELSE r
\* the code rounds the byte count: len % 64 # 0 => round up; then len >= 8 bytes
RoundBytes(n) == LET r == IF n % 64 = 0 THEN n ELSE n + (64 - (n % 64)) IN (IF r < 8 THEN 8 ELSE r) \div 8

Elems(s) == {s[i] : i \in 1..Len(s)}
RemoveIdx(s, i) == SubSeq(s, 1, i-1) \o SubSeq(s, i+1, Len(s))
End(c) == c.a + 1 + c.p        \* first unit after chunk c

\* ----- malloc ---------------------------------------------------------------------
\* result: [brk, fl, chunk]
MallocRes(b, f, p) ==
   LET exact == {i \in 1..Len(f) : f[i].p = p}
       bigger == {i \in 1..Len(f) : f[i].p > p}
   IN IF exact # {} THEN
           LET i == CHOOSE i \in exact : \A j \in exact : i <= j
           IN [brk |-> b, fl |-> RemoveIdx(f, i), chunk |-> f[i]]
      ELSE IF bigger # {} THEN
           \* smallest fitting chunk, the first of them in list order
           LET i == CHOOSE i \in bigger : \A j \in bigger : f[i].p < f[j].p \/ (f[i].p = f[j].p /\ i <= j)
               s == f[i].p
           IN IF s - p < FLSZ
              THEN [brk |-> b, fl |-> RemoveIdx(f, i), chunk |-> f[i]]            \* use it entirely
              ELSE \* split: lower part stays free, upper part is returned
                   [brk |-> b,
                    fl |-> [f EXCEPT ![i] = [a |-> f[i].a, p |-> s - p - 1]],
                    chunk |-> [a |-> f[i].a + (s - p), p |-> p]]
      ELSE [brk |-> b + p + 1, fl |-> f, chunk |-> [a |-> b, p |-> p]]

\* ----- free -----------------------------------------------------------------------
\* insert in address order, merge with the upper and the lower neighbour, then give
\* the topmost free chunk back to the break
InsertSorted(f, c) ==
   LET k == Cardinality({i \in 1..Len(f) : f[i].a < c.a})
   IN SubSeq(f, 1, k) \o <<c>> \o SubSeq(f, k+1, Len(f))
RECURSIVE Coalesce(_)
Coalesce(f) ==
   IF \E i \in 1..(Len(f)-1) : End(f[i]) = f[i+1].a
   THEN LET i == CHOOSE i \in 1..(Len(f)-1) : End(f[i]) = f[i+1].a
        IN Coalesce(SubSeq(f, 1, i-1) \o <<[a |-> f[i].a, p |-> f[i].p + 1 + f[i+1].p]>> \o SubSeq(f, i+2, Len(f)))
   ELSE f
FreeRes(b, f, c) ==
   LET f1 == Coalesce(InsertSorted(f, c)) IN
   IF f1 # <<>> /\ End(f1[Len(f1)]) = b
   THEN [brk |-> f1[Len(f1)].a, fl |-> SubSeq(f1, 1, Len(f1) - 1)]
   ELSE [brk |-> b, fl |-> f1]

\* ----- realloc --------------------------------------------------------------------
\* result: [brk, fl, chunk]  (chunk.a may differ from c.a when the block moved)
ReallocRes(b, f, c, p) ==
   IF p <= c.p THEN
        IF c.p <= FLSZ \/ p > c.p - FLSZ THEN [brk |-> b, fl |-> f, chunk |-> c]
        ELSE \* split the tail off and free it
             LET tail == [a |-> c.a + 1 + p, p |-> c.p - p - 1]
                 r == FreeRes(b, f, tail)
             IN [brk |-> r.brk, fl |-> r.fl, chunk |-> [a |-> c.a, p |-> p]]
   ELSE LET incr == p - c.p
            above == {i \in 1..Len(f) : f[i].a = End(c) /\ f[i].p + 1 >= incr}
            largest == IF f = <<>> THEN 0 ELSE CHOOSE m \in {f[i].p : i \in 1..Len(f)} : \A j \in 1..Len(f) : f[j].p <= m
        IN IF above # {} THEN
                LET i == CHOOSE i \in above : TRUE IN
                IF f[i].p + 1 - incr > FLSZ
                THEN [brk |-> b, fl |-> [f EXCEPT ![i] = [a |-> c.a + 1 + p, p |-> f[i].p - incr]], chunk |-> [a |-> c.a, p |-> p]]
                ELSE [brk |-> b, fl |-> RemoveIdx(f, i), chunk |-> [a |-> c.a, p |-> c.p + 1 + f[i].p]]
           ELSE IF End(c) = b /\ p > largest THEN [brk |-> c.a + 1 + p, fl |-> f, chunk |-> [a |-> c.a, p |-> p]]
           ELSE LET m == MallocRes(b, f, p)
                    r == FreeRes(m.brk, m.fl, c)
                IN [brk |-> r.brk, fl |-> r.fl, chunk |-> m.chunk]

\* ----- state machine ----------------------------------------------------------------
Init == brk = 0 /\ fl = <<>> /\ live = [i \in {} |-> 0] /\ lastret = -1
\* MallocP / ReallocP take the rounded payload in units (used directly by traces whose byte counts exceed TLC's integers)
MallocP(id, p) ==
   /\ id \notin DOMAIN live
   /\ LET r == MallocRes(brk, fl, p) IN
      /\ brk' = r.brk /\ fl' = r.fl /\ live' = live @@ (id :> r.chunk) /\ lastret' = r.chunk.a + 1
Malloc(id, n) ==
   /\ id \notin DOMAIN live
   /\ LET r == MallocRes(brk, fl, RoundBytes(n)) IN
      /\ brk' = r.brk /\ fl' = r.fl /\ live' = live @@ (id :> r.chunk) /\ lastret' = r.chunk.a + 1
Free(id) ==
   /\ id \in DOMAIN live
   /\ LET r == FreeRes(brk, fl, live[id]) IN
      /\ brk' = r.brk /\ fl' = r.fl /\ live' = [i \in DOMAIN live \ {id} |-> live[i]] /\ lastret' = -1
ReallocP(id, p) ==
   /\ id \in DOMAIN live
   /\ LET r == ReallocRes(brk, fl, live[id], p) IN
      /\ brk' = r.brk /\ fl' = r.fl /\ live' = [live EXCEPT ![id] = r.chunk] /\ lastret' = r.chunk.a + 1
Realloc(id, n) ==
   /\ id \in DOMAIN live
   /\ LET r == ReallocRes(brk, fl, live[id], RoundBytes(n)) IN
      /\ brk' = r.brk /\ fl' = r.fl /\ live' = [live EXCEPT ![id] = r.chunk] /\ lastret' = r.chunk.a + 1
\* a request of nh * 2^20 + nl bytes (nl < 2^20): 2^20 is a multiple of the 64-byte granule, so only nl is rounded
RoundWide(nh, nl) == IF nh = 0 THEN RoundBytes(nl) ELSE nh * 131072 + (IF nl % 64 = 0 THEN nl ELSE nl + (64 - (nl % 64))) \div 8
Next == \/ \E id \in Ids, n \in ReqBytes : Malloc(id, n)
        \/ \E id \in Ids : Free(id)
        \/ \E id \in Ids, n \in ReqBytes : Realloc(id, n)
Spec == Init /\ [][Next]_vars
BrkBound == brk <= MaxBrk

\* ----- the listed property ------------------------------------------------------------
Units(c) == c.a .. (End(c) - 1)
Chunks == {live[i] : i \in DOMAIN live} \cup Elems(fl)
\* live and free chunks tile [0, brk): no overlap, nothing outside, nothing lost
Tiling == /\ \A c, d \in Chunks : c # d => Units(c) \cap Units(d) = {}
          /\ UNION {Units(c) : c \in Chunks} = 0..(brk - 1)
          /\ \A i, j \in DOMAIN live : i # j => live[i] # live[j]
FreeListShape == /\ \A i \in 1..(Len(fl)-1) : End(fl[i]) < fl[i+1].a         \* sorted, never adjacent
                 /\ fl # <<>> => End(fl[Len(fl)]) < brk                     \* topmost free chunk is below a live one
AllFreedRestores == (DOMAIN live = {}) => (brk = 0 /\ fl = <<>>)
Aligned == \A i \in DOMAIN live : live[i].p >= 1

\* ----- pools (implementation-shaped: LIFO free list of cell indices) --------------------
\* pool_engage links the cells in address order with slist_add, so the last cell is handed out first
PoolInit(n) == [free |-> [i \in 1..n |-> n - i], cap |-> n]
PoolAlloc(pl) == IF pl.free = <<>> THEN [pool |-> pl, cell |-> -1]
                 ELSE [pool |-> [pl EXCEPT !.free = Tail(pl.free)], cell |-> Head(pl.free)]
PoolFree(pl, c) == [pl EXCEPT !.free = <<c>> \o pl.free]
=============================================================================
