CONSTANTS Ids = {1}
          ReqBytes = {0}
          MaxBrk = 0
SPECIFICATION TSpec
POSTCONDITION Accepted
CHECK_DEADLOCK FALSE
