---- MODULE Cyclic_TTrace_1791138429 ----
EXTENDS Sequences, TLCExt, Cyclic, Toolbox, Naturals, TLC

_expression ==
    LET Cyclic_TEExpression == INSTANCE Cyclic_TEExpression
    IN Cyclic_TEExpression!expression
----

_trace ==
    LET Cyclic_TETrace == INSTANCE Cyclic_TETrace
    IN Cyclic_TETrace!trace
----

_inv ==
    ~(
        TLCGet("level") = Len(_TETrace)
        /\
        ret = (<<"inc">>)
        /\
        hist = (<<1>>)
        /\
        data = ((0 :> 0 @@ 1 :> 1 @@ 2 :> 0 @@ 3 :> 0))
        /\
        counter = (2)
        /\
        n = (4)
    )
----

_init ==
    /\ counter = _TETrace[1].counter
    /\ n = _TETrace[1].n
    /\ ret = _TETrace[1].ret
    /\ data = _TETrace[1].data
    /\ hist = _TETrace[1].hist
----

_next ==
    /\ \E i,j \in DOMAIN _TETrace:
        /\ \/ /\ j = i + 1
              /\ i = TLCGet("level")
        /\ counter  = _TETrace[i].counter
        /\ counter' = _TETrace[j].counter
        /\ n  = _TETrace[i].n
        /\ n' = _TETrace[j].n
        /\ ret  = _TETrace[i].ret
        /\ ret' = _TETrace[j].ret
        /\ data  = _TETrace[i].data
        /\ data' = _TETrace[j].data
        /\ hist  = _TETrace[i].hist
        /\ hist' = _TETrace[j].hist

\* Uncomment the ASSUME below to write the states of the error trace
\* to the given file in Json format. Note that you can pass any tuple
\* to `JsonSerialize`. For example, a sub-sequence of _TETrace.
    \* ASSUME
    \*     LET J == INSTANCE Json
    \*         IN J!JsonSerialize("Cyclic_TTrace_1791138429.json", _TETrace)

=============================================================================

 Note that you can extract this module `Cyclic_TEExpression`
  to a dedicated file to reuse `expression` (the module in the 
  dedicated `Cyclic_TEExpression.tla` file takes precedence 
  over the module `Cyclic_TEExpression` below).

---- MODULE Cyclic_TEExpression ----
EXTENDS Sequences, TLCExt, Cyclic, Toolbox, Naturals, TLC

expression == 
    [
        \* To hide variables of the `Cyclic` spec from the error trace,
        \* remove the variables below.  The trace will be written in the order
        \* of the fields of this record.
        counter |-> counter
        ,n |-> n
        ,ret |-> ret
        ,data |-> data
        ,hist |-> hist
        
        \* Put additional constant-, state-, and action-level expressions here:
        \* ,_stateNumber |-> _TEPosition
        \* ,_counterUnchanged |-> counter = counter'
        
        \* Format the `counter` variable as Json value.
        \* ,_counterJson |->
        \*     LET J == INSTANCE Json
        \*     IN J!ToJson(counter)
        
        \* Lastly, you may build expressions over arbitrary sets of states by
        \* leveraging the _TETrace operator.  For example, this is how to
        \* count the number of times a spec variable changed up to the current
        \* state in the trace.
        \* ,_counterModCount |->
        \*     LET F[s \in DOMAIN _TETrace] ==
        \*         IF s = 1 THEN 0
        \*         ELSE IF _TETrace[s].counter # _TETrace[s-1].counter
        \*             THEN 1 + F[s-1] ELSE F[s-1]
        \*     IN F[_TEPosition - 1]
    ]

=============================================================================



Parsing and semantic processing can take forever if the trace below is long.
 In this case, it is advised to uncomment the module below to deserialize the
 trace from a generated binary file.

\*
\*---- MODULE Cyclic_TETrace ----
\*EXTENDS IOUtils, Cyclic, TLC
\*
\*trace == IODeserialize("Cyclic_TTrace_1791138429.bin", TRUE)
\*
\*=============================================================================
\*

---- MODULE Cyclic_TETrace ----
EXTENDS Cyclic, TLC

trace == 
    <<
    ([ret |-> <<"init">>,hist |-> <<>>,data |-> (0 :> 0 @@ 1 :> 0 @@ 2 :> 0 @@ 3 :> 0),counter |-> 0,n |-> 4]),
    ([ret |-> <<"push", 0>>,hist |-> <<1>>,data |-> (0 :> 0 @@ 1 :> 1 @@ 2 :> 0 @@ 3 :> 0),counter |-> 1,n |-> 4]),
    ([ret |-> <<"inc">>,hist |-> <<1>>,data |-> (0 :> 0 @@ 1 :> 1 @@ 2 :> 0 @@ 3 :> 0),counter |-> 2,n |-> 4])
    >>
----


=============================================================================

---- CONFIG Cyclic_TTrace_1791138429 ----
CONSTANTS
    Ns = { 1 , 2 , 3 , 4 }
    Vals = { 1 , 2 }
    MaxArg = 9

INVARIANT
    _inv

CHECK_DEADLOCK
    \* CHECK_DEADLOCK off because of PROPERTY or INVARIANT above.
    FALSE

INIT
    _init

NEXT
    _next

CONSTANT
    _TETrace <- _trace

ALIAS
    _expression
=============================================================================
\* Generated on Sun Oct 04 18:27:10 UTC 2026