CONSTANTS Sizes = {8}
          Bytes = {0, 255}
          MaxBulk = 3
SPECIFICATION Spec
INVARIANTS TypeOK RefinementInv CountsInv AccessorInv
PROPERTIES RejectInv
