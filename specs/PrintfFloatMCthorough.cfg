CONSTANTS Ms = {0, 1, 2, 3, 4, 5, 6, 7, 8, 9, 10, 11, 15, 16, 17, 19, 24, 25, 31, 32, 33, 39, 40, 47, 63, 64, 65, 79, 80, 81, 95, 96, 99, 100, 101, 127, 128, 159, 160, 161, 255, 799, 800, 999, 1000, 1001, 1599, 1600, 1601, 9999, 10000, 12345, 15999, 16000}
          Ks = {0, 1, 2, 3, 4}
          Precs = {0, 1, 2, 3}
          Widths = {0, 9}
SPECIFICATION Spec
INVARIANTS AcceptsReference RejectsNeighbours
CHECK_DEADLOCK FALSE
