----------------------------- MODULE CodecTrace -----------------------------
EXTENDS Codec, Judge
VARIABLES l, sync
Guard == <<165, 165, 165, 165, 165, 165, 165, 165>>
TInit == JInit /\ l = 1 /\ sync = TRUE
TNext ==
   /\ l <= NTrace /\ l' = l + 1 /\ Consumed(l) /\ sync' = TRUE
   /\ LET ev == TraceLog[l] IN
      IF ev.e = "Reset" THEN TRUE
      ELSE IF ev.e = "Fault" THEN Flag(l, <<"fault">>, [kind |-> ev.kind, where |-> ev.where])
      \* a hexadecimal text of odd length is not something the encoder produces: what the decoder makes of it is not constrained, but it
      \* must stay inside an output buffer that has room for the whole pairs (guard bytes; reads and writes beyond them are ASan's)
      ELSE LET exp == IF ev.fn = "hexdec_c_odd" THEN [out |-> ev.out] ELSE [out |-> Def(ev.fn, ev.in)]
               mm == Mismatch(ev, exp) \cup (IF ev.g = 1 /\ (ev.gl # Guard \/ ev.gr # Guard) THEN {"guard"} ELSE {})
           IN IF mm # {} THEN Flag(l, SetToSeq(mm), exp) ELSE TRUE
TSpec == TInit /\ [][TNext]_<<l, sync>>
Accepted == WriteVerdict
=============================================================================
