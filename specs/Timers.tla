------------------------------- MODULE Timers -------------------------------
(***************************************************************************)
(* C16 - igris::timer_manager (igris/time/timer_manager.h) and the         *)
(* flag-style stimer (igris/datastruct/stimer.c).                          *)
(*                                                                         *)
(* Scheduler state S = [list, start, interval, cb]:                        *)
(*   list      planned timers (implementation order: by deadline, FIFO     *)
(*             among equal deadlines); the property layer only uses the    *)
(*             SET of its elements                                         *)
(*   start, interval   per timer; deadline = start + interval              *)
(*   cb        scripted effect of the timer's callback:                    *)
(*             <<"none">> | <<"unplan", t>> | <<"plan", t, ds, i>>         *)
(*             (plan timer t with start = now + ds and interval i)         *)
(*             | <<"exec2">> (the callback runs exec(now) of ANOTHER       *)
(*             manager: no effect on this one; the trace specification     *)
(*             keeps a second, independent scheduler state for it)         *)
(*                                                                         *)
(* Property layer: RefExec(S, now, fired) accepts a firing sequence iff    *)
(* every firing is due, no due timer with an earlier deadline is passed    *)
(* over, and when the sequence ends no planned timer is due.  A timer that *)
(* is planned when its callback returns is re-armed at deadline + interval *)
(* (of the start/interval it has at that moment - the statement's literal  *)
(* rule, which is also what the code does when a callback re-plans its own *)
(* timer).                                                                 *)
(* Implementation-shaped layer: ImplExec walks the sorted list.            *)
(***************************************************************************)
EXTENDS Integers, Sequences, FiniteSets, TLC

CONSTANTS NTs, MaxNow, Starts, Intervals, Steps, Effects
VARIABLES nt, now, S, sm
\* sm: the stimer [start, interval, planed]
vars == <<nt, now, S, sm>>

Timers == 1..nt
Elems(s) == {s[i] : i \in 1..Len(s)}
Without(s, c) == SelectSeq(s, LAMBDA x : x # c)
Deadline(s, t) == s.start[t] + s.interval[t]
Planned(s) == Elems(s.list)

\* plan(tim): unplan, then insert before the first timer with a later deadline
PlanIns(s, t) ==
   LET l0 == Without(s.list, t)
       later == {i \in 1..Len(l0) : Deadline(s, t) < Deadline(s, l0[i])}
       k == IF later = {} THEN Len(l0) + 1 ELSE CHOOSE i \in later : \A j \in later : i <= j
   IN [s EXCEPT !.list = SubSeq(l0, 1, k-1) \o <<t>> \o SubSeq(l0, k, Len(l0))]
PlanAt(s, t, st, iv) == PlanIns([s EXCEPT !.start[t] = st, !.interval[t] = iv], t)
UnplanT(s, t) == [s EXCEPT !.list = Without(s.list, t)]

\* effect of timer f's callback at time tm
ApplyCb(s, f, tm) ==
   LET e == s.cb[f] IN
   CASE e[1] = "none"   -> s
     [] e[1] = "exec2"  -> s
     [] e[1] = "unplan" -> UnplanT(s, e[2])
     [] e[1] = "plan"   -> PlanAt(s, e[2], tm + e[3], e[4])
\* what exec does with a timer that has just fired
AfterFire(s, f, tm) ==
   LET s1 == ApplyCb(s, f, tm) IN
   IF f \in Planned(s1)
   THEN PlanIns([s1 EXCEPT !.start[f] = s1.start[f] + s1.interval[f]], f)
   ELSE s1

Due(s, tm) == {t \in Planned(s) : Deadline(s, t) <= tm}

\* ----- property layer: judge a firing sequence --------------------------------
RECURSIVE RefExec(_, _, _)
RefExec(s, tm, fired) ==
   IF fired = <<>>
   THEN IF Due(s, tm) = {} THEN [ok |-> TRUE, clause |-> "", s |-> s]
        ELSE [ok |-> FALSE, clause |-> "due_timer_not_fired", s |-> s]
   ELSE LET f == Head(fired) IN
        IF f \notin Planned(s) THEN [ok |-> FALSE, clause |-> "unplanned_timer_fired", s |-> s]
        ELSE IF Deadline(s, f) > tm THEN [ok |-> FALSE, clause |-> "fired_before_deadline", s |-> s]
        ELSE IF \E t \in Due(s, tm) : Deadline(s, t) < Deadline(s, f)
             THEN [ok |-> FALSE, clause |-> "deadline_order", s |-> s]
        ELSE RefExec(AfterFire(s, f, tm), tm, Tail(fired))

\* ----- implementation-shaped layer ---------------------------------------------
RECURSIVE ImplExec(_, _, _)
ImplExec(s, tm, acc) ==
   IF s.list = <<>> THEN [s |-> s, fired |-> acc]
   ELSE LET f == s.list[1] IN
        IF tm - s.start[f] >= s.interval[f]
        THEN ImplExec(AfterFire(s, f, tm), tm, Append(acc, f))
        ELSE [s |-> s, fired |-> acc]

\* ----- state machine -------------------------------------------------------------
Init == /\ nt \in NTs /\ now = 0
        /\ S = [list |-> <<>>, start |-> [t \in 1..nt |-> 0], interval |-> [t \in 1..nt |-> 1],
                cb |-> [t \in 1..nt |-> <<"none">>]]
        /\ sm = [start |-> 0, interval |-> 1, planed |-> 0]
Fix == UNCHANGED nt

Plan(t, st, iv) == /\ t \in Timers /\ S' = PlanAt(S, t, st, iv) /\ UNCHANGED <<now, sm>> /\ Fix
\* start given relative to the current time (the form the exhaustive configuration enumerates)
PlanRel(t, ds, iv) == /\ t \in Timers /\ S' = PlanAt(S, t, now + ds, iv) /\ UNCHANGED <<now, sm>> /\ Fix
\* plan(tim) with the parameters the timer already has
Replan(t) == /\ t \in Timers /\ S' = PlanIns(S, t) /\ UNCHANGED <<now, sm>> /\ Fix
Unplan(t) == /\ t \in Timers /\ S' = UnplanT(S, t) /\ UNCHANGED <<now, sm>> /\ Fix
SetCb(t, e) == /\ t \in Timers /\ (e[1] \notin {"none", "exec2"} => e[2] \in Timers)
               /\ S' = [S EXCEPT !.cb[t] = e] /\ UNCHANGED <<now, sm>> /\ Fix
Exec(d) == /\ now' = now + d /\ S' = ImplExec(S, now + d, <<>>).s /\ UNCHANGED sm /\ Fix

\* stimer
SInit(st, iv) == sm' = [start |-> st, interval |-> iv, planed |-> 0] /\ UNCHANGED <<nt, now, S>>
SPlan(st, iv) == sm' = [start |-> st, interval |-> iv, planed |-> 1] /\ UNCHANGED <<nt, now, S>>
SStart(st)    == sm' = [sm EXCEPT !.start = st, !.planed = 1] /\ UNCHANGED <<nt, now, S>>
SSwift        == sm' = [sm EXCEPT !.start = sm.start + sm.interval] /\ UNCHANGED <<nt, now, S>>
SCheck(s, tm) == s.planed = 1 /\ tm - s.start >= s.interval

MaxT == CHOOSE x \in NTs : \A y \in NTs : y <= x
Next == \/ \E t \in 1..MaxT, ds \in Starts, iv \in Intervals : PlanRel(t, ds, iv)
        \/ \E t \in 1..MaxT : Replan(t)
        \/ \E t \in 1..MaxT : Unplan(t)
        \/ \E t \in 1..MaxT, e \in Effects : SetCb(t, e)
        \/ \E d \in Steps : Exec(d)
Spec == Init /\ [][Next]_vars
TimeBound == now <= MaxNow

\* ----- the listed property, checked on the implementation-shaped scheduler -------
\* for every reachable state and every time step the implementation's firing
\* sequence is one the reference accepts, and both end in the same state
ExecRefines ==
   \A d \in Steps :
      LET r == ImplExec(S, now + d, <<>>)
          j == RefExec(S, now + d, r.fired)
      IN j.ok /\ j.s = r.s
\* the list is sorted by deadline and duplicate-free
ListSorted ==
   /\ Cardinality(Elems(S.list)) = Len(S.list)
   /\ \A i, j \in 1..Len(S.list) : i < j => Deadline(S, S.list[i]) <= Deadline(S, S.list[j])
\* after exec nothing is due
NothingDueAfterExec == [][now' # now => Due(S', now') = {}]_vars
=============================================================================
