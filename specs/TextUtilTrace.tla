---------------------------- MODULE TextUtilTrace ----------------------------
EXTENDS TextUtil, Judge
VARIABLES l, sync
Names == <<<<99, 109, 100>>, <<97>>, <<97, 98>>, <<104, 101, 108, 112>>>>     \* "cmd" "a" "ab" "help"
Fill(n) == [i \in 1..n |-> 165]
ToSet(s) == {s[i] : i \in 1..Len(s)}
\* ----- help texts: per command its name, " - " and the help string if there is one, CR LF ------------------------------
\* the command tables of the driver: <<name, help>> (help <<>> = none)
S(str) == str
Tab1 == << <<Names[1], <<99>>>>, <<Names[2], <<>>>> >>                                                     \* cmd "c", a
Tab2 == << <<Names[3], <<>>>>, <<Names[1], <<99, 50>>>>, <<Names[4], <<104>>>>, <<Names[3], <<>>>> >>      \* ab, cmd "c2", help "h", ab
TabAll == << <<Names[1], <<99>>>>, <<Names[2], <<>>>>, <<Names[3], <<>>>>, <<Names[4], <<104>>>> >>
RECURSIVE HelpText(_, _)
HelpText(tab, i) == IF i > Len(tab) THEN <<>>
                    ELSE tab[i][1] \o (IF tab[i][2] # <<>> THEN <<32, 45, 32>> \o tab[i][2] ELSE <<>>) \o <<13, 10>> \o HelpText(tab, i + 1)
TabOf(n) == IF n = 1 THEN Tab1 ELSE IF n = 2 THEN Tab2 ELSE TabAll
\* the buffer forms: the text is cut to what fits, terminated, the count returned is its length; a buffer with room for everything
\* (one spare byte per table for the nested terminators of the tables form) holds the whole text
HelpBufErrs(ev, full, spare) ==
   LET body == SubSeq(ev.win, 9, 8 + ev.amax) IN
   (IF SubSeq(ev.win, 1, 8) # Fill(8) \/ SubSeq(ev.win, 9 + ev.amax, 16 + ev.amax) # Fill(8) THEN {"guard"} ELSE {})
   \cup (IF ev.ret < 0 \/ ev.ret > ev.amax - 1 THEN {"ret"}
         ELSE (IF body[ev.ret + 1] # 0 THEN {"terminator"} ELSE {})
              \cup (IF SubSeq(body, 1, ev.ret) # SubSeq(full, 1, IF ev.ret < Len(full) THEN ev.ret ELSE Len(full)) THEN {"text"} ELSE {})
              \cup (IF ev.amax >= Len(full) + 1 + spare /\ ev.ret # Len(full) THEN {"truncated_although_it_fits"} ELSE {}))
\* creader_readline over a whole text.  TextUtil.tla gives a reference definition (ReadLine / ReadAll); the statement of the property does
\* not define the function, so the trace specification demands only what every reading of "the next line" has in common: the calls come to
\* an end with -1 and the cursor at the end of the text; the lines lie inside the text, in order and without overlap; no line contains a
\* line feed; every character that is not a carriage return or a line feed belongs to exactly one line.
CReaderErrs(ev) ==
   LET s == ev.s  ls == ev.lines  n == Len(ls)
       inside == \A k \in 1..n : ls[k][1] >= 0 /\ ls[k][2] >= 0 /\ ls[k][1] + ls[k][2] <= Len(s)
       ordered == \A k \in 1..(n - 1) : ls[k][1] + ls[k][2] <= ls[k + 1][1]
       Covered(j) == \E k \in 1..n : ls[k][1] < j /\ j <= ls[k][1] + ls[k][2]         \* j: 1-based position in s
   IN (IF ev.ended # 1 \/ ev.calls > Len(s) + 1 THEN {"does_not_come_to_an_end"} ELSE {})
      \cup (IF ev.ended = 1 /\ (ev.cur # Len(s) \/ ev.atend # 1) THEN {"cursor_not_at_end"} ELSE {})
      \cup (IF ~inside THEN {"line_outside_text"}
            ELSE (IF ~ordered THEN {"lines_overlap_or_out_of_order"} ELSE {})
                 \cup (IF \E k \in 1..n : \E j \in (ls[k][1] + 1)..(ls[k][1] + ls[k][2]) : s[j] = 10 THEN {"line_feed_inside_line"} ELSE {})
                 \cup (IF \E j \in 1..Len(s) : s[j] \notin {10, 13} /\ ~Covered(j) THEN {"character_in_no_line"} ELSE {}))
Exp(ev) ==
   LET s == ev.s a == ev.a b == ev.b n == ev.n IN
   CASE ev.fn = "split_char" -> [toks |-> Split(s, {a[1]})]
     [] ev.fn = "split_set" -> [toks |-> Split(s, ToSet(a))]
     [] ev.fn = "split_cmd" -> [toks |-> SplitCmd(s)]
     [] ev.fn = "join" -> [out |-> Join(Split(s, {a[1]}), a[1])]
     [] ev.fn = "trim" -> [out |-> Trim(s)]
     [] ev.fn = "replace" -> [out |-> Replace(s, a, b)]
     [] ev.fn = "replace_buf" -> LET r == ReplaceBuf(s, a, b, n) IN [win |-> Fill(8) \o r \o SubSeq(ev.win, 8 + Len(r) + 1, 8 + n) \o Fill(8)]
     [] ev.fn = "memmem" -> [ret |-> MemMem(s, a)]
     [] ev.fn \in {"argv", "argv_n"} -> LET r == ArgvSplit(s, n) IN [argc |-> r.argc, starts |-> r.starts, image |-> r.image]
     [] ev.fn \in {"mshell", "mshell_tables", "rshell", "rshell_tables"} ->
            LET d == Dispatch(s, Names, 10)  r == ArgvSplit(s, 10) IN
            [calls |-> IF d.called THEN 1 ELSE 0, name |-> d.name, argc |-> d.argc,
             argvs |-> IF d.called THEN [k \in 1..r.argc |-> Token(s, r.starts[k])] ELSE <<>>,
             hret |-> IF d.called THEN 7 ELSE -99]
     \* the handler of the outer line dispatches line a through the same shell and then reads its own arguments again
     [] ev.fn \in {"mshell_nested", "mshell_tables_nested", "rshell_nested", "rshell_tables_nested"} ->
            LET d == Dispatch(s, Names, 10)  r == ArgvSplit(s, 10)
                d2 == Dispatch(a, Names, 10)  r2 == ArgvSplit(a, 10)
                toks == [k \in 1..r.argc |-> Token(s, r.starts[k])] IN
            IF ~d.called THEN [calls |-> 0, name |-> <<>>, argvs |-> <<>>, argvs_after |-> <<>>, in_name |-> <<>>, in_argvs |-> <<>>, hret |-> -99]
            ELSE [calls |-> IF d2.called THEN 2 ELSE 1, name |-> d.name, argvs |-> toks, argvs_after |-> toks,
                  in_name |-> d2.name, in_argvs |-> IF d2.called THEN [k \in 1..r2.argc |-> Token(a, r2.starts[k])] ELSE <<>>, hret |-> 7]
     \* a caller walks a text line by line (strtok with "\n", as a script loop does) and hands every line to the dispatcher: every line is
     \* dispatched, in order - the dispatcher keeps no state of its own and disturbs none of its caller's
     [] ev.fn \in {"mshell_script", "mshell_tables_script", "rshell_script", "rshell_tables_script"} ->
            LET ls == Split(s, {10}) IN [lines |-> ls, names |-> [k \in 1..Len(ls) |-> Dispatch(ls[k], Names, 10).name]]
     \* creader: every line of the text (token offset, length), the number of calls until -1, the final cursor; skip from cursor n
     [] ev.fn = "creader_skip" -> LET r == CSkip(s, n, ToSet(a)) IN [ret |-> r.ret, cur |-> r.cur]
     [] ev.fn = "mshell_help" -> [out |-> HelpText(TabOf(n), 1)]
     [] ev.fn = "mshell_tables_help" -> [out |-> HelpText(Tab1, 1) \o HelpText(Tab2, 1)]
     [] ev.fn = "path_next" -> LET r == PathNext(s) IN [off |-> r.off, len |-> r.len]
     [] ev.fn = "path_iterate" -> [off |-> PathIterate(s)]
     [] ev.fn = "compare_node" -> [ret |-> CompareNode(s, a)]
     [] ev.fn = "remove_prefix" -> [off |-> RemovePrefix(s, a)]
TInit == JInit /\ l = 1 /\ sync = TRUE
TNext ==
   /\ l <= NTrace /\ l' = l + 1 /\ Consumed(l) /\ sync' = TRUE
   /\ LET ev == TraceLog[l] IN
      IF ev.e = "Reset" THEN TRUE
      ELSE IF ev.e = "Fault" THEN Flag(l, <<"fault">>, [kind |-> ev.kind, where |-> ev.where])
      ELSE IF ev.fn = "creader_lines" THEN
           LET errs == CReaderErrs(ev) IN IF errs # {} THEN Flag(l, SetToSeq(errs), [reference_lines |-> ReadAll(ev.s, 0, <<>>)]) ELSE TRUE
      ELSE IF ev.fn \in {"rshell_help", "rshell_tables_help"} THEN
           LET full == IF ev.fn = "rshell_help" THEN HelpText(TabOf(ev.n), 1) ELSE HelpText(Tab1, 1) \o HelpText(Tab2, 1)
               errs == HelpBufErrs(ev, full, IF ev.fn = "rshell_help" THEN 0 ELSE 2)
           IN IF errs # {} THEN Flag(l, SetToSeq(errs), [text |-> full]) ELSE TRUE
      ELSE LET exp == Exp(ev) mm == Mismatch(ev, exp) IN IF mm # {} THEN Flag(l, SetToSeq(mm), exp) ELSE TRUE
TSpec == TInit /\ [][TNext]_<<l, sync>>
Accepted == WriteVerdict
=============================================================================
