CONSTANTS Vals = {1, 2}
          MaxSize = 4
          Caps = {0}
          Keeps = {FALSE}
SPECIFICATION Spec
CONSTRAINT SizeBound
INVARIANTS CapInv Laws
CHECK_DEADLOCK FALSE
