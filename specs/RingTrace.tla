----------------------------- MODULE RingTrace -----------------------------
(***************************************************************************)
(* Trace specification for C03: replays events recorded from the real      *)
(* ring code through the actions of Ring.tla and compares every logged     *)
(* observation with the value the specification gives.                     *)
(*   property clauses : ret data avail room empty full range guard dguard  *)
(*   implementation-shaped clauses (model drift only) : impl_head impl_tail*)
(*                                                     impl_mem            *)
(***************************************************************************)
EXTENDS Ring, Judge

VARIABLES l, sync, kind
tvars == <<l, sync, kind>>

GuardL == <<165, 165, 165, 165>>
GuardD == <<90, 90, 90, 90>>

B2I(b) == IF b THEN 1 ELSE 0
\* getc returns the byte as an unsigned value for the C++ wrapper; the C
\* function returns int(char) -- the statement requires every byte value
\* 0..255 to come back unaltered, -1 is reserved for "empty".
\* observations shared by every event, computed from the primed state
CommonExp(ev) ==
   [avail |-> Len(q'), room |-> (size' - 1) - Len(q'),
    empty |-> B2I(Len(q') = 0), full |-> B2I(Len(q') = size' - 1), size |-> size']
ImplExp(ev) == [head |-> head', tail |-> tail']

RangeOK(ev) == ev.head \in 0..(size'-1) /\ ev.tail \in 0..(size'-1)

\* Judge one event after the specification action has defined the primed state.
\* extra: record of event-specific expected fields.
JudgeEv(ev, extra) ==
   LET exp  == CommonExp(ev) @@ extra
       mm   == Mismatch(ev, exp)
              \cup (IF RangeOK(ev) THEN {} ELSE {"range"})
              \cup (IF kind' = "c" /\ (ev.gl # GuardL \/ ev.gr # GuardL) THEN {"guard"} ELSE {})
       imp  == Mismatch(ev, ImplExp(ev))
              \cup (IF kind' = "c" /\ ev.mem # [i \in 1..size' |-> mem'[i-1]] THEN {"mem"} ELSE {})
   IN IF mm # {} THEN Flag(l, SetToSeq(mm), exp) /\ sync' = FALSE
      ELSE IF imp # {} THEN Flag(l, SetToSeq({"impl_" \o k : k \in imp}), ImplExp(ev)) /\ sync' = TRUE
      ELSE sync' = TRUE

Step(ev) ==
   CASE ev.e = "Putc"  -> Putc(ev.b) /\ JudgeEv(ev, [ret |-> ret'[2]])
     [] ev.e = "Getc"  -> Getc /\ JudgeEv(ev, [ret |-> ret'[2]])
     [] ev.e = "Write" -> Write(ev.s) /\ JudgeEv(ev, [ret |-> ret'[2]])
     [] ev.e = "Read"  -> Read(ev.k) /\
           JudgeEv(ev, [ret |-> ret'[2], data |-> ret'[3]] @@
                       (IF kind' = "c" THEN [dgl |-> GuardD, dgr |-> GuardD,
                                            drest |-> [i \in 1..(ev.kb - ret'[2]) |-> 90]] ELSE <<>>))
     [] ev.e = "MoveHead" -> MoveHead(ev.s) /\ JudgeEv(ev, [ret |-> ret'[2]])
     [] ev.e = "MoveTail" -> MoveTail(ev.k) /\ JudgeEv(ev, [ret |-> ret'[2], data |-> ret'[3]])
     [] ev.e = "PutcFail" -> PutcFail /\ JudgeEv(ev, [threw |-> 1])
     [] ev.e = "Clean" -> Clean /\ JudgeEv(ev, <<>>)
     [] ev.e = "ClearPop" -> ClearPop /\ JudgeEv(ev, <<>>)
     \* queries: state unchanged, answer from the reference FIFO
     [] ev.e = "Last"  -> UNCHANGED vars /\ JudgeEv(ev, [ret |-> RefLast(q)])
     [] ev.e = "TailV" -> UNCHANGED vars /\ JudgeEv(ev, [ret |-> RefTail(q)])
     [] ev.e = "GetLast" -> UNCHANGED vars /\ JudgeEv(ev, [ret |-> RefGetLast(q, ev.off, ev.cnt, ev.fe = 1)])
     [] ev.e = "Fixup" -> UNCHANGED vars /\ JudgeEv(ev, [ret |-> ev.i % size])
     [] ev.e = "Distance" -> UNCHANGED vars /\ JudgeEv(ev, [ret |-> (ev.a - ev.b) % size])
     [] ev.e = "Iter"  -> UNCHANGED vars /\ JudgeEv(ev, [data |-> q])
     \* the ring replaced by a copy of itself (copy / move construction or assignment): nothing observable changes
     [] ev.e = "Dup" -> UNCHANGED vars /\ JudgeEv(ev, <<>>)
     [] ev.e = "Resize" -> /\ size' = ev.n + 1 /\ q' = <<>> /\ head' = 0 /\ tail' = 0
                           /\ mem' = [i \in 0..ev.n |-> 0] /\ ret' = <<"resize">>
                           /\ JudgeEv(ev, <<>>)

TInit == /\ JInit /\ l = 1 /\ sync = FALSE /\ kind = "none"
         /\ size = 2 /\ q = <<>> /\ head = 0 /\ tail = 0 /\ mem = [i \in 0..1 |-> 0] /\ ret = <<"init">>

TNext ==
   /\ l <= NTrace
   /\ l' = l + 1
   /\ Consumed(l)
   /\ LET ev == TraceLog[l] IN
      IF ev.e = "Reset" THEN
           /\ kind' = ev.kind
           \* the size is the one that was asked for; the size the ring reports is an observation like any other
           /\ size' = ev.req /\ q' = <<>> /\ head' = 0 /\ tail' = 0
           /\ mem' = [i \in 0..(ev.req-1) |-> 0] /\ ret' = <<"init">>
           /\ JudgeEv(ev, <<>>)
      ELSE IF ~sync THEN UNCHANGED <<vars, sync, kind>>
      ELSE IF ev.e = "Fault" THEN
           /\ Flag(l, <<"fault">>, [kind |-> ev.kind, where |-> ev.where])
           /\ sync' = FALSE /\ UNCHANGED <<vars, kind>>
      ELSE UNCHANGED kind /\ Step(ev)

TSpec == TInit /\ [][TNext]_<<vars, tvars>>
Accepted == WriteVerdict
=============================================================================
