----------------------------- MODULE CStringMC -----------------------------
(***************************************************************************)
(* Derived laws of the definitions in CString.tla over every arena of      *)
(* six bytes over a small alphabet (last byte 0) and every offset / count. *)
(***************************************************************************)
EXTENDS CString
CONSTANTS Alphabet
VARIABLES m
N == 6
Init == m \in {x \in [1..N -> Alphabet \cup {0}] : x[N] = 0}
Next == UNCHANGED m
Spec == Init /\ [][Next]_m
Offs == 0..(N - 1)
\* memmove moves the source image for every overlap; bytes outside the destination are untouched
MoveLaw == \A d \in Offs, s \in Offs, n \in 0..N : (d + n <= N /\ s + n <= N) =>
              LET r == MemMove(m, d, s, n) IN
              /\ Bytes(r.mem, d, n) = Bytes(m, s, n)
              /\ \A o \in Offs : (o < d \/ o >= d + n) => At(r.mem, o) = At(m, o)
CmpLaw == \A a \in Offs, b \in Offs, n \in 0..N : (a + n <= N /\ b + n <= N) =>
              /\ MemCmp(m, a, b, n).ret = 0 - MemCmp(m, b, a, n).ret
              /\ (MemCmp(m, a, b, n).ret = 0 <=> Bytes(m, a, n) = Bytes(m, b, n))
\* strncpy writes exactly n bytes; strlcpy always terminates inside size and returns strlen(src)
CopyLaw == \A d \in Offs, s \in Offs, n \in 0..N : (d + n <= N) =>
              LET r == StrNCpy(m, d, s, n)  l == StrLCpy(m, d, s, n) IN
              /\ \A o \in Offs : (o < d \/ o >= d + n) => At(r.mem, o) = At(m, o)
              /\ l.ret = StrLen(m, s)
              /\ (n > 0 => \E k \in 0..(n - 1) : At(l.mem, d + k) = 0)
\* searching: a hit is an occurrence and the first one
SearchLaw == \A h \in Offs, nd \in Offs :
              LET r == StrStr(m, h, nd).ret  ln == StrLen(m, nd) IN
              IF r = -1 THEN \A o \in h..(h + StrLen(m, h)) : o + ln > h + StrLen(m, h) \/ Bytes(m, o, ln) # Str(m, nd)
              ELSE Bytes(m, r, ln) = Str(m, nd) /\ \A o \in h..(r - 1) : Bytes(m, o, ln) # Str(m, nd)
\* strtok: tokens are the maximal runs of non-delimiters, in order
TokLaw == \A s \in Offs, d \in Offs :
              LET r == StrTok(m, s, d)  dl == Str(m, d) IN
              /\ \A i \in 1..Len(r.ret) : /\ ~InSet(At(m, r.ret[i]), dl)
                                          /\ \A c \in 1..StrLen(r.mem, r.ret[i]) : ~InSet(At(r.mem, r.ret[i] + c - 1), dl)
                                          /\ (r.ret[i] = s \/ InSet(At(m, r.ret[i] - 1), dl))
              /\ \A i \in 1..(Len(r.ret) - 1) : r.ret[i] < r.ret[i + 1]
              \* every non-delimiter byte of the string belongs to some token
              /\ \A o \in s..(s + StrLen(m, s) - 1) : ~InSet(At(m, o), dl) =>
                     \E i \in 1..Len(r.ret) : r.ret[i] <= o /\ o < r.ret[i] + StrLen(r.mem, r.ret[i])
SpanLaw == \A s \in Offs, d \in Offs : StrSpn(m, s, d).ret + 0 <= StrLen(m, s) /\
              (StrPBrk(m, s, d).ret = -1 <=> StrCSpn(m, s, d).ret = StrLen(m, s))
=============================================================================
