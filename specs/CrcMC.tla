------------------------------- MODULE CrcMC -------------------------------
(***************************************************************************)
(* Laws of the CRC definitions, checked by TLC over enumerated domains     *)
(* before the definitions are trusted to judge the implementation:         *)
(* chunking (running value as seed), residue, agreement of the bit-serial  *)
(* definition with the table form used by Gstuff.tla.                      *)
(***************************************************************************)
EXTENDS Crc, Gstuff
CONSTANTS Seeds, Alphabet, MaxLen
VARIABLES seed, msg
Msgs == UNION {[1..k -> Alphabet] : k \in 0..MaxLen}
Init == seed \in Seeds /\ msg \in Msgs
Next == UNCHANGED <<seed, msg>>
Spec == Init /\ [][Next]_<<seed, msg>>
PairSpec == (seed \in 0..255 /\ msg = <<>>) /\ [][Next]_<<seed, msg>>
Splits == 0..Len(msg)
A(k) == SubSeq(msg, 1, k)
B(k) == SubSeq(msg, k + 1, Len(msg))
Chunking8 == \A k \in Splits : /\ Strm8(Strm8(seed, A(k)), B(k)) = Strm8(seed, msg)
                               /\ Dallas(Dallas(seed, A(k)), B(k)) = Dallas(seed, msg)
Chunking16 == \A k \in Splits : Crc16(Crc16(<<seed, 255 - seed>>, A(k)), B(k)) = Crc16(<<seed, 255 - seed>>, msg)
Chunking32 == \A k \in Splits : k % 4 = 0 =>
                 Crc32(Crc32(<<seed, 1, 2, 255 - seed>>, A(k)), B(k)) = Crc32(<<seed, 1, 2, 255 - seed>>, msg)
\* the byte-at-a-time form is the same function (any length, any tail)
Fast32Same == Fast32(<<seed, 1, 2, 255 - seed>>, msg) = Crc32(<<seed, 1, 2, 255 - seed>>, msg) /\ Fast32(<<255, 255, seed, 0>>, msg \o msg \o <<seed>>) = Crc32(<<255, 255, seed, 0>>, msg \o msg \o <<seed>>)
\* skipping a run of zero bytes algebraically is the same function: head, zeros, tail of several lengths
SparseSame == Len(msg) <= 2 => \A nz \in {0, 4, 8, 64, 1000} : \A tl \in {0, 1, 3, 4} :
                 LET hd == msg \o msg \o msg \o msg          \* a multiple of four bytes
                     tailb == SubSeq(<<seed, 7, 255, 1>>, 1, tl)
                 IN Sparse32(<<seed, 1, 2, 255 - seed>>, hd, 0, nz, tailb) = Fast32(<<seed, 1, 2, 255 - seed>>, hd \o [i \in 1..nz |-> 0] \o tailb)
SparseWide == Len(msg) = 1 => Sparse32(<<seed, 9, 0, 3>>, <<>>, 1, 8, msg) = Fast32(<<seed, 9, 0, 3>>, [i \in 1..65544 |-> 0] \o msg)
Residue8 == Strm8(seed, Append(msg, Strm8(seed, msg))) = 0
\* the table-driven integer form of Gstuff.tla is the same function
SameAsTableForm == Strm8(seed, msg) = Crc8(seed, msg)
\* every (seed, byte) pair
AllPairs == \A b \in 0..255 : Strm8(seed, <<b>>) = CrcByte(seed, b)
=============================================================================
