CONSTANTS NHs = {1}
          NNs = {1}
SPECIFICATION TSpec
POSTCONDITION Accepted
CHECK_DEADLOCK FALSE
