------------------------------ MODULE LineEdit ------------------------------
(***************************************************************************)
(* C15 - the reference line editor behind igris/shell/vterm.c + readline.h *)
(* + datastruct/sline.h and their C++ twins (vtermxx, readlinexx,          *)
(* container/sline.h), and a VT100 screen model for what they echo.        *)
(*                                                                         *)
(* Key semantics (stated once, here):                                      *)
(*   printable byte   inserted at the cursor if len < cap-1, else ignored  *)
(*   BS (8)           deletes the character before the cursor              *)
(*   ESC [ D / C      cursor left / right                                  *)
(*   ESC [ 3 x        deletes the character under the cursor (at the '3'); *)
(*                    the byte after it (normally '~') is swallowed        *)
(*   ESC [ A / B      recall the next older / newer history entry; entry 0 *)
(*                    is the empty line; no older entry => nothing happens *)
(*   ESC x, ESC [ x   any other escape is swallowed                        *)
(*   CR, LF           end the line; the second byte of a CR LF or LF CR    *)
(*                    pair is ignored, so each of CR, LF, CRLF, LFCR ends  *)
(*                    exactly one line                                     *)
(*   Ctrl-C (3)       abandons the line (and a pending escape), signals    *)
(* History: the distinct-from-the-previous, non-empty lines entered, newest*)
(* first, at most `depth`.                                                  *)
(***************************************************************************)
EXTENDS Integers, Sequences, FiniteSets, TLC

CONSTANTS Caps, Depths
VARIABLES cap, depth,       \* fixed after Init
          line, cursor,     \* edit buffer
          esc,              \* 0 normal, 1 after ESC, 2 after ESC [, 3 after ESC [ 3
          last,             \* 13 / 10 if the previous byte ended a line and may pair, else 0
          hist, browse,     \* history entries (newest first), index being shown (0 = none)
          outp              \* what the last key produced: [exec |-> <<lines>>, sig |-> 0/1]
vars == <<cap, depth, line, cursor, esc, last, hist, browse, outp>>

BS == 8  ESC == 27  CR == 13  LF == 10  CTRLC == 3
LB == 91  UP == 65  DOWN == 66  RIGHT == 67  LEFT == 68  THREE == 51  TILDE == 126

InsertAt(s, i, c) == SubSeq(s, 1, i) \o <<c>> \o SubSeq(s, i+1, Len(s))     \* after position i
RemoveAt(s, i) == SubSeq(s, 1, i-1) \o SubSeq(s, i+1, Len(s))               \* element i
Take(s, n) == SubSeq(s, 1, IF n < Len(s) THEN n ELSE Len(s))

Init == /\ cap \in Caps /\ depth \in Depths
        /\ line = <<>> /\ cursor = 0 /\ esc = 0 /\ last = 0 /\ hist = <<>> /\ browse = 0
        /\ outp = [exec |-> <<>>, sig |-> 0]
Fix == UNCHANGED <<cap, depth>>
Quiet == outp' = [exec |-> <<>>, sig |-> 0]

\* ----- one key -----------------------------------------------------------------
EndLine ==
   /\ outp' = [exec |-> <<line>>, sig |-> 0]
   /\ hist' = IF line # <<>> /\ (hist = <<>> \/ hist[1] # line) THEN Take(<<line>> \o hist, depth) ELSE hist
   /\ line' = <<>> /\ cursor' = 0 /\ browse' = 0

Recall(k) ==    \* show history entry k (0 = empty line)
   /\ browse' = k
   /\ line' = IF k = 0 THEN <<>> ELSE hist[k]
   /\ cursor' = IF k = 0 THEN 0 ELSE Len(hist[k])

\* a CR or LF byte is remembered for pairing even when an escape sequence swallowed it
\* (this is the key semantics the implementation has; the reference shares it)
NL(c) == IF c = CR \/ c = LF THEN c ELSE 0
Key(c) ==
   /\ Fix
   /\ IF c = CTRLC THEN
           /\ outp' = [exec |-> <<>>, sig |-> 1]
           /\ line' = <<>> /\ cursor' = 0 /\ browse' = 0 /\ esc' = 0 /\ UNCHANGED <<hist, last>>
      ELSE IF esc = 1 THEN
           /\ esc' = IF c = LB THEN 2 ELSE 0
           /\ last' = NL(c) /\ Quiet /\ UNCHANGED <<line, cursor, hist, browse>>
      ELSE IF esc = 3 THEN
           /\ esc' = 0 /\ last' = NL(c) /\ Quiet /\ UNCHANGED <<line, cursor, hist, browse>>
      ELSE IF esc = 2 THEN
           /\ last' = NL(c) /\ Quiet /\ UNCHANGED hist
           /\ IF c = UP THEN
                   /\ esc' = 0
                   /\ IF browse < Len(hist) THEN Recall(browse + 1) ELSE UNCHANGED <<line, cursor, browse>>
              ELSE IF c = DOWN THEN
                   /\ esc' = 0
                   /\ IF browse > 0 THEN Recall(browse - 1) ELSE UNCHANGED <<line, cursor, browse>>
              ELSE IF c = RIGHT THEN
                   /\ esc' = 0 /\ cursor' = IF cursor < Len(line) THEN cursor + 1 ELSE cursor
                   /\ UNCHANGED <<line, browse>>
              ELSE IF c = LEFT THEN
                   /\ esc' = 0 /\ cursor' = IF cursor > 0 THEN cursor - 1 ELSE cursor
                   /\ UNCHANGED <<line, browse>>
              ELSE IF c = THREE THEN
                   /\ esc' = 3
                   /\ line' = IF cursor < Len(line) THEN RemoveAt(line, cursor + 1) ELSE line
                   /\ UNCHANGED <<cursor, browse>>
              ELSE /\ esc' = 0 /\ UNCHANGED <<line, cursor, browse>>
      ELSE \* normal state
           IF c = CR \/ c = LF THEN
                /\ UNCHANGED esc
                /\ IF last # 0 /\ last # c
                   THEN /\ last' = 0 /\ Quiet /\ UNCHANGED <<line, cursor, hist, browse>>   \* second half of a pair
                   ELSE /\ last' = c /\ EndLine
           ELSE IF c = BS THEN
                /\ last' = 0 /\ Quiet /\ UNCHANGED <<esc, hist, browse>>
                /\ IF cursor > 0 THEN line' = RemoveAt(line, cursor) /\ cursor' = cursor - 1
                   ELSE UNCHANGED <<line, cursor>>
           ELSE IF c = ESC THEN
                /\ esc' = 1 /\ last' = 0 /\ Quiet /\ UNCHANGED <<line, cursor, hist, browse>>
           ELSE \* printable
                /\ last' = 0 /\ Quiet /\ UNCHANGED <<esc, hist, browse>>
                /\ IF Len(line) < cap - 1
                   THEN line' = InsertAt(line, cursor, c) /\ cursor' = cursor + 1
                   ELSE UNCHANGED <<line, cursor>>

\* ----- the sline API itself (bulk insert, multi-character delete, accessors) ------------
SlQuiet == UNCHANGED <<cap, depth, esc, last, hist, browse>>
Min2(a, b) == IF a < b THEN a ELSE b
SlPut(c) == /\ SlQuiet /\ IF Len(line) < cap - 1
                          THEN line' = InsertAt(line, cursor, c) /\ cursor' = cursor + 1 /\ outp' = 1
                          ELSE UNCHANGED <<line, cursor>> /\ outp' = 0
SlNew(s) == LET n == Min2(Len(s), cap - 1 - Len(line)) IN
            /\ SlQuiet /\ line' = SubSeq(line, 1, cursor) \o SubSeq(s, 1, n) \o SubSeq(line, cursor + 1, Len(line))
            /\ cursor' = cursor + n /\ outp' = n
SlBs(n) == LET k == Min2(n, cursor) IN
           /\ SlQuiet /\ line' = SubSeq(line, 1, cursor - k) \o SubSeq(line, cursor + 1, Len(line))
           /\ cursor' = cursor - k /\ outp' = k
SlDel(n) == LET k == Min2(n, Len(line) - cursor) IN
            /\ SlQuiet /\ line' = SubSeq(line, 1, cursor) \o SubSeq(line, cursor + k + 1, Len(line))
            /\ UNCHANGED cursor /\ outp' = k
SlLeft == /\ SlQuiet /\ UNCHANGED line /\ cursor' = (IF cursor > 0 THEN cursor - 1 ELSE 0) /\ outp' = (IF cursor > 0 THEN 1 ELSE 0)
SlRight == /\ SlQuiet /\ UNCHANGED line /\ cursor' = (IF cursor < Len(line) THEN cursor + 1 ELSE cursor)
           /\ outp' = (IF cursor < Len(line) THEN 1 ELSE 0)
SlGet == /\ SlQuiet /\ UNCHANGED <<line, cursor>> /\ outp' = 0        \* the terminator written at buf[len]
SlReset == /\ SlQuiet /\ line' = <<>> /\ cursor' = 0 /\ outp' = 0

\* exhaustive configuration: escape finals are only typed inside an escape
\* (typed in normal state they are ordinary printable bytes - random traces do that)
KeysNormal == {97, 98, BS, ESC, CR, LF, CTRLC}
KeysEsc == {LB, UP, DOWN, RIGHT, LEFT, THREE, TILDE, 97, ESC, CR, CTRLC}
AllKeys == KeysNormal \cup KeysEsc
Press(c) == (IF esc = 0 THEN c \in KeysNormal ELSE c \in KeysEsc) /\ Key(c)
Next == \E c \in AllKeys : Press(c)
Spec == Init /\ [][Next]_vars

\* ----- the listed property (bounds part) ---------------------------------------------
BoundsInv == /\ 0 <= cursor /\ cursor <= Len(line) /\ Len(line) < cap
             /\ Len(hist) <= depth /\ browse <= Len(hist)
             /\ \A i \in 1..Len(hist) : hist[i] # <<>> /\ Len(hist[i]) < cap
HistDistinct == \A i \in 1..(Len(hist)-1) : hist[i] # hist[i+1]

\* ----- VT100 screen model ---------------------------------------------------------------
\* scr = [row, col]; bytes: printable, CR, LF, ESC [ D, ESC [ n D, ESC [ C, ESC [ K
PutCell(row, col, c) ==
   IF col < Len(row) THEN [row EXCEPT ![col + 1] = c]
   ELSE row \o [i \in 1..(col - Len(row)) |-> 32] \o <<c>>
IsDigit(c) == c >= 48 /\ c <= 57
RECURSIVE ParseNum(_, _, _)
ParseNum(bytes, i, acc) ==     \* digits from position i: [n, next]
   IF i <= Len(bytes) /\ IsDigit(bytes[i]) THEN ParseNum(bytes, i + 1, acc * 10 + (bytes[i] - 48))
   ELSE [n |-> acc, next |-> i]
RECURSIVE Screen(_, _, _)
Screen(scr, bytes, i) ==
   IF i > Len(bytes) THEN scr
   ELSE LET c == bytes[i] IN
        IF c = CR THEN Screen([scr EXCEPT !.col = 0], bytes, i + 1)
        ELSE IF c = LF THEN Screen([scr EXCEPT !.row = <<>>], bytes, i + 1)
        ELSE IF c = ESC /\ i + 1 <= Len(bytes) /\ bytes[i + 1] = LB THEN
             LET pn == ParseNum(bytes, i + 2, 0)
                 hasNum == pn.next > i + 2
                 n == IF hasNum /\ pn.n > 0 THEN pn.n ELSE 1
                 f == IF pn.next <= Len(bytes) THEN bytes[pn.next] ELSE 0
             IN IF f = LEFT THEN Screen([scr EXCEPT !.col = IF scr.col >= n THEN scr.col - n ELSE 0], bytes, pn.next + 1)
                ELSE IF f = RIGHT THEN Screen([scr EXCEPT !.col = scr.col + n], bytes, pn.next + 1)
                ELSE IF f = 75 THEN Screen([scr EXCEPT !.row = SubSeq(scr.row, 1, IF scr.col < Len(scr.row) THEN scr.col ELSE Len(scr.row))], bytes, pn.next + 1)
                ELSE Screen([scr EXCEPT !.row = <<63>>, !.col = 99], bytes, Len(bytes) + 1)    \* unknown sequence: poison the screen
        ELSE Screen([row |-> PutCell(scr.row, scr.col, c), col |-> scr.col + 1], bytes, i + 1)
=============================================================================
