------------------------------- MODULE Gstuff -------------------------------
(***************************************************************************)
(* C04 and C05 - gstuff framing: igris/protocols/gstuff.h, gstuff.cpp and   *)
(* the legacy codec in igris/protocols/gstuff_v1.                          *)
(*                                                                         *)
(* A context cx is a record [START, STOP, STUB, SSTART, SSTOP, SSTUB].     *)
(* Three are shipped: Default (distinct start/stop), V0 (start = stop) and *)
(* the legacy C codec (same bytes as V0, own encoder/receiver).            *)
(*                                                                         *)
(* Property layer                                                          *)
(*   Encode(cx, p)      the frame of payload p                              *)
(*   Mon*               a monitor over (byte fed, status reported) pairs:  *)
(*                      which deliveries are allowed (soundness), which    *)
(*                      are owed (resynchronisation), overflow reporting   *)
(* Implementation-shaped layer                                             *)
(*   ImplStep / LegacyStep   the receiver automata, transcribed            *)
(***************************************************************************)
EXTENDS Integers, Sequences, FiniteSets, Bitwise, TLC

\* ----- CRC-8, polynomial x^8+x^5+x^4+1 (0x31), MSB first, as igris_strmcrc8 ---
ShiftStep(x) == IF x >= 128 THEN ((2*x) % 256) ^^ 49 ELSE 2*x
RECURSIVE IterShift(_, _)
IterShift(x, n) == IF n = 0 THEN x ELSE IterShift(ShiftStep(x), n-1)
CrcTab == [i \in 0..255 |-> IterShift(i, 8)]
CrcByte(crc, b) == CrcTab[crc ^^ b]
\* a fold over index ranges by halving: recursion depth log n (TLC's cost per call grows with the depth of the call chain, and
\* Tail would copy the rest of the sequence at every step); testing the left half forces its evaluation before the right starts
RECURSIVE Crc8R(_, _, _, _)
Crc8R(crc, s, lo, hi) ==
   IF lo > hi THEN crc
   ELSE IF lo = hi THEN CrcByte(crc, s[lo])
   ELSE LET mid == (lo + hi) \div 2  left == Crc8R(crc, s, lo, mid) IN IF left >= 0 THEN Crc8R(left, s, mid + 1, hi) ELSE left
Crc8(crc, s) == Crc8R(crc, s, 1, Len(s))
CrcOf(s) == Crc8(255, s)

\* ----- contexts ---------------------------------------------------------------
Default == [START |-> 168, STOP |-> 178, STUB |-> 197, SSTART |-> 138, SSTOP |-> 43, SSTUB |-> 92]
V0      == [START |-> 172, STOP |-> 172, STUB |-> 173, SSTART |-> 174, SSTOP |-> 174, SSTUB |-> 175]
CtxOf(name) == IF name = "default" THEN Default ELSE V0      \* "v0" and "legacy"
Coincide(cx) == cx.START = cx.STOP

\* ----- encoder ------------------------------------------------------------------
Esc(cx, b) == IF b = cx.START THEN <<cx.STUB, cx.SSTART>>
              ELSE IF b = cx.STUB THEN <<cx.STUB, cx.SSTUB>>
              ELSE IF b = cx.STOP THEN <<cx.STUB, cx.SSTOP>>
              ELSE <<b>>
\* divide and conquer: n log n instead of the n^2 of a head/tail recursion (frames of tens of thousands of bytes are judged)
RECURSIVE EscAll(_, _)
EscAll(cx, s) == IF s = <<>> THEN <<>>
                 ELSE IF Len(s) = 1 THEN Esc(cx, s[1])
                 ELSE LET h == Len(s) \div 2 IN EscAll(cx, SubSeq(s, 1, h)) \o EscAll(cx, SubSeq(s, h + 1, Len(s)))
Encode(cx, p) == <<cx.START>> \o EscAll(cx, p) \o Esc(cx, CrcOf(p)) \o <<cx.STOP>>

\* unescape code -> byte, or -1 for an invalid escape
Unesc(cx, c) == IF c = cx.SSTART THEN cx.START
                ELSE IF c = cx.SSTOP THEN cx.STOP
                ELSE IF c = cx.SSTUB THEN cx.STUB
                ELSE -1

\* statuses
NEWPACKAGE == 1
OVERFLOW == -2

\* ==================================================================================
\* Monitor (property layer).  State:
\*   open   a start marker has been seen and the frame is still deliverable/alive
\*   acc    unescaped bytes since that marker
\*   esc    the previous byte was STUB
\*   bad    invalid escape or overflow since the marker
\*   ovf    an overflow happened and has not been reported yet
\*   pat    (coinciding markers) 0 nothing, 1 = a well-formed frame has just ended,
\*          2 = ... and one more marker followed immediately (M wf M M)
\*   seen   some marker has been seen since the receiver was (re)initialised
\* MonStep returns [m |-> new state, errs |-> set of violated clauses,
\*                  want |-> expected content when a delivery is allowed]
\* ==================================================================================
MonInit == [open |-> FALSE, acc |-> <<>>, esc |-> FALSE, bad |-> FALSE, ovf |-> FALSE, pat |-> 0, seen |-> FALSE]

WellFormed(m, cap) == /\ m.open /\ ~m.bad /\ ~m.esc /\ Len(m.acc) >= 1
                      /\ Len(m.acc) <= cap - 1 /\ CrcOf(m.acc) = 0
Payload(acc) == SubSeq(acc, 1, Len(acc) - 1)

\* data byte (already unescaped) appended to the frame
MonData(m, b, cap) ==
   IF m.bad THEN [m EXCEPT !.esc = FALSE]        \* the frame is already lost; nothing more is owed for it
   ELSE IF Len(m.acc) + 1 > cap - 1
   THEN [m EXCEPT !.bad = TRUE, !.ovf = TRUE, !.esc = FALSE]
   ELSE [m EXCEPT !.acc = Append(m.acc, b), !.esc = FALSE]

\* st: status reported for this byte; delivered: content reported with NEWPACKAGE (else <<>>)
MonStepDistinct(cx, m00, c, st, delivered, cap) ==
   LET m == IF st = OVERFLOW THEN [m00 EXCEPT !.ovf = FALSE] ELSE m00 IN
   IF c = cx.START THEN
        [m |-> [MonInit EXCEPT !.open = TRUE, !.seen = TRUE],
         errs |-> (IF st = NEWPACKAGE THEN {"unsound_delivery"} ELSE {})
                  \cup (IF m.ovf THEN {"overflow_not_reported"} ELSE {}),
         want |-> <<>>]
   ELSE IF ~m.open THEN
        [m |-> m, errs |-> IF st = NEWPACKAGE THEN {"unsound_delivery"} ELSE {}, want |-> <<>>]
   ELSE IF c = cx.STOP /\ ~m.esc THEN
        IF WellFormed(m, cap)
        THEN [m |-> [m EXCEPT !.open = FALSE, !.acc = <<>>],
              errs |-> IF st # NEWPACKAGE THEN {"well_formed_frame_not_delivered"}
                       ELSE IF delivered # Payload(m.acc) THEN {"content"} ELSE {},
              want |-> Payload(m.acc)]
        ELSE [m |-> [m EXCEPT !.open = FALSE, !.acc = <<>>, !.ovf = FALSE],
              errs |-> (IF st = NEWPACKAGE THEN {"unsound_delivery"} ELSE {})
                       \cup (IF m.ovf THEN {"overflow_not_reported"} ELSE {}),
              want |-> <<>>]
   ELSE LET errs == IF st = NEWPACKAGE THEN {"unsound_delivery"} ELSE {} IN
        IF m.esc THEN
             IF Unesc(cx, c) = -1
             THEN [m |-> [m EXCEPT !.open = FALSE, !.esc = FALSE, !.bad = TRUE], errs |-> errs, want |-> <<>>]
             ELSE [m |-> MonData(m, Unesc(cx, c), cap), errs |-> errs, want |-> <<>>]
        ELSE IF c = cx.STUB THEN [m |-> [m EXCEPT !.esc = TRUE], errs |-> errs, want |-> <<>>]
        ELSE [m |-> MonData(m, c, cap), errs |-> errs, want |-> <<>>]

\* coinciding markers: every marker ends a segment and starts the next one.
\* legacy: the receiver has no idle state, so bytes before the first marker form a segment too;
\*         strip = FALSE: the legacy receiver hands out payload followed by the CRC byte.
MonStepCoincide(cx, m00, c, st, delivered, cap, legacy) ==
   LET m == IF st = OVERFLOW THEN [m00 EXCEPT !.ovf = FALSE] ELSE m00 IN
   IF c = cx.START THEN
        LET wf == WellFormed(m, cap)
            emptyGap == m.open /\ m.acc = <<>> /\ ~m.bad /\ ~m.esc
            pat2 == IF wf THEN 1 ELSE IF emptyGap /\ m.pat = 1 THEN 2 ELSE IF emptyGap THEN m.pat ELSE 0
            nm == [MonInit EXCEPT !.open = TRUE, !.seen = TRUE, !.pat = pat2]
        IN [m |-> nm,
            errs |-> (IF wf
                      THEN (IF st = NEWPACKAGE
                            THEN (IF delivered = Payload(m.acc) THEN {}
                                  ELSE IF legacy /\ delivered = m.acc THEN {"delivered_with_crc"}
                                  ELSE {"content"})
                            ELSE IF m.pat = 2 THEN {"second_frame_not_delivered"} ELSE {})
                      ELSE IF st = NEWPACKAGE
                           THEN (IF legacy /\ m.bad THEN {"legacy_fragment_delivered"}
                                 ELSE IF legacy /\ ~m.open /\ ~m.esc /\ Len(m.acc) >= 1 /\ CrcOf(m.acc) = 0
                                 THEN {"delivery_without_start_marker"} ELSE {"unsound_delivery"})
                           ELSE {}),
            \* (with coinciding markers the receiver may legitimately be idle during a
            \*  segment, so an OVERFLOW report is not owed; the segment is never delivered)
            want |-> IF wf THEN Payload(m.acc) ELSE <<>>]
   ELSE LET errs == IF st = NEWPACKAGE THEN {"unsound_delivery"} ELSE {} IN
        IF ~m.open /\ ~legacy THEN [m |-> m, errs |-> errs, want |-> <<>>]
        ELSE IF m.esc THEN
             IF Unesc(cx, c) = -1
             THEN [m |-> [m EXCEPT !.esc = FALSE, !.bad = TRUE], errs |-> errs, want |-> <<>>]
             ELSE [m |-> MonData(m, Unesc(cx, c), cap), errs |-> errs, want |-> <<>>]
        ELSE IF c = cx.STUB THEN [m |-> [m EXCEPT !.esc = TRUE], errs |-> errs, want |-> <<>>]
        ELSE [m |-> MonData(m, c, cap), errs |-> errs, want |-> <<>>]

\* an OVERFLOW status reports the overflow, also when it is given at the very byte that overflows
\* any context whose escape codes differ from its markers (otherwise "STUB START" would be both an escaped byte and a
\* broken escape followed by a new frame, and no receiver could satisfy the property)
ValidCx(cx) == /\ cx.STUB \notin {cx.START, cx.STOP}
               /\ {cx.SSTART, cx.SSTOP, cx.SSTUB} \cap {cx.START, cx.STOP} = {}
               /\ cx.SSTUB \notin {cx.SSTART, cx.SSTOP}
               /\ (cx.SSTART = cx.SSTOP) <=> (cx.START = cx.STOP)
MonStepCx(cx, legacy, m, c, st, delivered, cap) ==
   LET r == IF cx.START # cx.STOP THEN MonStepDistinct(cx, m, c, st, delivered, cap)
            ELSE MonStepCoincide(cx, m, c, st, delivered, cap, legacy)
   IN IF st = OVERFLOW THEN [r EXCEPT !.m.ovf = FALSE] ELSE r
MonStep(name, m, c, st, delivered, cap) == MonStepCx(CtxOf(name), name = "legacy", m, c, st, delivered, cap)

\* ----- runs of plain bytes -------------------------------------------------------------
\* A run is a sequence of bytes none of which is one of the six context bytes, for each of which the receiver reported status 0
\* (the driver merges such bytes into one event so that frames of tens of kilobytes are judged in linear time).  MonRunCx is the
\* monitor folded over the run in closed form; GstuffMC.tla checks it against the byte-by-byte fold (invariant MonRunSame).
Plain(cx, c) == c \notin {cx.START, cx.STOP, cx.STUB, cx.SSTART, cx.SSTOP, cx.SSTUB}
MonRunCx(cx, legacy, m0, bytes, cap) ==
   IF bytes = <<>> THEN m0
   ELSE LET m1 == MonStepCx(cx, legacy, m0, bytes[1], 0, <<>>, cap).m         \* the first byte may follow an escape byte
            rest == SubSeq(bytes, 2, Len(bytes))
            active == m1.open \/ (cx.START = cx.STOP /\ legacy)
        IN IF ~active \/ m1.bad \/ rest = <<>> THEN m1
           ELSE LET room == (cap - 1) - Len(m1.acc) IN
                IF Len(rest) <= room THEN [m1 EXCEPT !.acc = @ \o rest]
                ELSE [m1 EXCEPT !.acc = @ \o SubSeq(rest, 1, IF room > 0 THEN room ELSE 0), !.bad = TRUE, !.ovf = TRUE]
RECURSIVE MonFold(_, _, _, _, _, _)
MonFold(cx, legacy, m0, bytes, i, cap) == IF i > Len(bytes) THEN m0 ELSE MonFold(cx, legacy, MonStepCx(cx, legacy, m0, bytes[i], 0, <<>>, cap).m, bytes, i + 1, cap)

\* ==================================================================================
\* Implementation-shaped receivers.  State [state, line, crc]; step returns
\* [s |-> state', st |-> status, out |-> delivered content or <<>>]
\* ==================================================================================
ImplInit == [state |-> 0, line |-> <<>>, crc |-> 255]
Fresh(s, st) == [s EXCEPT !.state = st, !.line = <<>>, !.crc = 255]

ImplPut(s, b, cap) ==
   IF Len(s.line) >= cap - 1
   THEN [s |-> [s EXCEPT !.state = 0], st |-> -2, out |-> <<>>]
   ELSE [s |-> [s EXCEPT !.line = Append(s.line, b), !.crc = CrcByte(s.crc, b), !.state = 1], st |-> 0, out |-> <<>>]

\* gstuff_autorecv::newchar
ImplStep(cx, s0, c, cap) ==
   LET s == IF s0.state = 0 THEN Fresh(s0, 4) ELSE s0 IN
   IF s.state = 4 THEN
        IF c = cx.START THEN [s |-> Fresh(s, 1), st |-> 0, out |-> <<>>]
        ELSE [s |-> s, st |-> 3, out |-> <<>>]
   ELSE IF s.state = 1 THEN
        IF c = cx.START /\ cx.START # cx.STOP THEN [s |-> Fresh(s, 1), st |-> 2, out |-> <<>>]
        ELSE IF c = cx.STOP THEN
             IF cx.START = cx.STOP /\ s.line = <<>> THEN [s |-> s, st |-> 0, out |-> <<>>]   \* repeated marker
             ELSE IF s.crc # 0 THEN [s |-> [s EXCEPT !.state = 0], st |-> -1, out |-> <<>>]
             ELSE [s |-> [s EXCEPT !.state = 0, !.line = SubSeq(s.line, 1, Len(s.line) - 1)], st |-> 1,
                   out |-> SubSeq(s.line, 1, Len(s.line) - 1)]
        ELSE IF c = cx.STUB THEN [s |-> [s EXCEPT !.state = 2], st |-> 0, out |-> <<>>]
        ELSE ImplPut(s, c, cap)
   ELSE \* state 2
        IF Unesc(cx, c) # -1 THEN ImplPut(s, Unesc(cx, c), cap)
        ELSE IF c = cx.START THEN [s |-> Fresh(s, 1), st |-> 2, out |-> <<>>]
        ELSE [s |-> [s EXCEPT !.state = 0], st |-> -3, out |-> <<>>]

\* gstuff_autorecv_newchar_v1 (legacy C receiver; markers as V0, no idle state)
LegacyStep(cx, s0, c, cap) ==
   LET s == IF s0.state = 0 THEN Fresh(s0, 1) ELSE s0 IN
   IF s.state = 1 THEN
        IF c = cx.START THEN
             IF s.line = <<>> THEN [s |-> s, st |-> 0, out |-> <<>>]
             ELSE IF s.crc # 0 THEN [s |-> [s EXCEPT !.state = 0], st |-> -1, out |-> <<>>]
             ELSE [s |-> [s EXCEPT !.state = 0], st |-> 1, out |-> s.line]
        ELSE IF c = cx.STUB THEN [s |-> [s EXCEPT !.state = 2], st |-> 0, out |-> <<>>]
        ELSE ImplPut(s, c, cap)
   ELSE IF c = cx.SSTART THEN ImplPut(s, cx.START, cap)
        ELSE IF c = cx.SSTUB THEN ImplPut(s, cx.STUB, cap)
        ELSE [s |-> [s EXCEPT !.state = 0], st |-> -3, out |-> <<>>]

\* the automaton over a run of plain bytes: [s, allzero] (allzero: every status of the model was 0, as recorded)
RECURSIVE ImplFold(_, _, _, _, _, _, _)
ImplFold(cx, legacy, s0, bytes, i, cap, zero) ==
   IF i > Len(bytes) THEN [s |-> s0, allzero |-> zero]
   ELSE LET r == IF legacy THEN LegacyStep(cx, s0, bytes[i], cap) ELSE ImplStep(cx, s0, bytes[i], cap)
        IN ImplFold(cx, legacy, r.s, bytes, i + 1, cap, zero /\ r.st = 0)
ImplRun(cx, legacy, s0, bytes, cap) ==
   LET s1 == IF legacy /\ s0.state = 0 THEN Fresh(s0, 1) ELSE s0 IN
   IF bytes = <<>> THEN [s |-> s0, allzero |-> TRUE]
   ELSE IF s1.state = 1 /\ Len(s1.line) + Len(bytes) <= cap - 1
   THEN [s |-> [s1 EXCEPT !.line = @ \o bytes, !.crc = Crc8(s1.crc, bytes)], allzero |-> TRUE]
   ELSE ImplFold(cx, legacy, s0, bytes, 1, cap, TRUE)
RecvStepCx(cx, legacy, s, c, cap) == IF legacy THEN LegacyStep(cx, s, c, cap) ELSE ImplStep(cx, s, c, cap)
RecvStep(name, s, c, cap) == RecvStepCx(CtxOf(name), name = "legacy", s, c, cap)
=============================================================================
