CONSTANTS Caps = {2}
          Depths = {1}
SPECIFICATION TSpec
POSTCONDITION Accepted
CHECK_DEADLOCK FALSE
