CONSTANTS Vals = {1, 2}
          MaxSize = 4
          Caps = {1, 2, 3, 4}
          Keeps = {FALSE, TRUE}
SPECIFICATION Spec
CONSTRAINT SizeBound
INVARIANTS CapInv Laws
CHECK_DEADLOCK FALSE
