----------------------------- MODULE TimersMC -----------------------------
EXTENDS Timers
EffectsMC2 == {<<"none">>, <<"unplan", 1>>, <<"unplan", 2>>, <<"plan", 1, 0, 2>>, <<"plan", 2, 0, 1>>, <<"plan", 1, 1, 1>>}
EffectsMC3 == EffectsMC2 \cup {<<"unplan", 3>>, <<"plan", 3, 0, 2>>}
EffectsG == {<<"none">>, <<"unplan", 1>>, <<"plan", 1, 0, 2>>, <<"plan", 2, 0, 1>>}
EffectsSim == EffectsMC3 \cup {<<"unplan", 4>>, <<"plan", 4, 0, 3>>, <<"plan", 2, 1, 2>>, <<"plan", 4, 2, 1>>}
EffectsT3 == {<<"none">>, <<"unplan", 3>>, <<"plan", 1, 0, 2>>, <<"plan", 3, 0, 1>>}
=============================================================================
