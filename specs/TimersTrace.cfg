CONSTANTS NTs = {1}
          MaxNow = 0
          Starts = {0}
          Intervals = {1}
          Steps = {0}
          Effects = {}
SPECIFICATION TSpec
POSTCONDITION Accepted
CHECK_DEADLOCK FALSE
