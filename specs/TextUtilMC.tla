----------------------------- MODULE TextUtilMC -----------------------------
(***************************************************************************)
(* Laws of the definitions over all short strings of a reduced alphabet    *)
(* that contains the delimiters, quotes, slash, dot, NUL and LF.           *)
(***************************************************************************)
EXTENDS TextUtil
CONSTANTS Alphabet, MaxLen
VARIABLES s
Init == s \in UNION {[1..k -> Alphabet] : k \in 0..MaxLen}
Next == UNCHANGED s
Spec == Init /\ [][Next]_s
D == {32}
TokensOK == LET ts == Split(s, D) IN
            /\ \A i \in 1..Len(ts) : ts[i] # <<>> /\ \A k \in 1..Len(ts[i]) : ts[i][k] \notin D
            /\ Split(Join(ts, 32), D) = ts                       \* join is the inverse of split on such token lists
            /\ Len(Join(ts, 32)) <= Len(s)
TrimOK == LET r == Trim(s) IN
          /\ Trim(r) = r
          /\ (r # <<>> => r[1] \notin WS /\ r[Len(r)] \notin WS)
          /\ \E i \in 0..Len(s) : \E j \in 0..Len(s) : i + j <= Len(s) /\ r = SubSeq(s, i + 1, Len(s) - j)
                                                     /\ (\A k \in 1..i : s[k] \in WS) /\ (\A k \in (Len(s) - j + 1)..Len(s) : s[k] \in WS)
ReplaceOK == /\ Replace(s, <<1>>, <<97>>) = s                      \* pattern absent
             /\ Replace(s, <<>>, <<97>>) = s
             /\ MemMem(Replace(s, <<97>>, <<98>>), <<97>>) = -1    \* every occurrence is gone when the replacement does not re-create it
             /\ Len(Replace(s, <<97>>, <<98, 98>>)) = Len(s) + Cardinality({i \in 1..Len(s) : s[i] = 97})
ArgvOK == \A max \in 0..3 : LET r == ArgvSplit(s, max) IN
             /\ r.argc <= max /\ Len(r.image) = Len(s)
             /\ \A k \in 1..r.argc : s[r.starts[k] + 1] \notin WS
PathOK == LET nx == PathNext(s) IN
          /\ (nx.off # -1 => nx.len >= 1 /\ s[nx.off + 1] # Slash)
          /\ CompareNode(s, s) = 0
          /\ RemovePrefix(s, s) = Len(s)                         \* a path is a prefix of itself
          /\ RemovePrefix(s, <<>>) \in 0..Len(s)
=============================================================================
