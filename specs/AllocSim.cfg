CONSTANTS Ids = {1, 2, 3, 4, 5, 6}
          ReqBytes = {0, 8, 64, 128, 200}
          MaxBrk = 90
SPECIFICATION Spec
CONSTRAINT BrkBound
INVARIANTS Tiling FreeListShape AllFreedRestores Aligned
