---------------------------- MODULE SysSyncTrace ----------------------------
(***************************************************************************)
(* Trace specification for C20.  The events recorded at the hook points    *)
(* (in the order of a global log lock) are replayed through the effect     *)
(* operators of SysSync.tla; every enabling condition that does not hold   *)
(* names the sentence of the property that the execution violated.         *)
(***************************************************************************)
EXTENDS SysSync, Judge
VARIABLES l, sync
tvars == <<l, sync>>
B2I(b) == IF b THEN 1 ELSE 0
Keep(S) == UNCHANGED S
AllShared == <<owner, rec, depth, saved, wq, alive, flag, mown, parked, notified, future, woken, resumed, sem, q, pushed, popped, touchedDead>>

\* [ok, clause] for the event, then the effect
Bad(c) == [ok |-> FALSE, clause |-> c]
Good == [ok |-> TRUE, clause |-> ""]
Verdict(ev) ==
   LET t == ev.t  w == ev.w  v == ev.v IN
   CASE ev.e = "sl_acq" -> IF owner \notin {NONE, t} THEN Bad("mutual_exclusion") ELSE IF v # depth[t] + 1 THEN Bad("nesting_depth") ELSE Good
     [] ev.e = "sl_rel" -> IF owner # t THEN Bad("release_by_non_owner") ELSE IF v # depth[t] - 1 THEN Bad("nesting_depth") ELSE Good
     [] ev.e = "sl_save" -> IF owner # t THEN Bad("save_by_non_owner") ELSE IF v # depth[t] THEN Bad("nesting_depth") ELSE Good
     [] ev.e = "sl_restore" -> IF owner # NONE THEN Bad("mutual_exclusion") ELSE IF v # saved[t] THEN Bad("restore_depth") ELSE Good
     [] ev.e = "w_create" -> Good
     [] ev.e = "w_enq" -> IF owner # t THEN Bad("queue_changed_without_lock") ELSE Good
     [] ev.e = "ev_wlock" -> IF mown[t] # NONE THEN Bad("event_mutex_exclusion") ELSE Good
     [] ev.e = "ev_test" -> IF v # B2I(flag[t]) THEN Bad("flag_value")
                            ELSE IF parked[t] /\ mown[t] # NONE THEN Bad("event_mutex_exclusion")
                            ELSE IF ~parked[t] /\ mown[t] # t THEN Bad("event_mutex_exclusion") ELSE Good
     [] ev.e = "ev_wdone" -> IF ~flag[t] THEN Bad("spurious_return") ELSE IF mown[t] # t THEN Bad("event_mutex_exclusion") ELSE Good
     [] ev.e = "w_resumed" -> IF woken[t] = NONE THEN Bad("spurious_return") ELSE IF v # future[t] THEN Bad("future_value") ELSE Good
     [] ev.e = "w_destroy" -> Good
     \* delegate waiters (ids above the thread ids): queue entries whose wake-up is a function call under the system lock
     [] ev.e = "d_enq" -> IF owner # t THEN Bad("queue_changed_without_lock") ELSE IF \E i \in 1..Len(wq) : wq[i] = w THEN Bad("queued_twice") ELSE Good
     [] ev.e = "d_call" -> IF woken[w] = NONE THEN Bad("spurious_return") ELSE IF resumed[w] # -1 THEN Bad("woken_twice")
                           ELSE IF v # future[w] THEN Bad("future_value") ELSE IF owner # t THEN Bad("callback_without_lock") ELSE Good
     [] ev.e = "u_empty" -> IF owner # t THEN Bad("queue_read_without_lock") ELSE IF wq # <<>> THEN Bad("queued_waiter_not_woken") ELSE Good
     [] ev.e = "u_unlink" -> IF owner # t THEN Bad("queue_changed_without_lock")
                             ELSE IF wq = <<>> \/ w # Head(wq) THEN Bad("wake_order") ELSE Good
     [] ev.e = "ev_slock" -> IF ~alive[w] THEN Bad("touch_after_destroy") ELSE IF mown[w] # NONE THEN Bad("event_mutex_exclusion") ELSE Good
     [] ev.e = "ev_set" -> IF ~alive[w] THEN Bad("touch_after_destroy") ELSE IF mown[w] # t THEN Bad("event_mutex_exclusion") ELSE Good
     [] ev.e = "ev_notify" -> IF ~alive[w] THEN Bad("touch_after_destroy") ELSE Good
     [] ev.e = "ev_sunlock" -> IF ~alive[w] THEN Bad("touch_after_destroy") ELSE IF mown[w] # t THEN Bad("event_mutex_exclusion") ELSE Good
     [] ev.e = "sq_push" -> Good
     [] ev.e = "sq_pop" -> IF q = <<>> \/ Head(q) # v THEN Bad("queue_order") ELSE Good
     [] ev.e = "sq_size" -> IF v # Len(q) THEN Bad("queue_size") ELSE Good
     [] ev.e \in {"sl_unlocked", "ev_wenter", "ev_senter", "ev_sleft"} -> Good    \* scheduling points, no state
     [] ev.e = "Ret" -> Good
     [] ev.e = "Sched" -> Good        \* controlled executions: how far the TLC-generated schedule was followed (coverage information, no state)
     [] ev.e = "Hung" -> Bad("lost_wakeup_or_deadlock")
     [] ev.e = "End" -> IF \E x \in Threads : woken[x] # NONE /\ resumed[x] = -1 THEN Bad("lost_wakeup_or_deadlock")
                        ELSE IF owner # NONE THEN Bad("lock_not_released")
                        ELSE IF q # <<>> /\ FALSE THEN Bad("queue_lost") ELSE Good

Effect(ev) ==
   LET t == ev.t  w == ev.w  v == ev.v IN
   CASE ev.e = "sl_acq" -> SlAcq(t) /\ Keep(<<saved, wq, alive, flag, mown, parked, notified, future, woken, resumed, sem, q, pushed, popped, touchedDead>>)
     [] ev.e = "sl_rel" -> SlRel(t) /\ Keep(<<saved, wq, alive, flag, mown, parked, notified, future, woken, resumed, sem, q, pushed, popped, touchedDead>>)
     [] ev.e = "sl_save" -> SlSave(t) /\ Keep(<<wq, alive, flag, mown, parked, notified, future, woken, resumed, sem, q, pushed, popped, touchedDead>>)
     [] ev.e = "sl_restore" -> SlRestore(t) /\ Keep(<<saved, wq, alive, flag, mown, parked, notified, future, woken, resumed, sem, q, pushed, popped, touchedDead>>)
     [] ev.e = "w_create" -> WCreate(t) /\ Keep(<<owner, rec, depth, saved, wq, mown, parked, future, sem, q, pushed, popped, touchedDead>>)
     [] ev.e = "w_enq" -> WEnq(t, v) /\ Keep(<<owner, rec, depth, saved, alive, flag, mown, parked, notified, future, woken, resumed, sem, q, pushed, popped, touchedDead>>)
     [] ev.e = "ev_wlock" -> EvWLock(t) /\ Keep(<<owner, rec, depth, saved, wq, alive, flag, parked, notified, future, woken, resumed, sem, q, pushed, popped, touchedDead>>)
     [] ev.e = "ev_test" -> EvTest(t) /\ Keep(<<owner, rec, depth, saved, wq, alive, flag, future, woken, resumed, sem, q, pushed, popped, touchedDead>>)
     [] ev.e = "ev_wdone" -> EvWDone(t) /\ Keep(<<owner, rec, depth, saved, wq, alive, flag, parked, notified, future, woken, resumed, sem, q, pushed, popped, touchedDead>>)
     [] ev.e = "w_resumed" -> WResumed(t) /\ Keep(<<owner, rec, depth, saved, wq, alive, flag, mown, parked, notified, future, woken, sem, q, pushed, popped, touchedDead>>)
     [] ev.e = "w_destroy" -> WDestroy(t) /\ Keep(<<owner, rec, depth, saved, wq, flag, mown, parked, notified, future, woken, resumed, sem, q, pushed, popped, touchedDead>>)
     [] ev.e = "d_enq" -> /\ wq' = Append(wq, w) /\ alive' = [alive EXCEPT ![w] = TRUE] /\ woken' = [woken EXCEPT ![w] = NONE] /\ resumed' = [resumed EXCEPT ![w] = -1]
                          /\ Keep(<<owner, rec, depth, saved, flag, mown, parked, notified, future, sem, q, pushed, popped, touchedDead>>)
     [] ev.e = "d_call" -> resumed' = [resumed EXCEPT ![w] = v] /\ Keep(<<owner, rec, depth, saved, wq, alive, flag, mown, parked, notified, future, woken, sem, q, pushed, popped, touchedDead>>)
     [] ev.e = "u_unlink" -> UUnlink(t, w, v) /\ Keep(<<owner, rec, depth, saved, alive, flag, mown, parked, notified, resumed, sem, q, pushed, popped, touchedDead>>)
     [] ev.e = "ev_slock" -> EvSLock(t, w) /\ Keep(<<owner, rec, depth, saved, wq, alive, flag, parked, notified, future, woken, resumed, sem, q, pushed, popped>>)
     [] ev.e = "ev_set" -> EvSet(t, w) /\ Keep(<<owner, rec, depth, saved, wq, alive, mown, parked, notified, future, woken, resumed, sem, q, pushed, popped>>)
     [] ev.e = "ev_notify" -> EvNotify(t, w) /\ Keep(<<owner, rec, depth, saved, wq, alive, flag, mown, parked, future, woken, resumed, sem, q, pushed, popped>>)
     [] ev.e = "ev_sunlock" -> EvSUnlock(t, w) /\ Keep(<<owner, rec, depth, saved, wq, alive, flag, parked, notified, future, woken, resumed, sem, q, pushed, popped>>)
     [] ev.e = "sq_push" -> /\ q' = Append(q, v) /\ pushed' = Append(pushed, <<t, v>>)
                            /\ Keep(<<owner, rec, depth, saved, wq, alive, flag, mown, parked, notified, future, woken, resumed, sem, popped, touchedDead>>)
     [] ev.e = "sq_pop" -> /\ q' = Tail(q) /\ popped' = Append(popped, Head(q))
                           /\ Keep(<<owner, rec, depth, saved, wq, alive, flag, mown, parked, notified, future, woken, resumed, sem, pushed, touchedDead>>)
     [] OTHER -> Keep(AllShared)

Fresh ==
  /\ owner' = NONE /\ rec' = 0 /\ depth' = Fn(0) /\ saved' = Fn(0)
  /\ wq' = <<>> /\ alive' = Fn(FALSE) /\ flag' = Fn(FALSE) /\ mown' = Fn(NONE) /\ parked' = Fn(FALSE)
  /\ notified' = Fn(FALSE) /\ future' = Fn(0) /\ woken' = Fn(NONE) /\ resumed' = Fn(-1)
  /\ sem' = NONE /\ q' = <<>> /\ pushed' = <<>> /\ popped' = <<>> /\ touchedDead' = FALSE

TInit == /\ JInit /\ l = 1 /\ sync = FALSE
         /\ prog = Fn(<<>>) /\ ip = Fn(1) /\ pc = Fn("start") /\ cur = Fn(NONE)
         /\ owner = NONE /\ rec = 0 /\ depth = Fn(0) /\ saved = Fn(0)
         /\ wq = <<>> /\ alive = Fn(FALSE) /\ flag = Fn(FALSE) /\ mown = Fn(NONE) /\ parked = Fn(FALSE)
         /\ notified = Fn(FALSE) /\ future = Fn(0) /\ woken = Fn(NONE) /\ resumed = Fn(-1)
         /\ sem = NONE /\ q = <<>> /\ pushed = <<>> /\ popped = <<>> /\ touchedDead = FALSE
         /\ chain = <<>> /\ stk = Fn(<<>>) /\ nxt = Fn(-1) /\ twice = FALSE
TNext ==
   /\ l <= NTrace /\ l' = l + 1 /\ Consumed(l) /\ UNCHANGED <<prog, ip, pc, cur, chain, stk, nxt, twice>>
   /\ LET ev == TraceLog[l] IN
      IF ev.e = "Reset" THEN Fresh /\ sync' = TRUE
      \* (the events of an execution are written when it has ended: a driver that dies inside one leaves nothing but the Fault)
      ELSE IF ev.e = "Fault" THEN Flag(l, <<"fault">>, [kind |-> ev.kind, where |-> ev.where]) /\ sync' = FALSE /\ UNCHANGED AllShared
      ELSE IF ~sync THEN UNCHANGED <<AllShared, sync>>
      ELSE LET vd == Verdict(ev) IN
           IF vd.ok THEN Effect(ev) /\ sync' = TRUE
           ELSE Flag(l, <<vd.clause>>, [owner |-> owner, wq |-> wq]) /\ sync' = FALSE /\ UNCHANGED AllShared
TSpec == TInit /\ [][TNext]_<<vars, tvars>>
Accepted == WriteVerdict
=============================================================================
