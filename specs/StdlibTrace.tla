---------------------------- MODULE StdlibTrace ----------------------------
(***************************************************************************)
(* Trace specification for C11.                                            *)
(*  Strto  : value and end offset as ISO C defines them (StrTo.tla)        *)
(*  Qsort  : monitor - the result is a permutation of the input as whole   *)
(*           elements (key, identity, payload intact) ordered by the       *)
(*           comparator (key div d)                                        *)
(*  Bsearch: monitor - a hit compares equal and lies in the array, a miss  *)
(*           means no element compares equal; every comparator call gets   *)
(*           the key first and an element of the array second              *)
(***************************************************************************)
EXTENDS StrTo, Judge, SortSearch
VARIABLES l, sync
Signed(fn) == fn \in {"strtol", "strtoll", "strtoimax", "atol", "atoi"}
StrtoExp(ev) ==
   IF ev.fn \in {"atol", "atoi"}
   THEN LET r == Strto(ev.text, 10, TRUE, 8) IN [val |-> SubSeq(r.val, 1, IF ev.fn = "atoi" THEN 4 ELSE 8), endoff |-> 0]
   ELSE LET r == Strto(ev.text, ev.base, Signed(ev.fn), 8) IN [val |-> r.val, endoff |-> r.end]
\* atoi/atol are only defined on the representable range
Comparable(ev) == ev.fn \notin {"atol", "atoi"} \/ ~AtoOverflows(ev.text)

TInit == JInit /\ l = 1 /\ sync = TRUE
TNext ==
   /\ l <= NTrace /\ l' = l + 1 /\ Consumed(l) /\ sync' = TRUE
   /\ LET ev == TraceLog[l] IN
      IF ev.e = "Reset" THEN TRUE
      ELSE IF ev.e = "Fault" THEN Flag(l, <<"fault">>, [kind |-> ev.kind, where |-> ev.where])
      ELSE IF ev.e = "Strto" THEN
           (IF Comparable(ev) THEN LET exp == StrtoExp(ev) mm == Mismatch(ev, exp) IN IF mm # {} THEN Flag(l, SetToSeq(mm), exp) ELSE TRUE ELSE TRUE)
      ELSE LET errs == IF ev.e = "Qsort" THEN QsortErrs(ev) ELSE BsearchErrs(ev)
           IN IF errs # {} THEN Flag(l, SetToSeq(errs), [n |-> Len(ev.keys)]) ELSE TRUE
TSpec == TInit /\ [][TNext]_<<l, sync>>
Accepted == WriteVerdict
=============================================================================
