---------------------------- MODULE StdlibTrace ----------------------------
(***************************************************************************)
(* Trace specification for C11.                                            *)
(*  Strto  : value and end offset as ISO C defines them (StrTo.tla)        *)
(*  Qsort  : monitor - the result is a permutation of the input as whole   *)
(*           elements (key, identity, payload intact) ordered by the       *)
(*           comparator (key div d)                                        *)
(*  Bsearch: monitor - a hit compares equal and lies in the array, a miss  *)
(*           means no element compares equal; every comparator call gets   *)
(*           the key first and an element of the array second              *)
(***************************************************************************)
EXTENDS StrTo, Judge, SortSearch
VARIABLES l, sync
Signed(fn) == fn \in {"strtol", "strtoll", "strtoimax", "atol", "atoi"}
StrtoExp(ev) ==
   IF ev.fn \in {"atol", "atoi"}
   THEN LET r == Strto(ev.text, 10, TRUE, 8) IN [val |-> SubSeq(r.val, 1, IF ev.fn = "atoi" THEN 4 ELSE 8), endoff |-> 0]
   ELSE LET r == Strto(ev.text, ev.base, Signed(ev.fn), 8) IN [val |-> r.val, endoff |-> r.end]
\* a text of k copies of one character (white space, or '0' in base 10) followed by a short tail, k = kh * 65536 + kl up to 2^31 and more:
\* white space is skipped and a conversion ends k characters later than in the tail alone; a run of zeros is a run of digits - the value is
\* that of one zero followed by the tail, the end lies k - 1 characters later.  Offsets as halves <<high, low 16 bits>>.
AddOff(kh, kl, d) == LET lo == kl + d IN <<kh + (lo \div 65536), lo % 65536>>           \* d >= -1
StrtoBigExp(ev) ==
   LET noend == ev.fn \in {"atol", "atoi"}
       w == IF ev.fn = "atoi" THEN 4 ELSE 8
       base == IF noend THEN 10 ELSE ev.base
       r == IF ev.ch = 48 THEN Strto(<<48>> \o ev.tail, base, Signed(ev.fn), 8) ELSE Strto(ev.tail, base, Signed(ev.fn), 8)
       off == IF noend \/ r.end = 0 THEN <<0, 0>> ELSE IF ev.ch = 48 THEN AddOff(ev.kh, ev.kl, r.end - 1) ELSE AddOff(ev.kh, ev.kl, r.end)
   IN [val |-> SubSeq(r.val, 1, w), eneg |-> 0, eh |-> off[1], el |-> off[2]]
\* atoi/atol are only defined on the representable range
Comparable(ev) == ev.fn \notin {"atol", "atoi"} \/ ~AtoOverflows(ev.text)

TInit == JInit /\ l = 1 /\ sync = TRUE
TNext ==
   /\ l <= NTrace /\ l' = l + 1 /\ Consumed(l) /\ sync' = TRUE
   /\ LET ev == TraceLog[l] IN
      IF ev.e = "Reset" THEN TRUE
      ELSE IF ev.e = "Fault" THEN Flag(l, <<"fault">>, [kind |-> ev.kind, where |-> ev.where])
      ELSE IF ev.e = "StrtoBig" THEN
           (LET exp == StrtoBigExp(ev) mm == Mismatch(ev, exp) IN IF mm # {} THEN Flag(l, SetToSeq(mm), exp) ELSE TRUE)
      ELSE IF ev.e = "Strto" THEN
           (IF Comparable(ev) THEN LET exp == StrtoExp(ev) mm == Mismatch(ev, exp) IN IF mm # {} THEN Flag(l, SetToSeq(mm), exp) ELSE TRUE ELSE TRUE)
      ELSE LET errs == IF ev.e = "Qsort" THEN QsortErrs(ev) ELSE BsearchErrs(ev)
           IN IF errs # {} THEN Flag(l, SetToSeq(errs), [n |-> Len(ev.keys)]) ELSE TRUE
TSpec == TInit /\ [][TNext]_<<l, sync>>
Accepted == WriteVerdict
=============================================================================
