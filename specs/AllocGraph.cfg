CONSTANTS Ids = {1, 2, 3}
          ReqBytes = {0, 64, 128}
          MaxBrk = 22
SPECIFICATION Spec
CONSTRAINT BrkBound
INVARIANTS Tiling FreeListShape AllFreedRestores
