------------------------------ MODULE CodecMC ------------------------------
EXTENDS Codec
CONSTANTS Alphabet, MaxLen, AllShort
VARIABLES x
Init == x \in (UNION {[1..k -> Alphabet] : k \in 0..MaxLen}) \cup (IF AllShort THEN UNION {[1..k -> 0..255] : k \in 0..2} ELSE {})
Next == UNCHANGED x
Spec == Init /\ [][Next]_x
Ceil3(n) == (n + 2) \div 3
RoundTrip == /\ HexDec(HexEnc(x)) = x /\ B64Dec(B64Enc(x)) = x /\ B64UrlDec(B64UrlEnc(x)) = x
             /\ HexToUint(UintToHex(x)) = x
\* the position-by-position forms are the same functions
IdxForms == /\ EncIdx(FALSE, x) = B64Enc(x) /\ EncIdx(TRUE, x) = B64UrlEnc(x)
            /\ DecIdx(B64Enc(x)) = x /\ DecIdx(B64UrlEnc(x)) = x /\ DecIdx(B64Enc(x)) = B64Dec(B64Enc(x))
Lengths == Len(HexEnc(x)) = 2 * Len(x) /\ Len(B64Enc(x)) = 4 * Ceil3(Len(x)) /\ Len(B64UrlEnc(x)) = 4 * Ceil3(Len(x))
Alphabets == /\ \A i \in 1..(2 * Len(x)) : IsUpperHex(HexEnc(x)[i])
             /\ \A i \in 1..Len(B64Enc(x)) : InB64Alphabet(B64Enc(x)[i])
             /\ \A i \in 1..Len(B64UrlEnc(x)) : InUrlAlphabet(B64UrlEnc(x)[i])
\* RFC 4648 section 10 test vectors ("f" = 102, "o" = 111, "b" = 98, "a" = 97, "r" = 114)
Rfc == /\ B64Enc(<<>>) = <<>>
       /\ B64Enc(<<102>>) = <<90, 103, 61, 61>>
       /\ B64Enc(<<102, 111>>) = <<90, 109, 56, 61>>
       /\ B64Enc(<<102, 111, 111>>) = <<90, 109, 57, 118>>
       /\ B64Enc(<<102, 111, 111, 98>>) = <<90, 109, 57, 118, 89, 103, 61, 61>>
       /\ B64Enc(<<102, 111, 111, 98, 97>>) = <<90, 109, 57, 118, 89, 109, 69, 61>>
       /\ B64Enc(<<102, 111, 111, 98, 97, 114>>) = <<90, 109, 57, 118, 89, 109, 70, 121>>
       /\ HexEnc(<<0, 171, 255>>) = <<48, 48, 65, 66, 70, 70>>
       /\ B64UrlEnc(<<251, 255>>) = <<45, 95, 56, 61>>
=============================================================================
