---------------------------- MODULE PrintfTrace ----------------------------
(***************************************************************************)
(* Trace specification for C06: the characters handed to the callback must *)
(* be exactly Expected(fmt, args) (for a format that is a single p         *)
(* directive: PtrOK), the return value the number of characters; the       *)
(* compat sprintf shim must store the same characters plus a terminator    *)
(* and nothing else.                                                       *)
(***************************************************************************)
EXTENDS Printf, Judge
VARIABLES l, sync
IsPtrFmt(f) == f # <<>> /\ f[1] = 37 /\ f[Len(f)] = 112
PtrWidth(f) == LET pf == PFlags(f, 2, {}) IN PNum(f, pf.i, 0).n
Fill(n) == [i \in 1..n |-> 165]
Errs(ev) ==
   LET n == Len(ev.out) IN
   (IF IsPtrFmt(ev.fmt)
    THEN (IF PtrOK(ev.out, ev.args[1], PtrWidth(ev.fmt)) THEN {} ELSE {"pointer_text"})
    ELSE (IF ev.out # Expected(ev.fmt, ev.args) THEN {"text"} ELSE {}))
   \cup (IF ev.ret # n THEN {"return_value"} ELSE {})
   \cup (IF ev.ret2 # n THEN {"sprintf_return_value"} ELSE {})
   \cup (IF ev.sbuf # Fill(8) \o ev.out \o <<0>> \o Fill(8) THEN {"sprintf_buffer"} ELSE {})
TInit == JInit /\ l = 1 /\ sync = TRUE
TNext ==
   /\ l <= NTrace /\ l' = l + 1 /\ Consumed(l) /\ sync' = TRUE
   /\ LET ev == TraceLog[l] IN
      IF ev.e = "Reset" THEN TRUE
      ELSE IF ev.e = "Fault" THEN Flag(l, <<"fault">>, [kind |-> ev.kind, where |-> ev.where])
      ELSE IF ev.e = "Pd" THEN TRUE       \* (the other conversion family, logged by re-entrant calls: judged by the other trace specification)
      ELSE LET errs == Errs(ev) IN
           IF errs # {} THEN Flag(l, SetToSeq(errs), [text |-> IF IsPtrFmt(ev.fmt) THEN <<>> ELSE Expected(ev.fmt, ev.args)]) ELSE TRUE
TSpec == TInit /\ [][TNext]_<<l, sync>>
Accepted == WriteVerdict
=============================================================================
