CONSTANTS Ids = {1, 2, 3}
          ReqBytes = {0, 64, 100, 200}
          MaxBrk = 60
SPECIFICATION Spec
CONSTRAINT BrkBound
INVARIANTS Tiling FreeListShape AllFreedRestores Aligned
