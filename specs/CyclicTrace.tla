---------------------------- MODULE CyclicTrace ----------------------------
EXTENDS Cyclic, Judge
VARIABLES l, sync
tvars == <<l, sync>>

JudgeEv(ev, exp) ==
   LET mm == Mismatch(ev, exp)
   IN IF mm # {} THEN Flag(l, SetToSeq(mm), exp) /\ sync' = FALSE ELSE sync' = TRUE

Step(ev) ==
   CASE ev.e = "Push"  -> Push(ev.v) /\ JudgeEv(ev, [ret |-> ret'[2], size |-> Len(hist')])
     [] ev.e = "Index" -> UNCHANGED vars /\ JudgeEv(ev, [ret |-> RefIndex(hist, ev.i)])
     [] ev.e = "Inc"   -> Inc(ev.i) /\ JudgeEv(ev, [counter |-> counter'])
     [] ev.e = "Set"   -> SetC(ev.i) /\ JudgeEv(ev, [counter |-> counter'])
     [] ev.e = "Prev"  -> UNCHANGED vars /\ JudgeEv(ev, [ret |-> CPrev(counter, ev.i)])
     [] ev.e = "LastN" -> UNCHANGED vars /\ JudgeEv(ev, [ret |-> CFixupPos(counter - ev.i)])
     [] ev.e = "FixupPos" -> UNCHANGED vars /\ JudgeEv(ev, [ret |-> CFixupPos(ev.i)])

TInit == /\ JInit /\ l = 1 /\ sync = FALSE /\ kind = "rc" /\ n = 1 /\ hist = <<>> /\ counter = 0
         /\ data = [i \in 0..0 |-> 0] /\ ret = <<"init">>
TNext ==
   /\ l <= NTrace /\ l' = l + 1 /\ Consumed(l)
   /\ LET ev == TraceLog[l] IN
      IF ev.e = "Reset" THEN
           /\ kind' = ev.kind /\ n' = ev.size /\ hist' = <<>> /\ counter' = 0
           /\ data' = [i \in 0..(ev.size-1) |-> 0] /\ ret' = <<"init">> /\ sync' = TRUE
      ELSE IF ~sync THEN UNCHANGED <<vars, sync>>
      ELSE IF ev.e = "Fault" THEN Flag(l, <<"fault">>, [kind |-> ev.kind, where |-> ev.where]) /\ sync' = FALSE /\ UNCHANGED vars
      ELSE Step(ev)
TSpec == TInit /\ [][TNext]_<<vars, tvars>>
Accepted == WriteVerdict
=============================================================================
