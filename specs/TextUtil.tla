------------------------------ MODULE TextUtil ------------------------------
(***************************************************************************)
(* C19 - text, path and command-line utilities (igris/util/string.*,       *)
(* string/replace*, string/memmem.c, datastruct/argvc.h, shell/mshell.c,   *)
(* shell/rshell.c, util/pathops.h) on byte sequences.                      *)
(***************************************************************************)
EXTENDS Integers, Sequences, FiniteSets, TLC

WS == {32, 9, 10, 13}                 \* white space of trim and the argv splitter
Take(s, n) == SubSeq(s, 1, n)
Drop(s, n) == SubSeq(s, n + 1, Len(s))
RECURSIVE SkipIn(_, _, _)             \* first index >= i whose byte is not in D (or Len+1)
SkipIn(s, i, D) == IF i <= Len(s) /\ s[i] \in D THEN SkipIn(s, i + 1, D) ELSE i
RECURSIVE SkipOut(_, _, _)            \* first index >= i whose byte is in D (or Len+1)
SkipOut(s, i, D) == IF i <= Len(s) /\ s[i] \notin D THEN SkipOut(s, i + 1, D) ELSE i

\* split: the maximal runs of bytes not in D, in order
RECURSIVE SplitFrom(_, _, _)
SplitFrom(s, i, D) ==
   LET a == SkipIn(s, i, D) IN
   IF a > Len(s) THEN <<>>
   ELSE LET b == SkipOut(s, a, D) IN <<SubSeq(s, a, b - 1)>> \o SplitFrom(s, b, D)
Split(s, D) == SplitFrom(s, 1, D)
\* token start offsets (0-based), for the in-place splitters
RECURSIVE StartsFrom(_, _, _)
StartsFrom(s, i, D) ==
   LET a == SkipIn(s, i, D) IN
   IF a > Len(s) THEN <<>> ELSE <<a - 1>> \o StartsFrom(s, SkipOut(s, a, D), D)

\* split_cmdargs: blanks separate; a token that starts with a quote runs to the matching quote
RECURSIVE CmdFrom(_, _)
CmdFrom(s, i) ==
   LET a == SkipIn(s, i, {32}) IN
   IF a > Len(s) THEN <<>>
   ELSE IF s[a] \in {34, 39}
        THEN LET b == SkipOut(s, a + 1, {s[a]}) IN <<SubSeq(s, a + 1, b - 1)>> \o (IF b > Len(s) THEN <<>> ELSE CmdFrom(s, b + 1))
        ELSE LET b == SkipOut(s, a, {32}) IN <<SubSeq(s, a, b - 1)>> \o CmdFrom(s, b)
SplitCmd(s) == CmdFrom(s, 1)

RECURSIVE Join(_, _)
Join(ts, d) == IF ts = <<>> THEN <<>> ELSE IF Len(ts) = 1 THEN ts[1] ELSE ts[1] \o <<d>> \o Join(Tail(ts), d)
\* trim: exactly the leading and trailing white space goes
RECURSIVE RTrim(_)
RTrim(s) == IF s # <<>> /\ s[Len(s)] \in WS THEN RTrim(Take(s, Len(s) - 1)) ELSE s
Trim(s) == RTrim(Drop(s, SkipIn(s, 1, WS) - 1))

\* first occurrence of needle in hay from index i (1-based), 0 if none
RECURSIVE FindFrom(_, _, _)
FindFrom(hay, needle, i) == IF i + Len(needle) - 1 > Len(hay) THEN 0
                            ELSE IF SubSeq(hay, i, i + Len(needle) - 1) = needle THEN i ELSE FindFrom(hay, needle, i + 1)
MemMem(hay, needle) == FindFrom(hay, needle, 1) - 1          \* 0-based offset, -1 if none (needle non-empty)
\* replace: left to right, non-overlapping; an empty pattern changes nothing
RECURSIVE ReplaceFrom(_, _, _, _)
ReplaceFrom(s, i, sub, rep) ==
   LET k == FindFrom(s, sub, i) IN
   IF k = 0 THEN SubSeq(s, i, Len(s)) ELSE SubSeq(s, i, k - 1) \o rep \o ReplaceFrom(s, k + Len(sub), sub, rep)
Replace(s, sub, rep) == IF sub = <<>> THEN s ELSE ReplaceFrom(s, 1, sub, rep)
\* C variant into a buffer of maxsize bytes: the result cut to maxsize-1 bytes and terminated
\* (a buffer of size 0 cannot even hold the terminator: nothing is written)
ReplaceBuf(s, sub, rep, maxsize) == IF maxsize = 0 THEN <<>>
                                    ELSE LET r == Replace(s, sub, rep) IN Take(r, IF Len(r) < maxsize - 1 THEN Len(r) ELSE maxsize - 1) \o <<0>>

\* argv splitter on a terminated string: at most max tokens; each token that is followed by a
\* white-space byte gets that byte replaced by a terminator.  Result [argc, starts, image]
Min2(a, b) == IF a < b THEN a ELSE b
ArgvSplit(s, max) ==
   LET st == StartsFrom(s, 1, WS)
       n == Min2(Len(st), max)
       ends == [k \in 1..n |-> SkipOut(s, st[k] + 1, WS)]          \* 1-based index just after token k
   IN [argc |-> n, starts |-> Take(st, n),
       image |-> [i \in 1..Len(s) |-> IF \E k \in 1..n : ends[k] = i THEN 0 ELSE s[i]]]
Token(s, st) == SubSeq(s, st + 1, SkipOut(s, st + 1, WS) - 1)

\* shell dispatch: the handler of the first token iff it names a command; nothing for blank lines
Dispatch(line, names, max) ==
   LET a == ArgvSplit(line, max) IN
   IF a.argc = 0 THEN [called |-> FALSE, name |-> <<>>, argc |-> 0]
   ELSE LET cmd == Token(line, a.starts[1]) IN
        IF \E i \in 1..Len(names) : names[i] = cmd THEN [called |-> TRUE, name |-> cmd, argc |-> a.argc]
        ELSE [called |-> FALSE, name |-> <<>>, argc |-> 0]


\* ----- creader (igris/creader.h): a cursor over a text of known length ------------------------------------------
\* readline: the next line is the run of characters up to the next LF (or the end of the text); carriage returns directly in front of
\* that LF are not part of the line; the cursor moves behind the LF (to the end of the text for an unterminated last line); at the end of
\* the text the answer is -1.  Texts with NUL bytes are outside this definition.  cur is 0-based.
RECURSIVE NextLF(_, _)
NextLF(s, i) == IF i > Len(s) THEN Len(s) + 1 ELSE IF s[i] = 10 THEN i ELSE NextLF(s, i + 1)       \* 1-based index of the LF, or Len + 1
RECURSIVE StripCR(_)
StripCR(x) == IF x # <<>> /\ x[Len(x)] = 13 THEN StripCR(SubSeq(x, 1, Len(x) - 1)) ELSE x
ReadLine(s, cur) ==
   IF cur >= Len(s) THEN [ret |-> -1, tok |-> cur, cur |-> cur]
   ELSE LET e == NextLF(s, cur + 1)
            raw == SubSeq(s, cur + 1, e - 1)
        IN [ret |-> IF e <= Len(s) THEN Len(StripCR(raw)) ELSE Len(raw), tok |-> cur, cur |-> IF e <= Len(s) THEN e ELSE Len(s)]
\* all lines: <<token offset, length>> per call until the call that answers -1 (at most Len(s) + 1 calls)
RECURSIVE ReadAll(_, _, _)
ReadAll(s, cur, acc) == LET r == ReadLine(s, cur) IN IF r.ret = -1 THEN acc ELSE ReadAll(s, r.cur, Append(acc, <<r.tok, r.ret>>))
\* skip: the cursor moves over the characters that are in the set; the count of characters passed
CSkip(s, cur, set) == LET j == SkipIn(s, cur + 1, set) IN [ret |-> j - 1 - cur, cur |-> j - 1]

\* ----- paths: components are the maximal slash-free runs; "." components are skipped ------------
Slash == 47
Dot == 46
IsDotAt(s, i) == i <= Len(s) /\ s[i] = Dot /\ (i = Len(s) \/ s[i + 1] = Slash)
RECURSIVE SkipSep(_, _)      \* skip slashes and single-dot components from index i
SkipSep(s, i) == IF i <= Len(s) /\ (s[i] = Slash \/ IsDotAt(s, i)) THEN SkipSep(s, i + 1) ELSE i
\* path_next: offset and length of the first component, or none
PathNext(s) == LET a == SkipSep(s, 1) IN
               IF a > Len(s) THEN [off |-> -1, len |-> 0] ELSE [off |-> a - 1, len |-> SkipOut(s, a, {Slash}) - a]
\* path_iterate: NULL on an empty path; a leading slash is itself a node
PathIterate(s) == IF s = <<>> THEN -1
                  ELSE IF s[1] = Slash THEN SkipSep(s, 1) - 1
                  ELSE SkipSep(s, SkipOut(s, 1, {Slash})) - 1
Node(s) == Take(s, SkipOut(s, 1, {Slash}) - 1)
RECURSIVE LexCmp(_, _, _)
LexCmp(a, b, i) == IF i > Len(a) /\ i > Len(b) THEN 0 ELSE IF i > Len(a) THEN -1 ELSE IF i > Len(b) THEN 1
                   ELSE IF a[i] # b[i] THEN (IF a[i] < b[i] THEN -1 ELSE 1) ELSE LexCmp(a, b, i + 1)
CompareNode(a, b) == LexCmp(Node(a), Node(b), 1)
\* remove_prefix: walk both paths node by node while the nodes are equal; offset into path of what is left
RECURSIVE RemovePrefixFrom(_, _, _)
RemovePrefixFrom(p, q, off) ==
   IF p = <<>> /\ q = <<>> THEN off
   ELSE IF CompareNode(p, q) # 0 THEN off
   ELSE LET ip == PathIterate(p)  iq == PathIterate(q) IN
        IF ip = -1 THEN off                    \* path exhausted
        ELSE IF iq = -1 THEN off + ip          \* prefix exhausted: the equal node of path has been passed
        ELSE RemovePrefixFrom(Drop(p, ip), Drop(q, iq), off + ip)
RemovePrefix(p, q) == RemovePrefixFrom(p, q, 0)
=============================================================================
