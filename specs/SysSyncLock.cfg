CONSTANTS Threads <- T3
          Programs <- ProgLock
          NotifyUnderLock = TRUE
          Delegates <- NoD
          CursorBeforeWake = FALSE
          SpuriousWakeups = FALSE
SPECIFICATION FairSpec
INVARIANTS NoTouchAfterDestroy LockInv NoSpuriousReturn QueueInv QueueWellFormed PerProducerOrder
PROPERTIES NoLostWakeup WakeOrderOK
CHECK_DEADLOCK FALSE
