CONSTANTS Alphabet = {97, 65, 255}
SPECIFICATION Spec
INVARIANTS MoveLaw CmpLaw CopyLaw SearchLaw TokLaw SpanLaw
CHECK_DEADLOCK FALSE
