CONSTANTS NNs = {3}
SPECIFICATION Spec
INVARIANTS RefinementInv
CHECK_DEADLOCK FALSE
