CONSTANTS Ns = {1}
          Vals = {1}
          MaxArg = 0
SPECIFICATION TSpec
POSTCONDITION Accepted
CHECK_DEADLOCK FALSE
