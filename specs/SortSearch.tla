----------------------------- MODULE SortSearch -----------------------------
(***************************************************************************)
(* C11 (second part) - monitors for qsort and bsearch, as operators on the *)
(* recorded event (keys before, keys/identities after, comparator calls).  *)
(***************************************************************************)
EXTENDS Integers, Sequences, FiniteSets
Count(s, x) == Cardinality({i \in 1..Len(s) : s[i] = x})
Pairs(ks, ids) == [i \in 1..Len(ks) |-> <<ks[i], ids[i]>>]
QsortErrs(ev) ==
   LET n == Len(ev.keys)
       before == Pairs(ev.keys, [i \in 1..n |-> IF ev.size >= 2 THEN (i - 1) % (IF ev.size = 2 THEN 256 ELSE 65536) ELSE -1])
       after == Pairs(ev.akeys, ev.aids)
   IN (IF Len(ev.akeys) # n \/ \E i \in 1..n : Count(after, before[i]) # Count(before, before[i]) THEN {"not_a_permutation"} ELSE {})
      \cup (IF \E i \in 1..(Len(ev.akeys) - 1) : ev.akeys[i] \div ev.div > ev.akeys[i + 1] \div ev.div THEN {"not_ordered"} ELSE {})
      \cup (IF \E i \in 1..Len(ev.intact) : ev.intact[i] # 1 THEN {"element_torn"} ELSE {})
BsearchErrs(ev) ==
   LET n == Len(ev.keys)
       eq(i) == ev.keys[i] \div ev.div = ev.key \div ev.div
       nc == Len(ev.cmps) \div 2
   IN (IF ev.ret = -1 THEN (IF \E i \in 1..n : eq(i) THEN {"present_but_not_found"} ELSE {})
       ELSE IF ev.ret < 0 \/ ev.ret >= n THEN {"result_outside_array"}
       ELSE IF ~eq(ev.ret + 1) THEN {"found_element_not_equal"} ELSE {})
      \cup (IF \E k \in 1..nc : ev.cmps[2 * k] < 0 \/ ev.cmps[2 * k] >= n THEN {"comparator_outside_array"} ELSE {})
      \cup (IF \E k \in 1..nc : ev.cmps[2 * k - 1] # -1 THEN {"comparator_argument_order"} ELSE {})
=============================================================================
