------------------------------ MODULE CrcTrace ------------------------------
(***************************************************************************)
(* Trace specification for C17: every recorded CRC call must return the    *)
(* value of the definition in Crc.tla; the result of feeding the data in   *)
(* two pieces (running value as seed) must be the one-shot value (for      *)
(* CRC-32 when the cut is a multiple of four bytes, otherwise the value    *)
(* the definition gives for the two pieces; CRC-7 takes no seed).          *)
(***************************************************************************)
EXTENDS Crc, Judge
VARIABLES l, sync
Chunked(ev) ==
   LET a == SubSeq(ev.data, 1, ev.cut)  b == SubSeq(ev.data, ev.cut + 1, Len(ev.data)) IN
   IF ev.fn = "crc7" THEN Def(ev.fn, ev.seed, b)
   ELSE IF ev.fn = "crc32" /\ ev.cut % 4 # 0 THEN Def(ev.fn, Def(ev.fn, ev.seed, a), b)
   ELSE Def(ev.fn, ev.seed, ev.data)
TInit == JInit /\ l = 1 /\ sync = TRUE
TNext ==
   /\ l <= NTrace /\ l' = l + 1 /\ Consumed(l)
   /\ LET ev == TraceLog[l] IN
      IF ev.e = "Reset" THEN sync' = TRUE
      ELSE IF ev.e = "Fault" THEN Flag(l, <<"fault">>, [kind |-> ev.kind, where |-> ev.where]) /\ sync' = TRUE
      \* a message of gigabytes, zero between a head (multiple of four bytes) and a tail: judged by the sparse form of the definition
      ELSE IF ev.e = "CrcBig" THEN
           LET exp == [ret |-> Sparse32(ev.seed, ev.head, ev.nzh, ev.nzl, ev.tail)] mm == Mismatch(ev, exp)
           IN IF mm # {} THEN Flag(l, SetToSeq(mm), exp) /\ sync' = TRUE ELSE sync' = TRUE
      \* one buffer used twice: the value depends on the bytes the buffer holds at the time of the call, not on its address
      ELSE IF ev.e = "CrcReuse" THEN
           LET exp == [ret |-> Def(ev.fn, ev.seed, ev.data), ret2 |-> Def(ev.fn, ev.seed, ev.data2)] mm == Mismatch(ev, exp)
           IN IF mm # {} THEN Flag(l, SetToSeq(mm), exp) /\ sync' = TRUE ELSE sync' = TRUE
      ELSE LET exp == [ret |-> Def(ev.fn, ev.seed, ev.data), chunked |-> Chunked(ev)]
               mm == Mismatch(ev, exp)
           IN IF mm # {} THEN Flag(l, SetToSeq(mm), exp) /\ sync' = TRUE ELSE sync' = TRUE
TSpec == TInit /\ [][TNext]_<<l, sync>>
Accepted == WriteVerdict
=============================================================================
