CONSTANTS Vals = {1, 2}
          MaxSize = 3
          Caps = {0, 2}
          Keeps = {FALSE}
SPECIFICATION Spec
CONSTRAINT SizeBound
INVARIANTS CapInv Laws
CHECK_DEADLOCK FALSE
