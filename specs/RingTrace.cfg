CONSTANTS Sizes = {2}
          Bytes = {0}
          MaxBulk = 0
SPECIFICATION TSpec
POSTCONDITION Accepted
CHECK_DEADLOCK FALSE
