------------------------------- MODULE StrTo -------------------------------
(***************************************************************************)
(* C11 (first part) - strtol/strtoul/strtoll/strtoull/strtoimax/strtoumax, *)
(* atoi, atol as ISO C 7.22.1.4 defines them, on byte arrays (LP64: every  *)
(* strto* type is 8 bytes wide, int is 4).                                 *)
(***************************************************************************)
EXTENDS NumText

IsSpace(c) == c \in {32, 9, 10, 11, 12, 13}
IsHex(c) == DigitVal(c) < 16
RECURSIVE SkipSpace(_, _)
SkipSpace(t, i) == IF i <= Len(t) /\ IsSpace(t[i]) THEN SkipSpace(t, i + 1) ELSE i
At(t, i) == IF i <= Len(t) THEN t[i] ELSE 0
\* big-endian comparison a > b (same length)
RECURSIVE GtBE(_, _, _)
GtBE(a, b, i) == IF i > Len(a) THEN FALSE ELSE IF a[i] # b[i] THEN a[i] > b[i] ELSE GtBE(a, b, i + 1)
MaxU(w) == [i \in 1..w |-> 255]                                        \* 2^(8w) - 1, little-endian
MaxS(w) == [i \in 1..w |-> IF i = w THEN 127 ELSE 255]                 \* 2^(8w-1) - 1
MinS(w) == [i \in 1..w |-> IF i = w THEN 128 ELSE 0]                   \* -2^(8w-1)
\* digits from position i in `base`: [acc (w+1 bytes LE), over, end, any]
RECURSIVE Scan(_, _, _, _, _, _)
Scan(t, i, base, acc, over, any) ==
   IF i <= Len(t) /\ DigitVal(t[i]) < base
   THEN LET nacc == IF over THEN acc ELSE MulAdd(acc, base, 1, DigitVal(t[i]))
        IN Scan(t, i + 1, base, nacc, over \/ nacc[Len(nacc)] # 0, TRUE)
   ELSE [acc |-> acc, over |-> over, end |-> i - 1, any |-> any]

\* result [val (w bytes LE), end (offset of first unconsumed character)]
Strto(t, base0, signed, w) ==
   LET i0 == SkipSpace(t, 1)
       neg == At(t, i0) = 45
       i1 == IF At(t, i0) \in {45, 43} THEN i0 + 1 ELSE i0
       hexp == (base0 = 0 \/ base0 = 16) /\ At(t, i1) = 48 /\ At(t, i1 + 1) \in {120, 88} /\ IsHex(At(t, i1 + 2)) /\ i1 + 2 <= Len(t)
       base == IF hexp THEN 16 ELSE IF base0 = 0 THEN (IF At(t, i1) = 48 THEN 8 ELSE 10) ELSE base0
       i2 == IF hexp THEN i1 + 2 ELSE i1
       r == Scan(t, i2, base, ZeroLE(w + 1), FALSE, FALSE)
       mag == SubSeq(r.acc, 1, w)
       magBE == Rev(mag)
       overS == r.over \/ (IF neg THEN GtBE(magBE, Rev(MinS(w)), 1) ELSE GtBE(magBE, Rev(MaxS(w)), 1))
   IN IF ~r.any THEN [val |-> ZeroLE(w), end |-> 0]
      ELSE IF signed THEN
           [val |-> IF overS THEN (IF neg THEN MinS(w) ELSE MaxS(w))
                    ELSE IF neg THEN Rev(Negate(magBE)) ELSE mag,
            end |-> r.end]
      ELSE [val |-> IF r.over THEN MaxU(w) ELSE IF neg THEN Rev(Negate(magBE)) ELSE mag, end |-> r.end]
\* atol = strtol(s, NULL, 10); atoi = (int) of it (only compared when the value is representable)
AtoOverflows(t) == LET i0 == SkipSpace(t, 1)  i1 == IF At(t, i0) \in {45, 43} THEN i0 + 1 ELSE i0
                       r == Scan(t, i1, 10, ZeroLE(9), FALSE, FALSE)
                   IN r.over \/ GtBE(Rev(SubSeq(r.acc, 1, 8)), Rev(MaxS(8)), 1)
=============================================================================
