------------------------------ MODULE SysSync ------------------------------
(***************************************************************************)
(* C20 - system lock (sync/syslock_mutex.cpp), wait queues (osinter/wait*, *)
(* syncxx/event.h) and safe_queue (event/safe_queue.h), at the granularity *)
(* of synchronisation steps.  One action per hook point in the code        *)
(* (IGRIS_VERIF_POINT kinds in quotes):                                    *)
(*                                                                         *)
(*  system lock   "sl_acq" "sl_rel" "sl_save" "sl_restore"                 *)
(*  waiting       "w_create" "sl_acq" "w_enq" "sl_rel" "ev_wlock"          *)
(*                "ev_test" (flag clear: atomically releases the event     *)
(*                mutex and parks; a later "ev_test" is wake-up + re-lock +*)
(*                re-test) "ev_wdone" "w_resumed" "w_destroy"              *)
(*  waking        "sl_acq" ("u_empty" | "u_unlink" "ev_slock" "ev_set"     *)
(*                "ev_notify" "ev_sunlock")* "sl_rel"                      *)
(*                NotifyUnderLock = FALSE models the former order          *)
(*                ... "ev_set" "ev_sunlock" "ev_notify"                    *)
(*  safe_queue    "sq_push" "sq_pop" (inside the semaphore section)        *)
(*                                                                         *)
(* A thread runs a program: a sequence of operations                       *)
(*   <<"lock">> <<"unlock">> <<"save">> <<"restore">> <<"wait", prio>>     *)
(*   <<"unwait_one", fut>> <<"unwait_all", fut>> <<"push", v>> <<"pop">>   *)
(***************************************************************************)
EXTENDS Integers, Sequences, FiniteSets, TLC

CONSTANTS Threads, Programs, NotifyUnderLock, SpuriousWakeups,
          Delegates,         \* ids of delegate waiters (waiter_delegate_init): queue entries woken by a function call, disjoint from Threads
          CursorBeforeWake   \* FALSE: unwait_all takes the first entry afresh on every turn (the code); TRUE: it reads the successor
                             \* before waking (a design the model must reject: SysSyncDelegStale.cfg)
NONE == 0        \* thread ids are 1..n

VARIABLES
  prog, ip, pc,           \* per thread: program, index of the current op, step inside it
  owner, rec, depth,      \* system lock: owning thread, recursion of the mutex, per-thread nesting
  saved,                  \* per thread: depth remembered by system_lock_save
  wq,                     \* wait queue: sequence of waiting threads
  alive, flag, mown, parked, notified, future,   \* per waiter (= its thread): the event on its stack
  woken, resumed,         \* ghost: who unlinked the waiter; the future it returned with
  cur,                    \* per waking thread: the waiter it is currently signalling
  sem, q, pushed, popped, \* safe_queue: semaphore holder, contents, ghost histories
  touchedDead,            \* ghost: some step used an event after its owner destroyed it
  chain,                  \* per delegate: its callback wakes the next waiter of the queue (unwait_one from inside the callback)
  stk,                    \* per thread: delegates whose callbacks are running on it (nested unwait_one calls)
  nxt,                    \* per thread: cursor of unwait_all when CursorBeforeWake (-1 = take the head)
  twice                   \* ghost: an entry was woken although it was not queued (woken twice / after it left)
vars == <<prog, ip, pc, owner, rec, depth, saved, wq, alive, flag, mown, parked, notified, future,
          woken, resumed, cur, sem, q, pushed, popped, touchedDead, chain, stk, nxt, twice>>
DV == <<chain, stk, nxt, twice>>

Op(t) == prog[t][ip[t]]
Done(t) == ip[t] > Len(prog[t])
Fn(v) == [t \in Threads |-> v]
FnW(v) == [t \in Threads \cup Delegates |-> v]     \* per queue entry (thread waiter or delegate)

Init ==
  /\ prog \in Programs /\ ip = Fn(1) /\ pc = Fn("start")
  /\ owner = NONE /\ rec = 0 /\ depth = Fn(0) /\ saved = Fn(0)
  /\ wq = <<>> /\ alive = FnW(FALSE) /\ flag = Fn(FALSE) /\ mown = Fn(NONE) /\ parked = Fn(FALSE)
  /\ notified = Fn(FALSE) /\ future = FnW(0) /\ woken = FnW(NONE) /\ resumed = FnW(-1) /\ cur = Fn(NONE)
  /\ sem = NONE /\ q = <<>> /\ pushed = <<>> /\ popped = <<>> /\ touchedDead = FALSE
  /\ chain = [d \in Delegates |-> FALSE] /\ stk = Fn(<<>>) /\ nxt = Fn(-1) /\ twice = FALSE

\* ----- the shared-state effect of every hook point (used by the trace spec too) -----------
SlAcq(t) == /\ owner \in {NONE, t}
            /\ owner' = t /\ rec' = rec + 1 /\ depth' = [depth EXCEPT ![t] = @ + 1]
SlRel(t) == /\ owner = t /\ rec > 0
            /\ rec' = rec - 1 /\ depth' = [depth EXCEPT ![t] = @ - 1]
            /\ owner' = IF rec = 1 THEN NONE ELSE t
SlSave(t) == /\ owner = t
             /\ saved' = [saved EXCEPT ![t] = depth[t]]
             /\ owner' = NONE /\ rec' = 0 /\ depth' = [depth EXCEPT ![t] = 0]
SlRestore(t) == /\ owner = NONE
                /\ owner' = t /\ rec' = saved[t] /\ depth' = [depth EXCEPT ![t] = saved[t]]
WCreate(t) == /\ alive' = [alive EXCEPT ![t] = TRUE] /\ flag' = [flag EXCEPT ![t] = FALSE]
              /\ woken' = [woken EXCEPT ![t] = NONE] /\ notified' = [notified EXCEPT ![t] = FALSE]
              /\ resumed' = [resumed EXCEPT ![t] = -1]
WEnq(t, prio) == /\ owner = t /\ wq' = IF prio # 0 THEN <<t>> \o wq ELSE Append(wq, t)        \* any non-zero priority goes to the front
EvWLock(t) == mown[t] = NONE /\ mown' = [mown EXCEPT ![t] = t]
\* predicate evaluation under the event mutex; a parked thread first wakes and re-locks
EvTest(t) ==
  /\ IF parked[t] THEN mown[t] = NONE /\ (SpuriousWakeups \/ notified[t]) ELSE mown[t] = t
  /\ IF flag[t]
     THEN mown' = [mown EXCEPT ![t] = t] /\ parked' = [parked EXCEPT ![t] = FALSE]
     ELSE mown' = [mown EXCEPT ![t] = NONE] /\ parked' = [parked EXCEPT ![t] = TRUE]
  /\ notified' = [notified EXCEPT ![t] = FALSE]
EvWDone(t) == mown[t] = t /\ flag[t] /\ mown' = [mown EXCEPT ![t] = NONE]
WResumed(t) == resumed' = [resumed EXCEPT ![t] = future[t]]
WDestroy(t) == alive' = [alive EXCEPT ![t] = FALSE]
UUnlink(u, w, f) == /\ owner = u /\ wq # <<>> /\ w = Head(wq)
                    /\ wq' = Tail(wq) /\ future' = [future EXCEPT ![w] = f]
                    /\ woken' = [woken EXCEPT ![w] = u]
\* waking an entry that is not (or no longer) queued is the error "woken twice"; the queue is then left as it is
InQ(w) == \E i \in 1..Len(wq) : wq[i] = w
UUnlinkAny(u, w, f) == /\ owner = u
                       /\ wq' = SelectSeq(wq, LAMBDA x : x # w) /\ future' = [future EXCEPT ![w] = f]
                       /\ woken' = [woken EXCEPT ![w] = u] /\ twice' = (twice \/ ~InQ(w))
DEnq(t, d, c) == /\ owner = t /\ wq' = Append(wq, d) /\ alive' = [alive EXCEPT ![d] = TRUE] /\ chain' = [chain EXCEPT ![d] = c]
                 /\ woken' = [woken EXCEPT ![d] = NONE] /\ resumed' = [resumed EXCEPT ![d] = -1]
DCall(d) == resumed' = [resumed EXCEPT ![d] = future[d]]
Touch(w) == touchedDead' = (touchedDead \/ ~alive[w])
EvSLock(u, w) == mown[w] = NONE /\ mown' = [mown EXCEPT ![w] = u] /\ Touch(w)
EvSet(u, w) == mown[w] = u /\ flag' = [flag EXCEPT ![w] = TRUE] /\ Touch(w)
EvNotify(u, w) == notified' = [notified EXCEPT ![w] = TRUE] /\ Touch(w)
EvSUnlock(u, w) == mown[w] = u /\ mown' = [mown EXCEPT ![w] = NONE] /\ Touch(w)
SqIn(t) == sem = NONE /\ sem' = t
SqPush(t, v) == sem = t /\ q' = Append(q, v) /\ pushed' = Append(pushed, <<t, v>>)
SqPop(t) == sem = t /\ q # <<>> /\ q' = Tail(q) /\ popped' = Append(popped, Head(q))
SqOut(t) == sem = t /\ sem' = NONE

\* ----- programs: which hook point a thread reaches next ------------------------------------
Goto(t, l) == pc' = [pc EXCEPT ![t] = l]
NextOp(t) == ip' = [ip EXCEPT ![t] = @ + 1] /\ pc' = [pc EXCEPT ![t] = "start"]
U(S) == UNCHANGED S
AllBut(S) == TRUE     \* (documentation only)

StepBase(t) ==
  /\ ~Done(t)
  /\ LET op == Op(t) k == op[1] IN
     CASE k = "lock" ->
            SlAcq(t) /\ NextOp(t) /\ U(<<prog, saved, wq, alive, flag, mown, parked, notified, future, woken, resumed, cur, sem, q, pushed, popped, touchedDead>>)
       [] k = "unlock" ->
            SlRel(t) /\ NextOp(t) /\ U(<<prog, saved, wq, alive, flag, mown, parked, notified, future, woken, resumed, cur, sem, q, pushed, popped, touchedDead>>)
       [] k = "save" ->
            SlSave(t) /\ NextOp(t) /\ U(<<prog, wq, alive, flag, mown, parked, notified, future, woken, resumed, cur, sem, q, pushed, popped, touchedDead>>)
       [] k = "restore" ->
            SlRestore(t) /\ NextOp(t) /\ U(<<prog, saved, wq, alive, flag, mown, parked, notified, future, woken, resumed, cur, sem, q, pushed, popped, touchedDead>>)
       [] k = "wait" ->
            (CASE pc[t] = "start" -> WCreate(t) /\ Goto(t, "acq") /\ U(<<prog, ip, owner, rec, depth, saved, wq, mown, parked, future, cur, sem, q, pushed, popped, touchedDead>>)
              [] pc[t] = "acq" -> SlAcq(t) /\ Goto(t, "enq") /\ U(<<prog, ip, saved, wq, alive, flag, mown, parked, notified, future, woken, resumed, cur, sem, q, pushed, popped, touchedDead>>)
              [] pc[t] = "enq" -> WEnq(t, op[2]) /\ Goto(t, "rel") /\ U(<<prog, ip, owner, rec, depth, saved, alive, flag, mown, parked, notified, future, woken, resumed, cur, sem, q, pushed, popped, touchedDead>>)
              [] pc[t] = "rel" -> SlRel(t) /\ Goto(t, "wlock") /\ U(<<prog, ip, saved, wq, alive, flag, mown, parked, notified, future, woken, resumed, cur, sem, q, pushed, popped, touchedDead>>)
              [] pc[t] = "wlock" -> EvWLock(t) /\ Goto(t, "test") /\ U(<<prog, ip, owner, rec, depth, saved, wq, alive, flag, parked, notified, future, woken, resumed, cur, sem, q, pushed, popped, touchedDead>>)
              [] pc[t] = "test" -> EvTest(t) /\ Goto(t, IF flag[t] THEN "wdone" ELSE "test") /\ U(<<prog, ip, owner, rec, depth, saved, wq, alive, flag, future, woken, resumed, cur, sem, q, pushed, popped, touchedDead>>)
              [] pc[t] = "wdone" -> EvWDone(t) /\ Goto(t, "resumed") /\ U(<<prog, ip, owner, rec, depth, saved, wq, alive, flag, parked, notified, future, woken, resumed, cur, sem, q, pushed, popped, touchedDead>>)
              [] pc[t] = "resumed" -> WResumed(t) /\ Goto(t, "destroy") /\ U(<<prog, ip, owner, rec, depth, saved, wq, alive, flag, mown, parked, notified, future, woken, cur, sem, q, pushed, popped, touchedDead>>)
              [] pc[t] = "destroy" -> WDestroy(t) /\ NextOp(t) /\ U(<<prog, owner, rec, depth, saved, wq, flag, mown, parked, notified, future, woken, resumed, cur, sem, q, pushed, popped, touchedDead>>))
       [] k = "push" ->
            (CASE pc[t] = "start" -> SqIn(t) /\ Goto(t, "op") /\ U(<<prog, ip, owner, rec, depth, saved, wq, alive, flag, mown, parked, notified, future, woken, resumed, cur, q, pushed, popped, touchedDead>>)
              [] pc[t] = "op" -> SqPush(t, op[2]) /\ Goto(t, "out") /\ U(<<prog, ip, owner, rec, depth, saved, wq, alive, flag, mown, parked, notified, future, woken, resumed, cur, sem, popped, touchedDead>>)
              [] pc[t] = "out" -> SqOut(t) /\ NextOp(t) /\ U(<<prog, owner, rec, depth, saved, wq, alive, flag, mown, parked, notified, future, woken, resumed, cur, q, pushed, popped, touchedDead>>))
       [] k = "pop" ->
            (CASE pc[t] = "start" -> SqIn(t) /\ Goto(t, "op") /\ U(<<prog, ip, owner, rec, depth, saved, wq, alive, flag, mown, parked, notified, future, woken, resumed, cur, q, pushed, popped, touchedDead>>)
              [] pc[t] = "op" -> SqPop(t) /\ Goto(t, "out") /\ U(<<prog, ip, owner, rec, depth, saved, wq, alive, flag, mown, parked, notified, future, woken, resumed, cur, sem, pushed, touchedDead>>)
              [] pc[t] = "out" -> SqOut(t) /\ NextOp(t) /\ U(<<prog, owner, rec, depth, saved, wq, alive, flag, mown, parked, notified, future, woken, resumed, cur, q, pushed, popped, touchedDead>>))

\* ----- waking (thread waiters and delegates), enqueuing a delegate -------------------------------------------------
\* mode of the loop a thread is in: the top-level call is unwait_one or unwait_all, calls made from a delegate's callback are unwait_one
CurMode(t) == IF stk[t] = <<>> THEN (IF Op(t)[1] = "unwait_all" THEN "all" ELSE "one") ELSE "one"
FutOf(t) == IF stk[t] = <<>> THEN Op(t)[2] ELSE 700 + stk[t][Len(stk[t])]
\* the entry the loop wakes next (NONE: nothing left)
Target(t) == IF CursorBeforeWake /\ CurMode(t) = "all" /\ nxt[t] # -1 THEN nxt[t]
             ELSE IF wq = <<>> THEN NONE ELSE Head(wq)
SuccOf(w) == IF InQ(w) THEN LET i == CHOOSE i \in 1..Len(wq) : wq[i] = w IN (IF i < Len(wq) THEN wq[i + 1] ELSE NONE)
             ELSE w          \* an unlinked node is self-linked: the cursor stays on it
StepWake(t) ==
  /\ ~Done(t)
  /\ LET op == Op(t) k == op[1] IN
     CASE pc[t] \in {"start", "nacq"} ->
            /\ SlAcq(t) /\ Goto(t, "pick")
            /\ nxt' = IF pc[t] = "start" THEN [nxt EXCEPT ![t] = -1] ELSE nxt
            /\ U(<<prog, ip, saved, wq, alive, flag, mown, parked, notified, future, woken, resumed, cur, sem, q, pushed, popped, touchedDead, chain, stk, twice>>)
       [] pc[t] = "pick" ->
            LET tgt == Target(t) IN
            IF tgt = NONE
            THEN Goto(t, "rel") /\ U(<<prog, ip, owner, rec, depth, saved, wq, alive, flag, mown, parked, notified, future, woken, resumed, cur, sem, q, pushed, popped, touchedDead, chain, stk, nxt, twice>>)
            ELSE /\ UUnlinkAny(t, tgt, FutOf(t)) /\ cur' = [cur EXCEPT ![t] = tgt]
                 /\ nxt' = IF CursorBeforeWake /\ CurMode(t) = "all" THEN [nxt EXCEPT ![t] = SuccOf(tgt)] ELSE nxt
                 /\ Goto(t, IF tgt \in Delegates THEN "dcall" ELSE "slock")
                 /\ U(<<prog, ip, owner, rec, depth, saved, alive, flag, mown, parked, notified, resumed, sem, q, pushed, popped, touchedDead, chain, stk>>)
       [] pc[t] = "dcall" ->          \* the delegate's function runs on the waking thread, under the system lock
            LET d == cur[t] IN
            /\ DCall(d)
            /\ IF chain[d] THEN stk' = [stk EXCEPT ![t] = Append(@, d)] /\ Goto(t, "nacq") ELSE stk' = stk /\ Goto(t, "after")
            /\ U(<<prog, ip, owner, rec, depth, saved, wq, alive, flag, mown, parked, notified, future, woken, cur, sem, q, pushed, popped, touchedDead, chain, nxt, twice>>)
       [] pc[t] = "slock" -> EvSLock(t, cur[t]) /\ Goto(t, "set") /\ U(<<prog, ip, owner, rec, depth, saved, wq, alive, flag, parked, notified, future, woken, resumed, cur, sem, q, pushed, popped>>) /\ UNCHANGED DV
       [] pc[t] = "set" -> EvSet(t, cur[t]) /\ Goto(t, IF NotifyUnderLock THEN "notify" ELSE "sunlock") /\ U(<<prog, ip, owner, rec, depth, saved, wq, alive, mown, parked, notified, future, woken, resumed, cur, sem, q, pushed, popped>>) /\ UNCHANGED DV
       [] pc[t] = "notify" -> EvNotify(t, cur[t]) /\ Goto(t, IF NotifyUnderLock THEN "sunlock" ELSE "after") /\ U(<<prog, ip, owner, rec, depth, saved, wq, alive, flag, mown, parked, future, woken, resumed, cur, sem, q, pushed, popped>>) /\ UNCHANGED DV
       [] pc[t] = "sunlock" -> EvSUnlock(t, cur[t]) /\ Goto(t, IF NotifyUnderLock THEN "after" ELSE "notify") /\ U(<<prog, ip, owner, rec, depth, saved, wq, alive, flag, parked, notified, future, woken, resumed, cur, sem, q, pushed, popped>>) /\ UNCHANGED DV
       [] pc[t] = "after" -> Goto(t, IF CurMode(t) = "all" THEN "pick" ELSE "rel") /\ U(<<prog, ip, owner, rec, depth, saved, wq, alive, flag, mown, parked, notified, future, woken, resumed, cur, sem, q, pushed, popped, touchedDead>>) /\ UNCHANGED DV
       [] pc[t] = "rel" ->
            /\ SlRel(t)
            /\ IF stk[t] # <<>>          \* return from a callback's unwait_one into the loop that called the delegate
               THEN stk' = [stk EXCEPT ![t] = SubSeq(@, 1, Len(@) - 1)] /\ Goto(t, "after") /\ ip' = ip
               ELSE stk' = stk /\ NextOp(t)
            /\ U(<<prog, saved, wq, alive, flag, mown, parked, notified, future, woken, resumed, cur, sem, q, pushed, popped, touchedDead, chain, nxt, twice>>)
StepDenq(t) ==
  /\ ~Done(t)
  /\ LET op == Op(t) IN
     CASE pc[t] = "start" -> SlAcq(t) /\ Goto(t, "enq") /\ U(<<prog, ip, saved, wq, alive, flag, mown, parked, notified, future, woken, resumed, cur, sem, q, pushed, popped, touchedDead>>) /\ UNCHANGED DV
       [] pc[t] = "enq" -> DEnq(t, op[2], op[3]) /\ Goto(t, "rel") /\ U(<<prog, ip, owner, rec, depth, saved, flag, mown, parked, notified, future, cur, sem, q, pushed, popped, touchedDead, stk, nxt, twice>>)
       [] pc[t] = "rel" -> SlRel(t) /\ NextOp(t) /\ U(<<prog, saved, wq, alive, flag, mown, parked, notified, future, woken, resumed, cur, sem, q, pushed, popped, touchedDead>>) /\ UNCHANGED DV
Step(t) ==
  /\ ~Done(t)
  /\ IF Op(t)[1] \in {"unwait_one", "unwait_all"} THEN StepWake(t)
     ELSE IF Op(t)[1] = "denq" THEN StepDenq(t)
     ELSE StepBase(t) /\ UNCHANGED DV

Next == \E t \in Threads : Step(t)
Finished == \A t \in Threads : Done(t)
Spec == Init /\ [][Next]_vars
FairSpec == Spec /\ \A t \in Threads : WF_vars(Step(t))

\* ----- the listed property --------------------------------------------------------------
\* the waker never touches a waiter's synchronisation state after the waiter destroyed it
NoTouchAfterDestroy == ~touchedDead
\* one owner at a time, re-entrant, released only when every nested acquisition is undone
LockInv == /\ (owner = NONE <=> rec = 0)
           /\ \A t \in Threads : depth[t] > 0 => owner = t
           /\ owner # NONE => depth[owner] = rec
\* nobody is woken spuriously: a waiter only returns after it was unlinked by a waker,
\* with the future that waker supplied
NoSpuriousReturn == \A t \in Threads \cup Delegates : resumed[t] # -1 => woken[t] # NONE
\* a parked or queued waiter that has been unlinked is eventually resumed (no lost wake-up);
\* in the closed programs of the configurations this is: no deadlock, everybody finishes
AllFinish == <>Finished
\* safe_queue: what is popped is a prefix-respecting subsequence: each producer's items in order,
\* nothing duplicated or invented
QueueInv == /\ Len(popped) + Len(q) = Len(pushed)
            /\ popped \o q = [i \in 1..Len(pushed) |-> pushed[i][2]]
\* no queue entry (thread waiter or delegate) is woken when it is not queued: woken exactly once
NoDoubleWake == ~twice
\* a waiter is in the queue at most once and only while alive
QueueWellFormed == /\ \A i, j \in 1..Len(wq) : i # j => wq[i] # wq[j]
                   /\ \A i \in 1..Len(wq) : alive[wq[i]]
=============================================================================
