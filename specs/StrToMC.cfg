CONSTANTS Chars = {32, 45, 43, 48, 49, 55, 57, 120, 97, 70, 122, 103}
          MaxLen = 4
          Bases = {0, 2, 8, 10, 16, 36}
SPECIFICATION Spec
INVARIANTS EndInRange Agree Idem
CHECK_DEADLOCK FALSE
