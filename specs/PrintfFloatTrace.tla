-------------------------- MODULE PrintfFloatTrace --------------------------
(* C13: recorded __printf calls with one floating directive, judged by PrintfFloat.tla *)
EXTENDS PrintfFloat, Judge
VARIABLES l, sync
TInit == JInit /\ l = 1 /\ sync = TRUE
TNext ==
   /\ l <= NTrace /\ l' = l + 1 /\ Consumed(l) /\ sync' = TRUE
   /\ LET ev == TraceLog[l] IN
      IF ev.e = "Reset" THEN TRUE
      ELSE IF ev.e = "Fault" THEN Flag(l, <<"fault">>, [kind |-> ev.kind, where |-> ev.where])
      ELSE IF ev.e = "Pf" THEN TRUE       \* (the other conversion family, logged by re-entrant calls: judged by the other trace specification)
      ELSE LET errs == PfErrs(ev.fmt, ev.ws, ev.ps, ev.dbl, ev.out, ev.ret) IN
           IF errs # {} THEN Flag(l, SetToSeq(errs), [x |-> DblOf(ev.dbl), dir |-> FDir(ev.fmt, ev.ws, ev.ps), body |-> Body(ev.out, FDir(ev.fmt, ev.ws, ev.ps), DblOf(ev.dbl).neg)]) ELSE TRUE
TSpec == TInit /\ [][TNext]_<<l, sync>>
Accepted == WriteVerdict
=============================================================================
