------------------------------ MODULE FixedStr ------------------------------
(***************************************************************************)
(* C14 - static_string<N> (igris/container/static_string.h and its twin in *)
(* std_portable.h): a character sequence of at most N bytes.  Whatever is  *)
(* given to a constructor or pushed, the object holds the first N bytes of *)
(* what std::string would hold.                                            *)
(***************************************************************************)
EXTENDS Integers, Sequences, FiniteSets, FiniteSetsExt, TLC
CONSTANTS Bytes, Caps, MaxSrc
VARIABLES cap, ex, s
vars == <<cap, ex, s>>
Cut(x) == IF Len(x) <= cap THEN x ELSE SubSeq(x, 1, cap)
Init == cap \in Caps /\ ex = FALSE /\ s = <<>>
CtorDefault == ~ex /\ ex' = TRUE /\ s' = <<>> /\ UNCHANGED cap
CtorCStr(src) == ~ex /\ ex' = TRUE /\ s' = Cut(src) /\ UNCHANGED cap               \* src: the bytes before the terminator
CtorBuf(src, n) == ~ex /\ n <= Len(src) /\ ex' = TRUE /\ s' = Cut(SubSeq(src, 1, n)) /\ UNCHANGED cap
PushBack(b) == ex /\ s' = Cut(Append(s, b)) /\ UNCHANGED <<cap, ex>>
PlusEq(b) == PushBack(b)
Clear == ex /\ s' = <<>> /\ UNCHANGED <<cap, ex>>
Destroy == ex /\ ex' = FALSE /\ s' = <<>> /\ UNCHANGED cap
Srcs == UNION {[1..k -> Bytes] : k \in 0..MaxSrc}
Next == \/ CtorDefault
        \/ \E src \in Srcs : CtorCStr(src)
        \/ \E src \in Srcs, n \in 0..MaxSrc : CtorBuf(src, n)
        \/ \E b \in Bytes : PushBack(b)
        \/ \E b \in Bytes : PlusEq(b)
        \/ Clear
        \/ Destroy
Spec == Init /\ [][Next]_vars
\* what the observers return
\* (not a head/tail recursion: strings of 65536 characters are judged)
UpToNul(x) == LET z == {i \in 1..Len(x) : x[i] = 0} IN IF z = {} THEN x ELSE SubSeq(x, 1, Min(z) - 1)
CStr == UpToNul(s)          \* c_str() writes the terminator at index size (inside the N+1 bytes)
Room == cap - Len(s)
CapInv == Len(s) <= cap /\ Room >= 0
=============================================================================
