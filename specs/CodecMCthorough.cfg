CONSTANTS Alphabet = {0, 127, 128, 251, 255}
          MaxLen = 6
          AllShort = TRUE
SPECIFICATION Spec
INVARIANTS IdxForms RoundTrip Lengths Alphabets Rfc
CHECK_DEADLOCK FALSE
