CONSTANTS Ids = {1, 2, 3, 4}
          ReqBytes = {0, 64, 128}
          MaxBrk = 32
SPECIFICATION Spec
CONSTRAINT BrkBound
INVARIANTS Tiling FreeListShape AllFreedRestores Aligned
