---------------------------- MODULE SortSearchMC ----------------------------
(***************************************************************************)
(* Monitor self-test: over all small arrays the qsort monitor accepts      *)
(* exactly the sorted permutations, and the bsearch monitor accepts        *)
(* exactly the right answers.                                              *)
(***************************************************************************)
EXTENDS SortSearch, TLC
CONSTANTS Keys, MaxLen
VARIABLES a, b, k, r
Arrays == UNION {[1..n -> Keys] : n \in 0..MaxLen}
Init == a \in Arrays /\ b \in {x \in Arrays : Len(x) = Len(a)} /\ k \in Keys /\ r \in -1..MaxLen
Next == UNCHANGED <<a, b, k, r>>
Spec == Init /\ [][Next]_<<a, b, k, r>>
\* independent definition: b is a sorted permutation of a (size 1 elements: keys only)
IsSortedPerm == /\ \A x \in Keys : Cardinality({i \in 1..Len(a) : a[i] = x}) = Cardinality({i \in 1..Len(b) : b[i] = x})
                /\ \A i \in 1..(Len(b) - 1) : b[i] <= b[i + 1]
QsortEv == [size |-> 1, div |-> 1, keys |-> a, akeys |-> b, aids |-> [i \in 1..Len(b) |-> -1], intact |-> [i \in 1..Len(b) |-> 1]]
QsortMonitorExact == (QsortErrs(QsortEv) = {}) <=> IsSortedPerm
\* bsearch on the sorted array b (only meaningful when b is sorted)
Sorted(x) == \A i \in 1..(Len(x) - 1) : x[i] <= x[i + 1]
RightAnswer == IF r = -1 THEN \A i \in 1..Len(b) : b[i] # k ELSE r < Len(b) /\ b[r + 1] = k
BsearchEv == [size |-> 1, div |-> 1, keys |-> b, key |-> k, ret |-> r, cmps |-> <<>>]
BsearchMonitorExact == Sorted(b) => ((BsearchErrs(BsearchEv) = {}) <=> RightAnswer)
=============================================================================
