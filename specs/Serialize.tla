----------------------------- MODULE Serialize -----------------------------
(***************************************************************************)
(* C09 - binary serialization (igris/serialize).  Types are descriptors,   *)
(* values are trees whose scalar leaves are byte tuples (the native-endian *)
(* image, so no arithmetic is needed):                                     *)
(*   [k |-> "scalar", w |-> n]          value: n bytes                      *)
(*   [k |-> "str"]                      value: bytes                        *)
(*   [k |-> "vec", t |-> T]             value: sequence of T values         *)
(*   [k |-> "pair", a |-> A, b |-> B]   value: <<a, b>>                     *)
(*   [k |-> "tuple", ts |-> <<T...>>]   value: sequence, one per component  *)
(*   [k |-> "struct", ts |-> <<T...>>]  value: fields in reflect order      *)
(*   [k |-> "map", a |-> K, b |-> V]    value: sequence of <<k, v>> in key  *)
(*                                      order                              *)
(* Wire format: a scalar is its bytes; strings and containers are a 16-bit *)
(* little-endian count followed by the elements; pairs, tuples and structs *)
(* are their members in order.                                             *)
(***************************************************************************)
EXTENDS Integers, Sequences, TLC

Count16(n) == <<n % 256, n \div 256>>
RECURSIVE Enc(_, _)
RECURSIVE EncSeq(_, _, _)
EncSeq(ts, vs, i) == IF i > Len(vs) THEN <<>> ELSE Enc(ts[i], vs[i]) \o EncSeq(ts, vs, i + 1)
RECURSIVE EncAll(_, _, _)
EncAll(t, vs, i) == IF i > Len(vs) THEN <<>> ELSE Enc(t, vs[i]) \o EncAll(t, vs, i + 1)
\* the elements of a vector of scalars of width w, one after the other (position-by-position form of EncAll for scalar elements:
\* TLC evaluates it in linear time, so vectors whose elements take 64 KiB and more can be judged; SerializeMC checks it against EncAll)
FlatScalars(vs, w) == [j \in 1..(Len(vs) * w) |-> vs[((j - 1) \div w) + 1][((j - 1) % w) + 1]]
Enc(t, v) ==
   CASE t.k = "scalar" -> v
     [] t.k = "str" -> Count16(Len(v)) \o v
     [] t.k = "vec" -> Count16(Len(v)) \o (IF t.t.k = "scalar" THEN FlatScalars(v, t.t.w) ELSE EncAll(t.t, v, 1))
     [] t.k = "pair" -> Enc(t.a, v[1]) \o Enc(t.b, v[2])
     [] t.k \in {"tuple", "struct"} -> EncSeq(t.ts, v, 1)
     [] t.k = "map" -> Count16(Len(v)) \o EncAll([k |-> "pair", a |-> t.a, b |-> t.b], v, 1)

\* decoding: [ok, val, rest]; ok = FALSE when the bytes run out
Short == [ok |-> FALSE, val |-> <<>>, rest |-> <<>>]
RECURSIVE Dec(_, _)
RECURSIVE DecN(_, _, _, _)
DecN(t, bytes, n, acc) ==
   IF n = 0 THEN [ok |-> TRUE, val |-> acc, rest |-> bytes]
   ELSE LET r == Dec(t, bytes) IN IF ~r.ok THEN Short ELSE DecN(t, r.rest, n - 1, Append(acc, r.val))
RECURSIVE DecSeq(_, _, _, _)
DecSeq(ts, bytes, i, acc) ==
   IF i > Len(ts) THEN [ok |-> TRUE, val |-> acc, rest |-> bytes]
   ELSE LET r == Dec(ts[i], bytes) IN IF ~r.ok THEN Short ELSE DecSeq(ts, r.rest, i + 1, Append(acc, r.val))
Dec(t, bytes) ==
   CASE t.k = "scalar" -> IF Len(bytes) < t.w THEN Short
                          ELSE [ok |-> TRUE, val |-> SubSeq(bytes, 1, t.w), rest |-> SubSeq(bytes, t.w + 1, Len(bytes))]
     [] t.k = "str" -> IF Len(bytes) < 2 THEN Short
                       ELSE LET n == bytes[1] + 256 * bytes[2] IN
                            IF Len(bytes) < 2 + n THEN Short
                            ELSE [ok |-> TRUE, val |-> SubSeq(bytes, 3, 2 + n), rest |-> SubSeq(bytes, 3 + n, Len(bytes))]
     [] t.k = "vec" -> IF Len(bytes) < 2 THEN Short ELSE DecN(t.t, SubSeq(bytes, 3, Len(bytes)), bytes[1] + 256 * bytes[2], <<>>)
     [] t.k = "pair" -> DecSeq(<<t.a, t.b>>, bytes, 1, <<>>)
     [] t.k \in {"tuple", "struct"} -> DecSeq(t.ts, bytes, 1, <<>>)
     [] t.k = "map" -> IF Len(bytes) < 2 THEN Short
                       ELSE DecN([k |-> "pair", a |-> t.a, b |-> t.b], SubSeq(bytes, 3, Len(bytes)), bytes[1] + 256 * bytes[2], <<>>)
=============================================================================
