CONSTANTS NTs = {2}
          MaxNow = 6
          Starts = {0, 1}
          Intervals = {1, 2}
          Steps = {0, 1, 3}
          Effects <- EffectsMC2
SPECIFICATION Spec
CONSTRAINT TimeBound
INVARIANTS ExecRefines ListSorted
PROPERTIES NothingDueAfterExec
