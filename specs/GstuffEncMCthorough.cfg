CONSTANTS Names = {"default", "v0", "legacy"}
          MaxLen = 4
          Data = {0, 97}
SPECIFICATION Spec
INVARIANTS FrameShape RoundTrip
CHECK_DEADLOCK FALSE
