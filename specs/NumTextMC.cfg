CONSTANTS Bases = {2, 3, 7, 8, 10, 16, 35, 36}
          Widths = {1, 2}
          Bytes = {0, 1, 9, 10, 127, 128, 255}
SPECIFICATION Spec
INVARIANTS RoundTripU RoundTripI Canonical StopsAtTerminator Fixed
CHECK_DEADLOCK FALSE
