CONSTANTS Names = {"default", "v0", "legacy"}
          Caps = {2, 3, 4}
          Data = {0, 97}
SPECIFICATION Spec
INVARIANTS Sound Safety MonRunSame
