CONSTANTS NHs = {2}
          NNs = {3}
SPECIFICATION Spec
INVARIANTS WellFormed RefinementInv Unreachable
