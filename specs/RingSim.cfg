CONSTANTS Sizes = {9, 12, 13, 16, 17}
          Bytes = {0, 65, 255}
          MaxBulk = 6
SPECIFICATION Spec
INVARIANTS TypeOK RefinementInv CountsInv AccessorInv
