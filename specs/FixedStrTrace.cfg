CONSTANTS Bytes = {65}
          Caps = {1}
          MaxSrc = 1
SPECIFICATION TSpec
POSTCONDITION Accepted
CHECK_DEADLOCK FALSE
