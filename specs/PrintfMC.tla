------------------------------ MODULE PrintfMC ------------------------------
(***************************************************************************)
(* Laws of the printf definition over an enumerated directive space:       *)
(* flag subsets x widths x precisions x lengths x integer conversions x    *)
(* boundary arguments.                                                     *)
(***************************************************************************)
EXTENDS Printf, FiniteSets
CONSTANTS Widths, Precs, Ws, Convs, ArgBytes
VARIABLES fl, width, prec, w, conv, arg
vars == <<fl, width, prec, w, conv, arg>>
Init == /\ fl \in SUBSET {45, 43, 32, 35, 48} /\ width \in Widths /\ prec \in Precs /\ w \in Ws /\ conv \in Convs
        /\ arg \in {[i \in 1..8 |-> b] : b \in ArgBytes} \cup {[i \in 1..8 |-> IF i = 1 THEN 42 ELSE 0], [i \in 1..8 |-> IF i = 1 THEN 214 ELSE 255],
                    [i \in 1..8 |-> IF i = 8 THEN 128 ELSE 0], [i \in 1..8 |-> IF i = 8 THEN 127 ELSE 255]}
Next == UNCHANGED vars
Spec == Init /\ [][Next]_vars
P == IF prec = 99 THEN -1 ELSE prec      \* 99 stands for 'no precision' (cfg files have no negative numbers)
D == [fl |-> fl, width |-> width, prec |-> P, w |-> w, conv |-> conv]
A == [v |-> arg, s |-> <<>>]
T == RenderInt(D, A)
RECURSIVE LeadSp(_, _)
LeadSp(s, i) == IF i <= Len(s) /\ s[i] = 32 THEN LeadSp(s, i + 1) ELSE i - 1
RECURSIVE TrailSp(_, _)
TrailSp(s, i) == IF i >= 1 /\ s[i] = 32 THEN TrailSp(s, i - 1) ELSE Len(s) - i
\* the field is at least width wide and padding appears only when the text is shorter than the width
WidthLaw == /\ Len(T) >= width
            /\ ((45 \in fl /\ LeadSp(T, 1) < Len(T)) => (LeadSp(T, 1) <= 1))                \* left-justified: at most the ' ' flag's blank in front
            /\ ((45 \notin fl /\ LeadSp(T, 1) < Len(T)) => TrailSp(T, Len(T)) = 0)
\* stripping padding, sign and prefix and parsing the digits gives back the converted magnitude
Core == LET a == SubSeq(T, LeadSp(T, 1) + 1, Len(T) - TrailSp(T, Len(T)))
            b == IF a # <<>> /\ a[1] \in {45, 43} THEN Tail(a) ELSE a
            c == IF Len(b) >= 2 /\ b[1] = 48 /\ b[2] \in {120, 88} THEN SubSeq(b, 3, Len(b)) ELSE b
        IN c
ValueLaw == LET le == SubSeq(arg, 1, w)
                neg == conv \in {100, 105} /\ le[w] >= 128
                mag == IF neg THEN Rev(Negate(Rev(le))) ELSE le
                base == IF conv = 111 THEN 8 ELSE IF conv \in {120, 88} THEN 16 ELSE 10
                p == ParseU(Core, base, w)
            IN /\ p.end = Len(Core)
               /\ p.val = mag
               /\ (neg => \E i \in 1..Len(T) : T[i] = 45)
\* precision is the minimum number of digits
PrecLaw == P >= 0 => Len(Core) >= P
=============================================================================
