---------------------------- MODULE SHListTrace ----------------------------
EXTENDS SHList, Judge
VARIABLES l, sync
tvars == <<l, sync>>
B2I(b) == IF b THEN 1 ELSE 0
Exp(ev, popped) ==
   [fwd |-> lst', size |-> Len(lst'), empty |-> B2I(lst' = <<>>),
    inl |-> [i \in 1..nn' |-> B2I(i \in Elems(lst'))],
    pp |-> IF kind' = "hlist" THEN [i \in 1..Len(lst') |-> IF i = 1 THEN 0 ELSE lst'[i-1]] ELSE <<>>]
   @@ (IF ev.e = "PopFirst" THEN [ret |-> popped] ELSE <<>>)
JudgeEv(ev, popped) ==
   LET exp == Exp(ev, popped) mm == Mismatch(ev, exp)
   IN IF mm # {} THEN Flag(l, SetToSeq(mm), exp) /\ sync' = FALSE ELSE sync' = TRUE
Step(ev) ==
   CASE ev.e = "AddFront" -> AddFront(ev.a) /\ JudgeEv(ev, 0)
     [] ev.e = "AddAfter" -> AddAfter(ev.a, ev.b) /\ JudgeEv(ev, 0)
     [] ev.e = "PopFirst" -> PopFirst /\ JudgeEv(ev, IF lst = <<>> THEN -1 ELSE lst[1])
     [] ev.e = "Del" -> Del(ev.a) /\ JudgeEv(ev, 0)
TInit == /\ JInit /\ l = 1 /\ sync = FALSE /\ kind = "slist" /\ nn = 1 /\ lst = <<>> /\ fresh = {1}
         /\ nx = [c \in 0..1 |-> 0] /\ pp = [c \in 1..1 |-> -9]
TNext ==
   /\ l <= NTrace /\ l' = l + 1 /\ Consumed(l)
   /\ LET ev == TraceLog[l] IN
      IF ev.e = "Reset" THEN
           /\ kind' = ev.kind /\ nn' = ev.nn /\ lst' = <<>> /\ fresh' = 1..ev.nn
           /\ nx' = [c \in 0..ev.nn |-> IF c = 0 THEN (IF ev.kind = "hlist" THEN -1 ELSE 0) ELSE -9]
           /\ pp' = [c \in 1..ev.nn |-> -9]
           /\ JudgeEv(ev, 0)
      ELSE IF ~sync THEN UNCHANGED <<vars, sync>>
      ELSE IF ev.e = "Fault" THEN Flag(l, <<"fault">>, [kind |-> ev.kind, where |-> ev.where]) /\ sync' = FALSE /\ UNCHANGED vars
      ELSE Step(ev)
TSpec == TInit /\ [][TNext]_<<vars, tvars>>
Accepted == WriteVerdict
=============================================================================
