---------------------------- MODULE VecLifeTrace ----------------------------
(***************************************************************************)
(* Trace specification for C02 / C14: operation events are replayed through *)
(* the abstract actions of VecLife.tla (what std::vector / a capacity-cut   *)
(* sequence would hold), element and allocator events through the lifetime  *)
(* ledger.                                                                  *)
(***************************************************************************)
EXTENDS VecLife, Judge
VARIABLES l, sync, elem, L
tvars == <<l, sync, elem, L>>
Guard16 == [i \in 1..16 |-> 165]
B2I(b) == IF b THEN 1 ELSE 0
Tracked == elem' = "tracked"

\* expected observation of container k after the step
ObsErrs(ev, k) ==
   (IF ~ex'[k] THEN (IF ev.size # -1 THEN {"size"} ELSE {})
    ELSE (IF ev.size # Len(el'[k]) THEN {"size"} ELSE {})
         \cup (IF ev.contents # el'[k] THEN {"contents"} ELSE {})
         \cup (IF cap' > 0 /\ ev.size > cap' THEN {"capacity_exceeded"} ELSE {})
         \cup (IF ev.gl # Guard16 \/ ev.gr # Guard16 THEN {"guard"} ELSE {})
         \cup (IF Tracked /\ ~HoldsExactly(L, ev.blk, el'[k]) THEN {"lifetime_state"} ELSE {}))

Act(ev) ==
   LET c == ev.c a == ev.a b == ev.b IN
   CASE ev.name = "Create" -> Create(c)
     [] ev.name = "CreateFrom" -> CreateFrom(c, ev.src)
     [] ev.name = "Destroy" -> Destroy(c)
     [] ev.name = "PushBack" -> PushBack(c, a)
     [] ev.name = "EmplaceBack" -> EmplaceBack(c, a)
     \* the argument is an element of the vector itself (v.push_back(v[i]), v.insert(pos, v[i])): std::vector copies it before anything moves
     [] ev.name = "PushBackSelf" -> PushBack(c, el[c][a + 1])
     [] ev.name = "EmplaceBackSelf" -> EmplaceBack(c, el[c][a + 1])
     [] ev.name = "InsertSelf" -> Insert(c, a, el[c][b + 1])
     [] ev.name = "Insert" -> Insert(c, a, b)
     [] ev.name = "Emplace" -> Emplace(c, a, b)
     [] ev.name = "Erase" -> Erase(c, a, b)
     [] ev.name = "EraseAt" -> EraseAt(c, a)
     [] ev.name = "PopBack" -> PopBack(c)
     [] ev.name = "Resize" -> Resize(c, a)
     [] ev.name = "Reserve" -> Reserve(c, a)
     [] ev.name = "Clear" -> Clear(c)
     [] ev.name = "CopyCtor" -> CopyCtor(c, a)
     [] ev.name = "MoveCtor" -> IF keep THEN MoveCtorAdopt(c, a, ev.ocontents) ELSE MoveCtor(c, a)
     [] ev.name = "CopyAssign" -> CopyAssign(c, a)
     [] ev.name = "MoveAssign" -> MoveAssign(c, a)
     [] OTHER -> Query(c)
RetErrs(ev) ==
   LET c == ev.c a == ev.a IN
   CASE ev.name \in {"Insert", "Emplace", "InsertSelf"} -> IF ev.ret # a THEN {"returned_position"} ELSE {}
     [] ev.name = "Eq" -> IF ev.ret # B2I(SeqEq(el[c], el[a])) THEN {"equality"} ELSE {}
     [] ev.name = "Less" -> IF ev.ret # B2I(LexLess(el[c], el[a], 1)) THEN {"ordering"} ELSE {}
     [] ev.name = "At" -> IF a >= Len(el[c]) THEN (IF ev.threw # 1 THEN {"at_must_throw"} ELSE {})
                          ELSE (IF ev.threw # 0 \/ ev.ret # el[c][a + 1] THEN {"at_value"} ELSE {})
     [] ev.name = "Index" -> IF ev.ret # el[c][a + 1] THEN {"index_value"} ELSE {}
     [] ev.name = "Front" -> IF ev.ret # el[c][1] THEN {"front_value"} ELSE {}
     [] ev.name = "Back" -> IF ev.ret # el[c][Len(el[c])] THEN {"back_value"} ELSE {}
     \* a constructor armed to throw at the first construction must be seen to throw when the operation constructs an element at all
     [] ev.name \in {"PushBack", "EmplaceBack"} ->
            IF ev.inject = "ctor" /\ ev.injn = 1 /\ (cap = 0 \/ Len(el[c]) < cap) /\ ev.threw # 1 THEN {"exception_swallowed"} ELSE {}
     [] OTHER -> {}

TInit == /\ JInit /\ l = 1 /\ sync = FALSE /\ elem = "int" /\ L = LInit
         /\ cap = 0 /\ keep = FALSE /\ ex = [c \in C |-> FALSE] /\ el = [c \in C |-> <<>>]
Bad(errs, info) == Flag(l, SetToSeq(errs), info) /\ sync' = FALSE
TNext ==
   /\ l <= NTrace /\ l' = l + 1 /\ Consumed(l)
   /\ LET ev == TraceLog[l] IN
      IF ev.e = "Reset" THEN
           /\ cap' = ev.cap /\ keep' = (ev.keep = 1) /\ ex' = [c \in C |-> FALSE] /\ el' = [c \in C |-> <<>>] /\ elem' = ev.elem /\ L' = LInit /\ sync' = TRUE
      ELSE IF ~sync THEN UNCHANGED <<avars, sync, elem, L>>
      ELSE IF ev.e = "Fault" THEN Bad({"fault"}, [kind |-> ev.kind, where |-> ev.where]) /\ UNCHANGED <<avars, elem, L>>
      ELSE IF ev.e = "Alloc" THEN L' = AllocStep(L, ev.b, ev.n) /\ sync' = TRUE /\ UNCHANGED <<avars, elem>>
      ELSE IF ev.e = "Dealloc" THEN
           LET errs == IF elem = "tracked" THEN DeallocErrs(L, ev.b) ELSE {} IN
           /\ UNCHANGED <<avars, elem>>
           /\ IF errs # {} THEN Bad(errs, [block |-> ev.b]) /\ L' = L ELSE (L' = DeallocStep(L, ev.b) /\ sync' = TRUE)
      ELSE IF ev.e = "El" THEN
           LET r == LedgerStep(L, ev) IN
           /\ UNCHANGED <<avars, elem>> /\ L' = r.L
           /\ IF r.errs # {} THEN Bad(r.errs, [slot |-> SlotOf(L, ev.b, ev.i), src |-> SlotOf(L, ev.sb, ev.si)]) ELSE sync' = TRUE
      ELSE IF ev.e = "End" THEN
           /\ UNCHANGED <<avars, elem, L>>
           /\ IF elem = "tracked" /\ ~NothingLeft(L) THEN Bad({"element_never_destroyed"}, [blocks |-> DOMAIN L.blk]) ELSE sync' = TRUE
      ELSE IF ev.e = "Other" THEN
           LET errs == ObsErrs(ev, ev.c) IN
           /\ UNCHANGED <<avars, elem, L>>
           /\ IF errs # {} THEN Bad(errs, [contents |-> el[ev.c]]) ELSE sync' = TRUE
      ELSE /\ (IF ev.threw = 1 /\ ev.name \in {"PushBack", "EmplaceBack", "Resize", "Reserve"} THEN Failed(ev.c) ELSE Act(ev)) /\ UNCHANGED <<elem, L>>
           /\ LET errs == ObsErrs(ev, ev.c) \cup RetErrs(ev) IN
              IF errs # {} THEN Bad(errs, [contents |-> el'[ev.c], size |-> Len(el'[ev.c])]) ELSE sync' = TRUE
TSpec == TInit /\ [][TNext]_<<avars, tvars>>
Accepted == WriteVerdict
=============================================================================
