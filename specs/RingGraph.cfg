CONSTANTS Sizes = {2, 3, 4}
          Bytes = {65, 255}
          MaxBulk = 2
SPECIFICATION Spec
INVARIANTS TypeOK RefinementInv CountsInv AccessorInv
PROPERTIES RejectInv FifoProp
