CONSTANTS NTs = {4}
          MaxNow = 40
          Starts = {0, 1, 2}
          Intervals = {1, 2, 3, 5}
          Steps = {0, 1, 2, 3, 7}
          Effects <- EffectsSim
SPECIFICATION Spec
CONSTRAINT TimeBound
INVARIANTS ExecRefines ListSorted
