------------------------------- MODULE Ring -------------------------------
(***************************************************************************)
(* C03 - byte ring (igris/datastruct/ring.h), typed ring                   *)
(* (igris/container/ring.h), ring_counter and cyclic_buffer.               *)
(*                                                                         *)
(* Two layers in one module.                                               *)
(*   property layer : q    - the reference FIFO of the bytes in flight     *)
(*   implementation : mem, head, tail - the public struct + user buffer    *)
(* RefinementInv ties them: q is the cyclic slice mem[tail .. head).       *)
(* Actions are the public calls; a call that the API rejects (putc on a    *)
(* full ring, getc on an empty one) is an action that leaves everything    *)
(* unchanged and returns the rejecting value.                              *)
(***************************************************************************)
EXTENDS Integers, Sequences, FiniteSets, TLC

CONSTANTS Sizes,     \* ring sizes (slots) of the exhaustive configuration; capacity is size-1
          Bytes,     \* byte alphabet of the exhaustive configuration
          MaxBulk    \* longest write/read/move in the exhaustive configuration

VARIABLES size,      \* slots of this ring (fixed after Init; a variable so that the
                     \* trace specification can bind it from the recorded Reset)
          q, mem, head, tail, ret
vars == <<size, q, mem, head, tail, ret>>

Size == size
Idx == 0 .. Size-1
Cap == Size - 1

\* ----- reference (property layer) ----------------------------------------
Avail(qq) == Len(qq)
Room(qq)  == Cap - Len(qq)
Take(s, n) == SubSeq(s, 1, n)
Drop(s, n) == SubSeq(s, n+1, Len(s))
Min(a, b) == IF a < b THEN a ELSE b

\* ----- implementation-shaped helpers ---------------------------------------
Wrap(i) == i % Size                       \* mathematical modulo (TLA+ % is >= 0)
ImplAvail(h, t) == IF h >= t THEN h - t ELSE Size + h - t
ImplRoom(h, t)  == IF h >= t THEN Size - 1 + (t - h) ELSE (t - h) - 1
ImplFull(h, t)  == h = (IF t # 0 THEN t ELSE Size) - 1
ImplEmpty(h, t) == h = t
Slice(m, t, n)  == [i \in 1..n |-> m[Wrap(t + i - 1)]]
\* write sequence s into m starting at slot h (cyclically)
Store(m, h, s)  == [i \in Idx |-> LET k == Wrap(i - h) + 1 IN IF k <= Len(s) THEN s[k] ELSE m[i]]   \* Len(s) <= Size

TypeOK == /\ head \in Idx /\ tail \in Idx
          /\ mem \in [Idx -> Bytes \cup {0}]
          /\ q \in Seq(Bytes) /\ Len(q) <= Cap

Init == /\ size \in Sizes
        /\ q = <<>> /\ head = 0 /\ tail = 0
        /\ mem = [i \in 0 .. size-1 |-> 0]
        /\ ret = <<"init">>

\* ----- actions -------------------------------------------------------------
Putc(b) ==
   IF Room(q) = 0
   THEN /\ UNCHANGED <<size, q, mem, head, tail>> /\ ret' = <<"putc", 0>>
   ELSE /\ q' = Append(q, b)
        /\ mem' = [mem EXCEPT ![head] = b]
        /\ head' = Wrap(head + 1)
        /\ UNCHANGED <<size, tail>>
        /\ ret' = <<"putc", 1>>

Getc ==
   IF Avail(q) = 0
   THEN /\ UNCHANGED <<size, q, mem, head, tail>> /\ ret' = <<"getc", -1>>
   ELSE /\ q' = Tail(q)
        /\ tail' = Wrap(tail + 1)
        /\ UNCHANGED <<size, mem, head>>
        /\ ret' = <<"getc", Head(q)>>       \* as unsigned byte

Write(s) ==
   LET n == Min(Len(s), Room(q)) IN
   /\ q' = q \o Take(s, n)
   /\ mem' = Store(mem, head, Take(s, n))
   /\ head' = Wrap(head + n)
   /\ UNCHANGED <<size, tail>>
   /\ ret' = <<"write", n>>

Read(k) ==
   LET n == Min(k, Avail(q)) IN
   /\ q' = Drop(q, n)
   /\ tail' = Wrap(tail + n)
   /\ UNCHANGED <<size, mem, head>>
   /\ ret' = <<"read", n, Take(q, n)>>

\* external producer: stores s directly at the head position, then publishes
\* it with ring_move_head(k) (k = Len(s) <= room), or one by one.
MoveHead(s) ==
   /\ Len(s) <= Room(q)
   /\ q' = q \o s
   /\ mem' = Store(mem, head, s)
   /\ head' = Wrap(head + Len(s))
   /\ UNCHANGED <<size, tail>>
   /\ ret' = <<"movehead", Len(s)>>

\* external consumer: reads k bytes in place, then releases them
MoveTail(k) ==
   /\ k <= Avail(q)
   /\ q' = Drop(q, k)
   /\ tail' = Wrap(tail + k)
   /\ UNCHANGED <<size, mem, head>>
   /\ ret' = <<"movetail", k, Take(q, k)>>

\* typed ring: a push / emplace whose element constructor throws - the ring is as before (no phantom element)
PutcFail == UNCHANGED <<size, q, mem, head, tail>> /\ ret' = <<"putcfail", 1>>

Clean ==
   /\ q' = <<>> /\ head' = 0 /\ tail' = 0 /\ UNCHANGED <<size, mem>>
   /\ ret' = <<"clean">>

\* typed ring clear(): pops until empty (indices are not reset)
ClearPop ==
   /\ q' = <<>> /\ tail' = head /\ UNCHANGED <<size, mem, head>>
   /\ ret' = <<"clearpop">>

BulkSeqs == UNION {[1..n -> Bytes] : n \in 0..MaxBulk}

Next == \/ \E b \in Bytes : Putc(b)
        \/ Getc
        \/ \E s \in BulkSeqs : Write(s)
        \/ \E k \in 0..MaxBulk : Read(k)
        \/ \E s \in BulkSeqs : MoveHead(s)
        \/ \E k \in 0..MaxBulk : MoveTail(k)
        \/ Clean
        \/ ClearPop

Spec == Init /\ [][Next]_vars

\* ----- the listed property, as invariants ----------------------------------
RefinementInv == /\ q = Slice(mem, tail, Len(q))
                 /\ Len(q) = ImplAvail(head, tail)
CountsInv == /\ ImplAvail(head, tail) + ImplRoom(head, tail) = Cap
             /\ ImplAvail(head, tail) = Avail(q)
             /\ ImplRoom(head, tail) = Room(q)
             /\ (ImplFull(head, tail) <=> Room(q) = 0)
             /\ (ImplEmpty(head, tail) <=> Avail(q) = 0)
\* rejected operations change nothing; FIFO: what leaves is a prefix of what was in
RejectInv == [][ /\ (ret' = <<"putc", 0>> => UNCHANGED <<size, q, mem, head, tail>>)
                 /\ (ret' = <<"getc", -1>> => UNCHANGED <<size, q, mem, head, tail>>) ]_vars
FifoProp == [][ \/ (Len(q') >= Len(q) /\ Take(q', Len(q)) = q) \* only appended at the back
                \/ \E n \in 0..Len(q) : q' = Drop(q, n)   \* only removed from the front
              ]_vars

\* ----- typed ring / ring_counter relative accessors ------------------------
\* implementation-shaped index arithmetic (what the accessors must compute)
FixupIndex(i)   == i % Size                       \* mathematical modulo, any integer i
LastIdx(h)      == FixupIndex(h - 1)
Distance(a, b)  == (a - b + Size) % Size
GetLastIdx(h, off, cnt, fromEnd) ==
   [i \in 1..cnt |-> IF fromEnd THEN FixupIndex(h - off - (i-1) - 1)
                                ELSE FixupIndex(h - cnt - off + (i-1))]
\* reference answers, from the FIFO alone
RefLast(qq)     == qq[Len(qq)]
RefTail(qq)     == qq[1]
RefGetLast(qq, off, cnt, fromEnd) ==
   [i \in 1..cnt |-> IF fromEnd THEN qq[Len(qq) - off - (i-1)]
                                ELSE qq[Len(qq) - cnt - off + i]]

\* relative accessors address the reference elements for every head position
AccessorInv ==
   /\ \A i \in (0 - 2*Size) .. (2*Size) : FixupIndex(i) \in Idx
   /\ Distance(head, tail) = Len(q)
   /\ Len(q) > 0 => /\ mem[LastIdx(head)] = RefLast(q)
                    /\ mem[tail] = RefTail(q)
   /\ \A off \in 0..Len(q) : \A cnt \in 0..(Len(q) - off) : \A fe \in BOOLEAN :
        [i \in 1..cnt |-> mem[GetLastIdx(head, off, cnt, fe)[i]]] = RefGetLast(q, off, cnt, fe)
=============================================================================
