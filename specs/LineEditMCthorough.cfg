CONSTANTS Caps = {2, 3, 4}
          Depths = {1, 2, 3}
SPECIFICATION Spec
INVARIANTS BoundsInv HistDistinct
