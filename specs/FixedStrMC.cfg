CONSTANTS Bytes = {0, 65, 66}
          Caps = {1, 2, 3}
          MaxSrc = 5
SPECIFICATION Spec
INVARIANTS CapInv
CHECK_DEADLOCK FALSE
