----------------------------- MODULE GstuffWorst -----------------------------
(***************************************************************************)
(* Witness generator for C04: TLC enumerates payloads made of marker and   *)
(* escape bytes only and prints those whose frame reaches the stated bound *)
(* 2n+4 (every byte escaped and the CRC byte escaped too).  The runner     *)
(* turns the printed payloads into encoder scripts.                        *)
(***************************************************************************)
EXTENDS Gstuff
CONSTANTS Names, MaxLen
VARIABLES name, p
Specials(cx) == {cx.START, cx.STOP, cx.STUB}
Init == name \in Names /\ p \in UNION {[1..k -> Specials(CtxOf(name))] : k \in 0..MaxLen}
Next == UNCHANGED <<name, p>>
Spec == Init /\ [][Next]_<<name, p>>
WithinBound == Len(Encode(CtxOf(name), p)) <= 2 * Len(p) + 4
ReportWorst == Len(Encode(CtxOf(name), p)) = 2 * Len(p) + 4 => PrintT(<<"WORST", name, p>>)
=============================================================================
