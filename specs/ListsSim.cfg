CONSTANTS NHs = {3}
          NNs = {6}
SPECIFICATION Spec
INVARIANTS WellFormed RefinementInv Unreachable
