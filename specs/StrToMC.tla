------------------------------ MODULE StrToMC ------------------------------
EXTENDS StrTo
CONSTANTS Chars, MaxLen, Bases
VARIABLES t, base
Init == base \in Bases /\ t \in UNION {[1..k -> Chars] : k \in 0..MaxLen}
Next == UNCHANGED <<t, base>>
Spec == Init /\ [][Next]_<<t, base>>
\* the end pointer never passes the text, and is the start iff nothing was converted
EndInRange == LET r == Strto(t, base, TRUE, 2) IN r.end >= 0 /\ r.end <= Len(t)
\* signed results lie in the type's range by construction; the unsigned reading of the same text
\* agrees with the signed one whenever the signed one did not clamp (1-byte type to make clamping common)
Agree == LET s == Strto(t, base, TRUE, 1)  u == Strto(t, base, FALSE, 1) IN
         /\ s.end = u.end
         /\ (s.val \notin {MaxS(1), MinS(1)} => s.val = u.val)
\* idempotence on rendered output: parsing the canonical rendering of the parsed value gives it back
Idem == LET r == Strto(t, base, FALSE, 2)
            b == IF base = 0 THEN 10 ELSE base
            again == Strto(RenderU(r.val, b, FALSE), b, FALSE, 2)
        IN again.val = r.val
=============================================================================
