---------------------------- MODULE CStringTrace ----------------------------
EXTENDS CString, Judge
VARIABLES l, sync
TInit == JInit /\ l = 1 /\ sync = TRUE
TNext ==
   /\ l <= NTrace /\ l' = l + 1 /\ Consumed(l) /\ sync' = TRUE
   /\ LET ev == TraceLog[l] IN
      IF ev.e = "Reset" THEN TRUE
      ELSE IF ev.e = "Fault" THEN Flag(l, <<"fault">>, [kind |-> ev.kind, where |-> ev.where])
      ELSE LET d == Def(ev.fn, ev.mem, ev.a, ev.b, ev.n)
               exp == [ret |-> d.ret, mem2 |-> d.mem]
               mm == Mismatch(ev, exp)
           IN IF mm # {} THEN Flag(l, SetToSeq(mm), exp) ELSE TRUE
TSpec == TInit /\ [][TNext]_<<l, sync>>
Accepted == WriteVerdict
=============================================================================
