---------------------------- MODULE CStringTrace ----------------------------
EXTENDS CString, Judge
VARIABLES l, sync
TInit == JInit /\ l = 1 /\ sync = TRUE
TNext ==
   /\ l <= NTrace /\ l' = l + 1 /\ Consumed(l) /\ sync' = TRUE
   /\ LET ev == TraceLog[l] IN
      IF ev.e = "Reset" THEN TRUE
      ELSE IF ev.e = "Fault" THEN Flag(l, <<"fault">>, [kind |-> ev.kind, where |-> ev.where])
      \* a negative n stands for a bound near SIZE_MAX ("as much as there is"): legal for the functions that stop at the
      \* terminator or, for memchr, at the first match (C11 7.24.5.1: reads sequentially and stops at the match)
      ELSE LET nn == IF ev.n >= 0 THEN ev.n ELSE IF ev.fn = "memchr" THEN Len(ev.mem) - ev.a ELSE 1000000
               d == Def(ev.fn, ev.mem, ev.a, ev.b, nn)
               exp == [ret |-> d.ret, mem2 |-> d.mem]
               mm == Mismatch(ev, exp)
           IN IF mm # {} THEN Flag(l, SetToSeq(mm), exp) ELSE TRUE
TSpec == TInit /\ [][TNext]_<<l, sync>>
Accepted == WriteVerdict
=============================================================================
