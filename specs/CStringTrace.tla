---------------------------- MODULE CStringTrace ----------------------------
EXTENDS CString, Judge
VARIABLES l, sync
TInit == JInit /\ l = 1 /\ sync = TRUE
\* memcpy / memmove / memset inside an object of more than 4 GiB (zero-filled except for a few marked bytes): positions, distances and
\* counts beyond 2^31 and 2^32 as pairs <<high, low 16 bits>>; the bytes read back at the probed positions must be those the definition gives
PLt(a, b) == a[1] < b[1] \/ (a[1] = b[1] /\ a[2] < b[2])
PLe(a, b) == ~PLt(b, a)
PAdd(a, b) == LET lw == a[2] + b[2] IN <<a[1] + b[1] + (lw \div 65536), lw % 65536>>
PSub(a, b) == LET lw == a[2] - b[2] IN IF lw >= 0 THEN <<a[1] - b[1], lw>> ELSE <<a[1] - b[1] - 1, lw + 65536>>
OldAt(ev, q) == IF \E i \in 1..Len(ev.marks) : <<ev.marks[i][1], ev.marks[i][2]>> = q
                THEN ev.marks[CHOOSE i \in 1..Len(ev.marks) : <<ev.marks[i][1], ev.marks[i][2]>> = q /\ \A j \in (i + 1)..Len(ev.marks) : <<ev.marks[j][1], ev.marks[j][2]>> # q][3]
                ELSE 0
MemBigExp(ev) ==
   LET inside(q) == PLe(ev.d, q) /\ PLt(q, PAdd(ev.d, ev.n))
       want(q) == IF ~inside(q) THEN OldAt(ev, q) ELSE IF ev.fn = "memset" THEN ev.c % 256 ELSE OldAt(ev, PAdd(PSub(q, ev.d), ev.s))
   IN [probes |-> [i \in 1..Len(ev.probes) |-> <<ev.probes[i][1], ev.probes[i][2], want(<<ev.probes[i][1], ev.probes[i][2]>>)>>], ret |-> ev.d]
TNext ==
   /\ l <= NTrace /\ l' = l + 1 /\ Consumed(l) /\ sync' = TRUE
   /\ LET ev == TraceLog[l] IN
      IF ev.e = "Reset" THEN TRUE
      ELSE IF ev.e = "Fault" THEN Flag(l, <<"fault">>, [kind |-> ev.kind, where |-> ev.where])
      ELSE IF ev.e = "MemBig" THEN (LET exp == MemBigExp(ev) mm == Mismatch(ev, exp) IN IF mm # {} THEN Flag(l, SetToSeq(mm), exp) ELSE TRUE)
      \* a negative n stands for a bound near SIZE_MAX ("as much as there is"): legal for the functions that stop at the
      \* terminator or, for memchr, at the first match (C11 7.24.5.1: reads sequentially and stops at the match)
      ELSE LET nn == IF ev.n >= 0 THEN ev.n ELSE IF ev.fn = "memchr" THEN Len(ev.mem) - ev.a ELSE 1000000
               d == Def(ev.fn, ev.mem, ev.a, ev.b, nn)
               exp == [ret |-> d.ret, mem2 |-> d.mem]
               mm == Mismatch(ev, exp)
           IN IF mm # {} THEN Flag(l, SetToSeq(mm), exp) ELSE TRUE
TSpec == TInit /\ [][TNext]_<<l, sync>>
Accepted == WriteVerdict
=============================================================================
