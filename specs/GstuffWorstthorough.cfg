CONSTANTS Names = {"default", "v0"}
          MaxLen = 9
SPECIFICATION Spec
INVARIANTS WithinBound ReportWorst
CHECK_DEADLOCK FALSE
