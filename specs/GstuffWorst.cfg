CONSTANTS Names = {"default", "v0"}
          MaxLen = 7
SPECIFICATION Spec
INVARIANTS WithinBound ReportWorst
CHECK_DEADLOCK FALSE
