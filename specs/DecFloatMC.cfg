CONSTANTS Nats = {0, 1, 2, 3, 5, 7, 8, 9, 10, 11, 16, 25, 99, 100, 101, 127, 128, 1000, 1024, 4095, 9999, 10000, 10001, 12345, 65535}
          Alphabet = {43, 45, 46, 48, 53, 101}
          MaxLen = 5
SPECIFICATION Spec
INVARIANTS Arith WithinLaw TextLaws
CHECK_DEADLOCK FALSE
