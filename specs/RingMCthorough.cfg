CONSTANTS Sizes = {2, 3, 4, 5, 6, 7, 8}
          Bytes = {0, 65, 255}
          MaxBulk = 3
SPECIFICATION Spec
INVARIANTS TypeOK RefinementInv CountsInv AccessorInv
PROPERTIES RejectInv
