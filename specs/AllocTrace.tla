----------------------------- MODULE AllocTrace -----------------------------
(***************************************************************************)
(* Trace specification for C10.  Property clauses (monitor): every block   *)
(* inside the arena, aligned, disjoint from every other live block,        *)
(* contents untouched, realloc keeps the common prefix, all freed =>       *)
(* initial break; pools: exactly capacity cells, freed cells reusable,     *)
(* avail/room = capacity - live, cell_is_allocated exact.                  *)
(* impl_* clauses compare addresses, break and free list with the          *)
(* implementation-shaped model of Alloc.tla (drift only).                  *)
(***************************************************************************)
EXTENDS Alloc, Judge
VARIABLES l, sync, kind, mlive, pl, plive, pcap
tvars == <<l, sync, kind, mlive, pl, plive, pcap>>
Arena == 1048576                 \* unit 1: bytes
ArenaU == 1610612736             \* unit 8: 12 GiB in units of 8 bytes
Guard == <<165, 165, 165, 165, 165, 165, 165, 165>>
B2I(b) == IF b THEN 1 ELSE 0

\* Monitor quantities are in the units of the trace: bytes (unit 1, arena of 1 MiB) or 8-byte units (unit 8, arena of 12 GiB, byte
\* counts of 2 GiB, 4 GiB and more: offsets are logged divided by 8, the remainders summed in ev.rem; sizes as nh * 2^20 + nl).
\* Sums that could pass 2^31 are avoided (differences instead).
Wide(ev) == ev.unit = 8
ReqP(ev) == IF Wide(ev) THEN RoundWide(ev.nh, ev.nl) ELSE RoundBytes(ev.n)         \* payload units the model allocates
ReqN(ev) == IF Wide(ev) THEN ev.nh * 131072 + (ev.nl + 7) \div 8 ELSE ev.n           \* what the caller may use, in trace units
Overlaps(o1, n1, o2, n2) == o1 - o2 < n2 /\ o2 - o1 < n1
\* property clauses for a block [off, off+n) given the other live blocks
BlockErrs(ev, id, offv, n, others) ==
   (IF offv < 0 THEN {"null_returned"} ELSE
      (IF (IF Wide(ev) THEN ev.offr # 0 ELSE offv % 8 # 0) THEN {"alignment"} ELSE {})
      \cup (IF n > (IF Wide(ev) THEN ArenaU ELSE Arena) - offv THEN {"outside_arena"} ELSE {})
      \cup (IF \E j \in DOMAIN others : j # id /\ (Overlaps(offv, n, others[j].off, others[j].n) \/ offv = others[j].off)
            THEN {"overlap"} ELSE {}))
K(ev) == IF Wide(ev) THEN 1 ELSE 8
FlOf(ev) == [i \in 1..Len(fl') |-> <<fl'[i].a * K(ev), fl'[i].p * K(ev)>>]
HeapDrift(ev, offm) ==
   (IF ev.brk # (IF brk' = 0 /\ ev.brk = -1 THEN -1 ELSE brk' * K(ev)) THEN {"impl_brk"} ELSE {})
   \cup (IF ev.fl # FlOf(ev) THEN {"impl_freelist"} ELSE {})
   \cup (IF offm # -2 /\ ev.off # offm THEN {"impl_address"} ELSE {})
   \cup (IF ev.rem # 0 THEN {"impl_unit_remainder"} ELSE {})
Restored(ev) == (DOMAIN mlive' = {}) => (ev.brk \in {-1, 0} /\ ev.fl = <<>>)

JudgeHeap(ev, errs, offm) ==
   LET e2 == errs \cup (IF ev.corrupt # <<>> THEN {"contents_changed"} ELSE {})
                  \cup (IF Restored(ev) THEN {} ELSE {"break_not_restored"})
       dr == HeapDrift(ev, offm)
   IN IF e2 # {} THEN Flag(l, SetToSeq(e2), [model_brk |-> brk' * K(ev), model_fl |-> FlOf(ev), model_off |-> offm]) /\ sync' = FALSE
      ELSE IF dr # {} THEN Flag(l, SetToSeq(dr), [model_brk |-> brk' * K(ev), model_fl |-> FlOf(ev), model_off |-> offm]) /\ sync' = TRUE
      ELSE sync' = TRUE

HeapStep(ev) ==
   /\ UNCHANGED <<pl, plive, pcap>>
   /\ CASE ev.e = "Malloc" ->
             /\ MallocP(ev.id, ReqP(ev))
             /\ mlive' = mlive @@ (ev.id :> [off |-> ev.off, n |-> ReqN(ev)])
             /\ JudgeHeap(ev, BlockErrs(ev, ev.id, ev.off, ReqN(ev), mlive), lastret' * K(ev))
        [] ev.e = "Free" ->
             /\ Free(ev.id)
             /\ mlive' = [i \in DOMAIN mlive \ {ev.id} |-> mlive[i]]
             /\ JudgeHeap(ev @@ [off |-> 0], IF ev.bad_at # -1 THEN {"contents_changed"} ELSE {}, -2)
        [] ev.e = "FreeNull" -> UNCHANGED <<vars, mlive>> /\ JudgeHeap(ev @@ [off |-> 0], {}, -2)
        [] ev.e = "Realloc" ->
             /\ ReallocP(ev.id, ReqP(ev))
             /\ mlive' = [mlive EXCEPT ![ev.id] = [off |-> ev.off, n |-> ReqN(ev)]]
             /\ JudgeHeap(ev, BlockErrs(ev, ev.id, ev.off, ReqN(ev), mlive) \cup (IF ev.bad_at # -1 THEN {"prefix_not_preserved"} ELSE {}), lastret' * K(ev))

JudgePool(ev, errs, cellm) ==
   LET n == Cardinality(plive')
       e2 == errs \cup (IF ev.avail # pcap' - n THEN {"avail"} ELSE {})
                  \cup (IF ev.room # pcap' - n THEN {"room"} ELSE {})
                  \cup (IF ev.alloc # [i \in 1..pcap' |-> B2I((i-1) \in plive')] THEN {"cell_is_allocated"} ELSE {})
                  \cup (IF kind # "sop" /\ (ev.gl # Guard \/ ev.gr # Guard \/ ev.g2 \notin {<<>>, Guard \o Guard}) THEN {"guard"} ELSE {})
       dr == IF cellm # -2 /\ ev.cell # cellm THEN {"impl_cell_order"} ELSE {}
   IN IF e2 # {} THEN Flag(l, SetToSeq(e2), [live |-> SetToSeq(plive'), model_cell |-> cellm]) /\ sync' = FALSE
      ELSE IF dr # {} THEN Flag(l, SetToSeq(dr), [model_cell |-> cellm]) /\ sync' = TRUE
      ELSE sync' = TRUE

PoolStep(ev) ==
   /\ UNCHANGED <<vars, mlive>>
   /\ (ev.e # "PEngage" => UNCHANGED pcap)
   /\ CASE ev.e = "PEngage" ->        \* a further zone of n2 cells given to the same pool (pool_engage may be called more than once)
             /\ pcap' = pcap + ev.n2 /\ plive' = plive
             /\ pl' = [free |-> [i \in 1..ev.n2 |-> pcap + ev.n2 - i] \o pl.free, cap |-> pcap + ev.n2]
             /\ JudgePool(ev @@ [al |-> 0, cell |-> -2], {}, -2)
        [] ev.e = "PAlloc" ->
             LET r == PoolAlloc(pl)
                 errs == IF Cardinality(plive) = pcap
                         THEN (IF ev.cell # -1 THEN {"allocated_beyond_capacity"} ELSE {})
                         ELSE (IF ev.cell = -1 THEN {"null_before_capacity"}
                               ELSE IF ev.cell < 0 \/ ev.cell >= pcap THEN {"cell_out_of_range"}
                               ELSE IF ev.cell \in plive THEN {"cell_handed_out_twice"}
                               ELSE IF ev.al # 0 THEN {"alignment"} ELSE {})
             IN /\ plive' = IF ev.cell >= 0 THEN plive \cup {ev.cell} ELSE plive
                \* follow the implementation's choice so that the LIFO model stays comparable
                /\ pl' = IF ev.cell >= 0 THEN [pl EXCEPT !.free = SelectSeq(pl.free, LAMBDA c : c # ev.cell)] ELSE pl
                /\ JudgePool(ev, errs, r.cell)
        \* create() of an element whose constructor creates another element in the same pool (cells <<outer, inner>>): two allocations
        [] ev.e = "PAlloc2" ->
             LET free == pcap - Cardinality(plive)
                 cs == ev.cells
                 got == {cs[i] : i \in {j \in 1..2 : cs[j] >= 0}}
                 errs == (IF free >= 1 /\ cs[1] = -1 THEN {"null_before_capacity"} ELSE {})
                         \cup (IF free >= 2 /\ cs[2] = -1 THEN {"null_before_capacity"} ELSE {})
                         \cup (IF (free = 0 /\ cs[1] # -1) \/ (free <= 1 /\ cs[2] # -1) THEN {"allocated_beyond_capacity"} ELSE {})
                         \cup (IF \E c \in got : c < 0 \/ c >= pcap THEN {"cell_out_of_range"} ELSE {})
                         \cup (IF got \cap plive # {} \/ (cs[1] >= 0 /\ cs[1] = cs[2]) THEN {"cell_handed_out_twice"} ELSE {})
             IN /\ plive' = plive \cup got
                /\ pl' = [pl EXCEPT !.free = SelectSeq(pl.free, LAMBDA c : c \notin got)]
                /\ JudgePool(ev @@ [al |-> 0, cell |-> -2], errs, -2)
        \* create() of an element whose constructor destroys a live element of the same pool: one allocation, then one release
        [] ev.e = "PAllocF" ->
             LET free == pcap - Cardinality(plive)
                 errs == IF free = 0 THEN (IF ev.cell # -1 THEN {"allocated_beyond_capacity"} ELSE {})
                         ELSE (IF ev.cell = -1 THEN {"null_before_capacity"}
                               ELSE IF ev.cell < 0 \/ ev.cell >= pcap THEN {"cell_out_of_range"}
                               ELSE IF ev.cell \in plive THEN {"cell_handed_out_twice"} ELSE {})
                 p1 == IF ev.cell >= 0 THEN [pl EXCEPT !.free = SelectSeq(pl.free, LAMBDA c : c # ev.cell)] ELSE pl
             IN /\ plive' = (IF ev.cell >= 0 THEN plive \cup {ev.cell} ELSE plive) \ {ev.freed}
                /\ pl' = IF ev.freed >= 0 THEN PoolFree(p1, ev.freed) ELSE p1
                /\ JudgePool(ev @@ [al |-> 0], errs, -2)
        [] ev.e = "PFree" ->
             /\ plive' = plive \ {ev.cell} /\ pl' = PoolFree(pl, ev.cell)
             /\ JudgePool(ev @@ [al |-> 0], {}, -2)
        [] ev.e = "PSkip" -> UNCHANGED <<pl, plive>> /\ sync' = TRUE

TInit == /\ JInit /\ l = 1 /\ sync = FALSE /\ kind = "heap" /\ mlive = <<>> /\ pl = PoolInit(1) /\ plive = {} /\ pcap = 1
         /\ brk = 0 /\ fl = <<>> /\ live = <<>> /\ lastret = -1
TNext ==
   /\ l <= NTrace /\ l' = l + 1 /\ Consumed(l)
   /\ LET ev == TraceLog[l] IN
      IF ev.e = "Reset" THEN
           /\ kind' = ev.kind /\ mlive' = <<>> /\ pl' = PoolInit(ev.cap) /\ plive' = {} /\ pcap' = ev.cap
           /\ brk' = 0 /\ fl' = <<>> /\ live' = <<>> /\ lastret' = -1 /\ sync' = TRUE
      ELSE IF ~sync THEN UNCHANGED <<vars, sync, kind, mlive, pl, plive, pcap>>
      ELSE IF ev.e = "Fault" THEN Flag(l, <<"fault">>, [kind |-> ev.kind, where |-> ev.where]) /\ sync' = FALSE /\ UNCHANGED <<vars, kind, mlive, pl, plive, pcap>>
      ELSE UNCHANGED kind /\ (IF kind = "heap" THEN HeapStep(ev) ELSE PoolStep(ev))
TSpec == TInit /\ [][TNext]_<<vars, tvars>>
Accepted == WriteVerdict
=============================================================================
