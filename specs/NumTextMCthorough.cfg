CONSTANTS Bases = {2, 3, 4, 5, 6, 7, 8, 9, 10, 11, 12, 13, 14, 15, 16, 17, 18, 19, 20, 21, 22, 23, 24, 25, 26, 27, 28, 29, 30, 31, 32, 33, 34, 35, 36}
          Widths = {1, 2}
          Bytes = {0, 1, 9, 10, 15, 16, 35, 36, 99, 100, 127, 128, 200, 254, 255}
SPECIFICATION Spec
INVARIANTS RoundTripU RoundTripI Canonical StopsAtTerminator Fixed
CHECK_DEADLOCK FALSE
