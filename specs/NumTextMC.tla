----------------------------- MODULE NumTextMC -----------------------------
EXTENDS NumText
CONSTANTS Bases, Widths, Bytes
VARIABLES w, v, base
Init == w \in Widths /\ base \in Bases /\ v \in [1..w -> Bytes]
Next == UNCHANGED <<w, v, base>>
Spec == Init /\ [][Next]_<<w, v, base>>
\* rendering then parsing in the same base returns the value and consumes the whole text, either case
RoundTripU == /\ ParseU(RenderU(v, base, TRUE), base, w) = [val |-> v, end |-> Len(RenderU(v, base, TRUE))]
              /\ ParseU(RenderU(v, base, FALSE), base, w).val = v
RoundTripI == ParseI(RenderI(v, base, FALSE), base, w) = [val |-> v, end |-> Len(RenderI(v, base, FALSE))]
\* canonical: no leading zero unless the text is "0"; only digits of the base
Canonical == LET t == RenderU(v, base, TRUE) IN
             /\ Len(t) >= 1 /\ (Len(t) > 1 => t[1] # 48)
             /\ \A i \in 1..Len(t) : DigitVal(t[i]) < base
\* a following character that is not a digit of the base stops the parse right there
StopsAtTerminator == \A c \in {0, 32, 45, 46, 48 + base, 71, 103, 122} :
                        DigitVal(c) >= base => ParseU(Append(RenderU(v, base, TRUE), c), base, w).end = Len(RenderU(v, base, TRUE))
Fixed == Len(HexFixed(v)) = 2 * w /\ Len(BinFixed(v)) = 8 * w
=============================================================================
