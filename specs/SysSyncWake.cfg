CONSTANTS Threads <- T4
          Programs <- ProgWake
          NotifyUnderLock = TRUE
          Delegates <- NoD
          CursorBeforeWake = FALSE
          SpuriousWakeups = FALSE
SPECIFICATION FairSpec
INVARIANTS NoTouchAfterDestroy LockInv NoSpuriousReturn QueueInv QueueWellFormed PerProducerOrder
PROPERTIES NoLostWakeup WakeOrderOK
CHECK_DEADLOCK FALSE
