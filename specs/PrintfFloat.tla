----------------------------- MODULE PrintfFloat -----------------------------
(***************************************************************************)
(* C13 - the floating conversions f F e E g G of the printf engine          *)
(* (igris/util/printf_impl.c, print_f).  ISO C 7.21.6.1 fixes the shape of  *)
(* the text for a directive; which digits are printed is fixed only up to   *)
(* rounding, so the judgement is: the text has the prescribed shape for     *)
(* the directive, and its exact decimal value lies within half a unit of    *)
(* its last digit position (plus PfUlps ulps of the argument) of the        *)
(* argument's exact binary value (DecFloat.tla).                            *)
(***************************************************************************)
EXTENDS Printf, DecFloat

PfUlps == 4
\* ----- the argument: a binary64 from its 8 little-endian bytes -----------------------------------
RECURSIVE BytesToBig(_)
BytesToBig(le) == IF le = <<>> THEN <<>> ELSE BAdd(BOfInt(le[1]), BMulS(BytesToBig(Tail(le)), 256))
DblOf(b) ==
   LET expo == (b[8] % 128) * 16 + (b[7] \div 16)
       frac == BytesToBig(<<b[1], b[2], b[3], b[4], b[5], b[6], b[7] % 16>>)
   IN [cls |-> IF expo = 2047 THEN (IF frac = <<>> THEN "inf" ELSE "nan") ELSE "fin",
       neg |-> b[8] \div 128,
       m |-> IF expo = 0 THEN frac ELSE BAdd(frac, BPow2(52)),
       e |-> IF expo = 0 THEN -1074 ELSE expo - 1075]

\* ----- the directive: % flags width|* [. prec|*] [l] conv ; ws / ps are the * arguments ---------
FDir(f, ws, ps) ==
   LET pf == PFlags(f, 2, {})
       wstar == FmtAt(f, pf.i) = 42
       wn == IF wstar THEN [n |-> ws, i |-> pf.i + 1] ELSE PNum(f, pf.i, 0)
       hasp == FmtAt(f, wn.i) = 46
       pstar == hasp /\ FmtAt(f, wn.i + 1) = 42
       pn == IF ~hasp THEN [n |-> -1, i |-> wn.i] ELSE IF pstar THEN [n |-> ps, i |-> wn.i + 2] ELSE PNum(f, wn.i + 1, 0)
       ci == IF FmtAt(f, pn.i) = 108 THEN pn.i + 1 ELSE pn.i
   IN [fl |-> IF wn.n < 0 THEN pf.fl \cup {45} ELSE pf.fl, width |-> IF wn.n < 0 THEN 0 - wn.n ELSE wn.n,
       prec |-> IF pn.n < 0 THEN -1 ELSE pn.n, conv |-> FmtAt(f, ci), last |-> ci]
Lower(c) == IF c >= 65 /\ c <= 90 THEN c + 32 ELSE c

\* ----- taking the output apart ---------------------------------------------------------------------
RECURSIVE SkipCh(_, _, _)       \* first index >= i whose character is not c
SkipCh(t, i, c) == IF i <= Len(t) /\ t[i] = c THEN SkipCh(t, i + 1, c) ELSE i
RECURSIVE SkipChBack(_, _, _)   \* last index <= i whose character is not c (0 if none)
SkipChBack(t, i, c) == IF i >= 1 /\ t[i] = c THEN SkipChBack(t, i - 1, c) ELSE i
SignStr(d, neg) == IF neg = 1 THEN <<45>> ELSE IF 43 \in d.fl THEN <<43>> ELSE IF 32 \in d.fl THEN <<32>> ELSE <<>>
\* the number without sign and padding: leading blanks, the sign, padding zeros (all but the last zero before
\* a '.', an exponent or the end) and trailing blanks removed
Body(out, d, neg) ==
   LET a == SkipCh(out, 1, 32)
       sg == SignStr(d, neg)
       b == IF sg # <<>> /\ sg # <<32>> /\ a <= Len(out) /\ out[a] = sg[1] THEN a + 1 ELSE a
       z == SkipCh(out, b, 48)
       c == IF z > b /\ (z > Len(out) \/ ~IsDig(out[z])) THEN z - 1 ELSE z     \* keep one zero in front of '.', 'e', end
       e == SkipChBack(out, Len(out), 32)
   IN SubSeq(out, c, e)
\* digits [. digits] [ (e|E) sign digits ]
Anatomy(t) ==
   LET b == DigEnd(t, 1)
       hasPoint == b <= Len(t) /\ t[b] = 46
       c == IF hasPoint THEN DigEnd(t, b + 1) ELSE b
       hasE == c <= Len(t) /\ t[c] \in {101, 69}
       hasES == hasE /\ c + 1 <= Len(t) /\ t[c + 1] \in {43, 45}
       x0 == IF hasES THEN c + 2 ELSE c + 1
       x1 == IF hasE THEN DigEnd(t, x0) ELSE c
       xd == IF hasE THEN DigVals(t, x0, x1) ELSE <<>>
       xv == IF Len(xd) = 0 \/ Len(xd) > 4 THEN 0
             ELSE xd[Len(xd)] + (IF Len(xd) >= 2 THEN 10 * xd[Len(xd) - 1] ELSE 0) + (IF Len(xd) >= 3 THEN 100 * xd[Len(xd) - 2] ELSE 0) + (IF Len(xd) >= 4 THEN 1000 * xd[Len(xd) - 3] ELSE 0)
   IN [ok |-> b > 1 /\ x1 = Len(t) + 1 /\ (hasE => hasES /\ x1 > x0),
       ip |-> DigVals(t, 1, b), point |-> hasPoint, fp |-> IF hasPoint THEN DigVals(t, b + 1, c) ELSE <<>>,
       hasE |-> hasE, echar |-> IF hasE THEN t[c] ELSE 0, xdigits |-> Len(xd), X |-> IF hasES /\ t[c + 1] = 45 THEN 0 - xv ELSE xv]
RECURSIVE LeadZeros(_)
LeadZeros(ds) == IF ds # <<>> /\ ds[1] = 0 THEN 1 + LeadZeros(Tail(ds)) ELSE 0
NoTrailZero(ds) == ds = <<>> \/ ds[Len(ds)] # 0

\* ----- shape and accuracy for a finite argument ----------------------------------------------------
\* half a unit of 10^-su around x, text digits D at scale s (su >= s)
Accurate(x, ds, s, su) == Within(x.m, x.e, BMulPow10(BOfDigits(ds), su - s), su, 1, PfUlps, x.e)
FiniteErrs(x, d, out) ==
   LET body == Body(out, d, x.neg)
       A == Anatomy(body)
       up == d.conv \in {70, 69, 71}
       cv == Lower(d.conv)
       alt == 35 \in d.fl
       p == IF d.prec = -1 THEN 6 ELSE d.prec
   IN (IF out # Pad(d, body, SignStr(d, x.neg), TRUE) THEN {"padding_or_sign"} ELSE {})
      \cup
      (IF ~A.ok THEN {"shape"}
       ELSE IF cv = 102 THEN
              (IF A.hasE \/ Len(A.fp) # p \/ (A.point # (p > 0 \/ alt)) \/ (Len(A.ip) > 1 /\ A.ip[1] = 0) THEN {"shape"} ELSE {})
              \cup (IF ~Accurate(x, A.ip \o A.fp, Len(A.fp), Len(A.fp)) THEN {"inaccurate"} ELSE {})
       ELSE IF cv = 101 THEN
              (IF ~A.hasE \/ Len(A.ip) # 1 \/ Len(A.fp) # p \/ (A.point # (p > 0 \/ alt)) \/ A.xdigits < 2
                  \/ A.echar # (IF up THEN 69 ELSE 101) \/ (A.xdigits > 2 /\ A.X > -100 /\ A.X < 100)
                  \/ (A.ip[1] = 0 /\ ~(AllZero(A.fp) /\ A.X = 0)) THEN {"shape"} ELSE {})
              \cup (IF A.hasE /\ ~Accurate(x, A.ip \o A.fp, Len(A.fp) - A.X, Len(A.fp) - A.X) THEN {"inaccurate"} ELSE {})
       ELSE \* g: P significant digits, style by the exponent X of the text
            LET P == IF p = 0 THEN 1 ELSE p IN
            IF A.hasE THEN
              (IF Len(A.ip) # 1 \/ A.ip[1] = 0 \/ ~(A.X < -4 \/ A.X >= P) \/ A.xdigits < 2 \/ A.echar # (IF up THEN 69 ELSE 101)
                  \/ (A.xdigits > 2 /\ A.X > -100 /\ A.X < 100)
                  \/ (IF alt THEN 1 + Len(A.fp) # P \/ ~A.point ELSE 1 + Len(A.fp) > P \/ ~NoTrailZero(A.fp) \/ (A.point # (A.fp # <<>>))) THEN {"shape"} ELSE {})
              \cup (IF 1 + Len(A.fp) <= P /\ ~Accurate(x, A.ip \o A.fp, Len(A.fp) - A.X, P - 1 - A.X) THEN {"inaccurate"} ELSE {})
            ELSE
              LET zero == AllZero(A.ip \o A.fp)
                  X == IF zero THEN 0 ELSE IF A.ip[1] # 0 THEN Len(A.ip) - 1 ELSE 0 - (1 + LeadZeros(A.fp))
                  fdigits == P - 1 - X          \* fraction digits of the unstripped form
              IN (IF (Len(A.ip) > 1 /\ A.ip[1] = 0) \/ ~(X >= -4 /\ X < P)
                     \/ (IF alt THEN Len(A.fp) # fdigits \/ ~A.point ELSE Len(A.fp) > fdigits \/ ~NoTrailZero(A.fp) \/ (A.point # (A.fp # <<>>))) THEN {"shape"} ELSE {})
                 \cup (IF Len(A.fp) <= fdigits /\ X >= -4 /\ X < P /\ ~Accurate(x, A.ip \o A.fp, Len(A.fp), fdigits) THEN {"inaccurate"} ELSE {}))
\* inf / nan: the statement asks for termination, memory safety and the character count only
PfErrs(fmt, ws, ps, dbl, out, ret) ==
   LET x == DblOf(dbl)  d == FDir(fmt, ws, ps) IN
   (IF ret # Len(out) THEN {"return_value"} ELSE {})
   \cup (IF x.cls = "fin" THEN FiniteErrs(x, d, out) ELSE {})
=============================================================================
