------------------------------ MODULE NumText ------------------------------
(***************************************************************************)
(* C07 - integer <-> text (igris/util/numconvert.c, compat itoa family,    *)
(* debug printers).  Integers of every width are byte sequences (little-   *)
(* endian, as the harness logs them); all arithmetic is schoolbook         *)
(* arithmetic on bytes, so nothing exceeds TLC's 32-bit integers.          *)
(***************************************************************************)
EXTENDS Integers, Sequences, TLC

Rev(s) == [i \in 1..Len(s) |-> s[Len(s) + 1 - i]]
IsZero(be) == \A i \in 1..Len(be) : be[i] = 0
\* big-endian byte sequence divided by a small number: [q, r]
RECURSIVE DivSmall(_, _, _, _)
DivSmall(be, d, i, carry) ==
   IF i > Len(be) THEN [q |-> <<>>, r |-> carry]
   ELSE LET cur == carry * 256 + be[i]
            rest == DivSmall(be, d, i + 1, cur % d)
        IN [q |-> <<cur \div d>> \o rest.q, r |-> rest.r]
DigitChar(v, upper) == IF v < 10 THEN 48 + v ELSE (IF upper THEN 55 ELSE 87) + v
\* canonical digits of a non-negative big-endian magnitude (no leading zeros, "0" for zero)
RECURSIVE DigitsOf(_, _, _)
DigitsOf(be, base, upper) ==
   IF IsZero(be) THEN <<>>
   ELSE LET dm == DivSmall(be, base, 1, 0) IN DigitsOf(dm.q, base, upper) \o <<DigitChar(dm.r, upper)>>
RenderMag(be, base, upper) == IF IsZero(be) THEN <<48>> ELSE DigitsOf(be, base, upper)
\* two's complement negation of a big-endian byte sequence
RECURSIVE AddOne(_, _)
AddOne(be, i) == IF i = 0 THEN be
                 ELSE IF be[i] = 255 THEN AddOne([be EXCEPT ![i] = 0], i - 1) ELSE [be EXCEPT ![i] = be[i] + 1]
Negate(be) == AddOne([i \in 1..Len(be) |-> 255 - be[i]], Len(be))
IsNeg(be) == be[1] >= 128
RenderU(le, base, upper) == RenderMag(Rev(le), base, upper)
RenderI(le, base, upper) == LET be == Rev(le) IN
                            IF IsNeg(be) THEN <<45>> \o RenderMag(Negate(be), base, upper) ELSE RenderMag(be, base, upper)

\* ----- parsing -------------------------------------------------------------------
DigitVal(c) == IF c >= 48 /\ c <= 57 THEN c - 48
               ELSE IF c >= 97 /\ c <= 122 THEN c - 87
               ELSE IF c >= 65 /\ c <= 90 THEN c - 55 ELSE 99
\* acc (little-endian, w bytes) * base + d  modulo 2^(8w)
RECURSIVE MulAdd(_, _, _, _)
MulAdd(le, base, i, carry) ==
   IF i > Len(le) THEN <<>>
   ELSE LET cur == le[i] * base + carry IN <<cur % 256>> \o MulAdd(le, base, i + 1, cur \div 256)
RECURSIVE ScanDigits(_, _, _, _)
ScanDigits(text, i, base, acc) ==     \* [val, end]: end = offset (0-based) of the first unconsumed character
   IF i <= Len(text) /\ DigitVal(text[i]) < base
   THEN ScanDigits(text, i + 1, base, MulAdd(acc, base, 1, DigitVal(text[i])))
   ELSE [val |-> acc, end |-> i - 1]
ZeroLE(w) == [i \in 1..w |-> 0]
ParseU(text, base, w) == ScanDigits(text, 1, base, ZeroLE(w))
ParseI(text, base, w) ==
   IF Len(text) >= 1 /\ text[1] = 45
   THEN LET r == ScanDigits(text, 2, base, ZeroLE(w)) IN [val |-> Rev(Negate(Rev(r.val))), end |-> r.end]
   ELSE ScanDigits(text, 1, base, ZeroLE(w))

\* fixed width renderings of the debug printers: zero padded to the full width
RECURSIVE PadTo(_, _)
PadTo(s, n) == IF Len(s) >= n THEN s ELSE PadTo(<<48>> \o s, n)
HexFixed(le) == PadTo(RenderU(le, 16, TRUE), 2 * Len(le))
BinFixed(le) == PadTo(RenderU(le, 2, TRUE), 8 * Len(le))
=============================================================================
