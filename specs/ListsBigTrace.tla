--------------------------- MODULE ListsBigTrace ---------------------------
(***************************************************************************)
(* C01, long lists: one head (cell 0) and up to two thousand nodes.  The    *)
(* full model of Lists.tla (set of cycles, pointer fields) is quadratic in  *)
(* the number of cells per event; for lists of more than a thousand nodes   *)
(* the reference is just the sequence s of the nodes on the list, and the   *)
(* observations are those of the property statement: forward traversal = s, *)
(* backward traversal = reverse of s, size, emptiness, neighbours point     *)
(* back (nx/pv), removed nodes self-linked.                                 *)
(***************************************************************************)
EXTENDS Integers, Sequences, Judge
VARIABLES l, sync, s, nc, flav
Rev(x) == [i \in 1..Len(x) |-> x[Len(x) + 1 - i]]
Without(x, c) == SelectSeq(x, LAMBDA y : y # c)
B2I(b) == IF b THEN 1 ELSE 0
\* ring of cell 0 followed by s: expected next / previous pointer of every cell (cells not on the list point to themselves)
Ring(x) == <<0>> \o x
IdxOf(x, c) == CHOOSE i \in 1..Len(x) : x[i] = c
OnList(x, c) == \E i \in 1..Len(x) : x[i] = c
Step(ev, x) ==
   CASE ev.e \in {"MovePrev", "AddPrev", "MoveTail"} /\ ev.b = 0 -> Append(Without(x, ev.a), ev.a)      \* in front of the head = at the tail
     [] ev.e \in {"MoveNext", "AddNext", "Move"} /\ ev.b = 0 -> <<ev.a>> \o Without(x, ev.a)
     [] ev.e = "PopFront" -> IF x = <<>> THEN x ELSE Tail(x)
     [] ev.e = "PopBack" -> IF x = <<>> THEN x ELSE SubSeq(x, 1, Len(x) - 1)
     [] ev.e \in {"Unlink", "Del", "DelInit", "DestroyNode"} -> Without(x, ev.a)
     [] ev.e = "Clear" -> <<>>
     [] OTHER -> x
\* the C helper dlist_is_correct walks at most 1000 steps by design: it is only consulted for shorter lists
Errs(ev, x) ==
   (IF ev.fwd[1] # x THEN {"forward"} ELSE {})
   \cup (IF ev.bwd[1] # Rev(x) THEN {"backward"} ELSE {})
   \cup (IF ev.size[1] # Len(x) \/ ev.rsize[1] # Len(x) THEN {"size"} ELSE {})
   \cup (IF ev.empty[1] # B2I(x = <<>>) THEN {"empty"} ELSE {})
   \cup (IF ev.correct[1] # 1 /\ (flav = "cxx" \/ Len(x) < 999) THEN {"correct"} ELSE {})
   \cup (LET r == Ring(x) n == Len(r) IN
         IF \A i \in 1..n : ev.nx[r[i] + 1] = r[(i % n) + 1] /\ ev.pv[r[(i % n) + 1] + 1] = r[i] THEN {} ELSE {"neighbours"})
TInit == JInit /\ l = 1 /\ sync = FALSE /\ s = <<>> /\ nc = 0 /\ flav = "none"
TNext ==
   /\ l <= NTrace /\ l' = l + 1 /\ Consumed(l)
   /\ LET ev == TraceLog[l] IN
      IF ev.e = "Reset" THEN s' = <<>> /\ nc' = ev.nh + ev.nn /\ flav' = ev.flavor /\ sync' = TRUE
      ELSE IF ~sync THEN UNCHANGED <<s, nc, flav, sync>>
      ELSE IF ev.e = "Fault" THEN Flag(l, <<"fault">>, [kind |-> ev.kind, where |-> ev.where]) /\ sync' = FALSE /\ UNCHANGED <<s, nc, flav>>
      ELSE /\ s' = Step(ev, s) /\ nc' = nc /\ flav' = flav
           /\ LET errs == Errs(ev, s') IN
              IF errs # {} THEN Flag(l, SetToSeq(errs), [size |-> Len(s')]) /\ sync' = FALSE ELSE sync' = TRUE
TSpec == TInit /\ [][TNext]_<<l, sync, s, nc, flav>>
Accepted == WriteVerdict
=============================================================================
