----------------------------- MODULE ListsTrace -----------------------------
(***************************************************************************)
(* Trace specification for C01.  Every recorded list operation is replayed *)
(* through the action of Lists.tla; the observations logged by the driver  *)
(* (forward/backward traversal through the public iterators, size,         *)
(* emptiness, membership, is_linked, raw next/prev of every live cell) are *)
(* compared with the values the reference cycles give.                     *)
(***************************************************************************)
EXTENDS Lists, Judge

VARIABLES l, sync
tvars == <<l, sync>>

Rev(s) == [i \in 1..Len(s) |-> s[Len(s) + 1 - i]]
B2I(b) == IF b THEN 1 ELSE 0
NC == nh' + nn'
LiveP(c) == st'[c] = "live"

Exp ==
   [nx |-> [i \in 1..NC |-> IF LiveP(i-1) THEN Succ(cyc', i-1) ELSE -2],
    pv |-> [i \in 1..NC |-> IF LiveP(i-1) THEN Pred(cyc', i-1) ELSE -2],
    linked |-> [i \in 1..NC |-> IF LiveP(i-1) THEN B2I(Linked(cyc', i-1)) ELSE -1],
    fwd |-> [i \in 1..nh' |-> IF LiveP(i-1) THEN ListOf(cyc', i-1) ELSE <<>>],
    bwd |-> [i \in 1..nh' |-> IF LiveP(i-1) THEN Rev(ListOf(cyc', i-1)) ELSE <<>>],
    size |-> [i \in 1..nh' |-> IF LiveP(i-1) THEN Len(ListOf(cyc', i-1)) ELSE -1],
    rsize |-> [i \in 1..nh' |-> IF LiveP(i-1) THEN Len(ListOf(cyc', i-1)) ELSE -1],
    empty |-> [i \in 1..nh' |-> IF LiveP(i-1) THEN B2I(ListOf(cyc', i-1) = <<>>) ELSE -1],
    correct |-> [i \in 1..nh' |-> IF LiveP(i-1) THEN 1 ELSE -1],
    \* the entry-based iteration macros / decrementing iterators, first and last entry, bounded cycle checks (dlist_check, circular_size)
    efwd |-> [i \in 1..nh' |-> IF LiveP(i-1) THEN ListOf(cyc', i-1) ELSE <<>>],
    esafe |-> [i \in 1..nh' |-> IF LiveP(i-1) THEN ListOf(cyc', i-1) ELSE <<>>],
    ebwd |-> [i \in 1..nh' |-> IF LiveP(i-1) THEN Rev(ListOf(cyc', i-1)) ELSE <<>>],
    first |-> [i \in 1..nh' |-> IF LiveP(i-1) /\ ListOf(cyc', i-1) # <<>> THEN Head(ListOf(cyc', i-1)) ELSE -1],
    last |-> [i \in 1..nh' |-> IF LiveP(i-1) /\ ListOf(cyc', i-1) # <<>> THEN ListOf(cyc', i-1)[Len(ListOf(cyc', i-1))] ELSE -1],
    first2 |-> [i \in 1..nh' |-> IF LiveP(i-1) /\ ListOf(cyc', i-1) # <<>> THEN Head(ListOf(cyc', i-1)) ELSE -1],
    last2 |-> [i \in 1..nh' |-> IF LiveP(i-1) /\ ListOf(cyc', i-1) # <<>> THEN ListOf(cyc', i-1)[Len(ListOf(cyc', i-1))] ELSE -1],
    chk |-> [i \in 1..nh' |-> IF LiveP(i-1) THEN Len(ListOf(cyc', i-1)) ELSE -1],
    chkr |-> [i \in 1..nh' |-> IF LiveP(i-1) THEN Len(ListOf(cyc', i-1)) ELSE -1],
    \* every item is also a member of a second list through a second link field of the same type: all items (C), the live ones (C++), by id
    all2 |-> SelectSeq([k \in 1..nn' |-> nh' + k - 1], LAMBDA c : flavor' = "c" \/ LiveP(c))]
   @@ (IF flavor' = "c"
       THEN [inm |-> [i \in 1..nh' |->
                IF LiveP(i-1)
                THEN LET ns == SelectSeq([k \in 1..nn' |-> nh' + k - 1], LAMBDA c : LiveP(c))
                     IN [k \in 1..Len(ns) |-> IF ns[k] \in Elems(ListOf(cyc', i-1)) THEN ns[k] ELSE -1]
                ELSE <<>>]]
       ELSE [inm |-> [i \in 1..nh' |-> <<>>]])

JudgeEv(ev) ==
   LET exp == Exp
       mm == Mismatch(ev, exp)
   IN IF mm # {} THEN Flag(l, SetToSeq(mm), exp) /\ sync' = FALSE ELSE sync' = TRUE

Step(ev) ==
   CASE ev.e = "MoveNext" -> MoveNext(ev.a, ev.b)
     [] ev.e = "MovePrev" -> MovePrev(ev.a, ev.b)
     [] ev.e = "Unlink" -> Unlink(ev.a)
     [] ev.e = "PopFront" -> PopFront(ev.a)
     [] ev.e = "PopBack" -> PopBack(ev.a)
     [] ev.e = "Clear" -> Clear(ev.a)
     [] ev.e = "Splice" -> Splice(ev.a, ev.b)
     [] ev.e = "DestroyNode" -> DestroyNode(ev.a)
     [] ev.e = "DestroyList" -> DestroyList(ev.a)
     [] ev.e = "Create" -> Create(ev.a)
     [] ev.e = "CInit" -> CInit(ev.a)
     [] ev.e = "AddNext" -> AddNext(ev.a, ev.b)
     [] ev.e = "AddPrev" -> AddPrev(ev.a, ev.b)
     [] ev.e = "Del" -> Del(ev.a)
     [] ev.e = "DelInit" -> DelInit(ev.a)
     [] ev.e = "Move" -> Move(ev.a, ev.b)
     [] ev.e = "MoveTail" -> MoveTail(ev.a, ev.b)
     [] ev.e = "AddSorted" -> AddSorted(ev.a, ev.b)
     [] ev.e = "InsertInstead" -> InsertInstead(ev.a, ev.b)

TInit == /\ JInit /\ l = 1 /\ sync = FALSE
         /\ flavor = "c" /\ nh = 1 /\ nn = 1 /\ cyc = {<<0>>, <<1>>}
         /\ st = [c \in 0..1 |-> "live"]
         /\ mem = [n |-> [c \in 0..1 |-> c], p |-> [c \in 0..1 |-> c]]

TNext ==
   /\ l <= NTrace /\ l' = l + 1 /\ Consumed(l)
   /\ LET ev == TraceLog[l] IN
      IF ev.e = "Reset" THEN
           /\ flavor' = ev.flavor /\ nh' = ev.nh /\ nn' = ev.nn
           /\ cyc' = {<<c>> : c \in 0..(ev.nh + ev.nn - 1)}
           /\ st' = [c \in 0..(ev.nh + ev.nn - 1) |-> "live"]
           /\ mem' = [n |-> [c \in 0..(ev.nh + ev.nn - 1) |-> c], p |-> [c \in 0..(ev.nh + ev.nn - 1) |-> c]]
           /\ JudgeEv(ev)
      ELSE IF ~sync THEN UNCHANGED <<vars, sync>>
      ELSE IF ev.e = "Fault" THEN
           Flag(l, <<"fault">>, [kind |-> ev.kind, where |-> ev.where]) /\ sync' = FALSE /\ UNCHANGED vars
      ELSE Step(ev) /\ JudgeEv(ev)

TSpec == TInit /\ [][TNext]_<<vars, tvars>>
Accepted == WriteVerdict
=============================================================================
