CONSTANTS Vals = {1, 2}
          MaxSize = 3
          Caps = {1, 2, 3}
          Keeps = {FALSE, TRUE}
SPECIFICATION Spec
CONSTRAINT SizeBound
INVARIANTS CapInv Laws
CHECK_DEADLOCK FALSE
