CONSTANTS Ns = {1, 2, 3, 4}
          Vals = {1, 2}
          MaxArg = 9
SPECIFICATION Spec
INVARIANTS TypeOK IndexInv CounterInv
