---------------------------- MODULE FixedStrTrace ----------------------------
EXTENDS FixedStr, Judge
VARIABLES l, sync
Guard16 == [i \in 1..16 |-> 165]
Step(ev) ==
   CASE ev.op = "CtorDefault" -> CtorDefault
     [] ev.op = "CtorCStr" -> CtorCStr(ev.src)
     [] ev.op = "CtorBuf" -> CtorBuf(ev.src, ev.n)
     [] ev.op = "PushBack" -> PushBack(ev.n)
     [] ev.op = "PlusEq" -> PlusEq(ev.n)
     [] ev.op = "Clear" -> Clear
     [] ev.op = "Copy" -> UNCHANGED vars                  \* implicit copy: the copy is observed, the original unchanged
     [] ev.op = "Destroy" -> Destroy
Errs(ev) ==
   IF ~ex' THEN {}
   ELSE (IF ev.size # Len(s') THEN {"size"} ELSE {})
        \cup (IF ev.size > cap THEN {"capacity_exceeded"} ELSE {})
        \cup (IF ev.room # cap - Len(s') THEN {"room"} ELSE {})
        \cup (IF ev.range # s' THEN {"contents"} ELSE {})
        \cup (IF ev.cstr # UpToNul(s') THEN {"c_str"} ELSE {})
        \cup (IF ev.gl # Guard16 \/ ev.gr # Guard16 THEN {"guard"} ELSE {})
TInit == JInit /\ l = 1 /\ sync = FALSE /\ cap = 1 /\ ex = FALSE /\ s = <<>>
TNext ==
   /\ l <= NTrace /\ l' = l + 1 /\ Consumed(l)
   /\ LET ev == TraceLog[l] IN
      IF ev.e = "Reset" THEN cap' = ev.cap /\ ex' = FALSE /\ s' = <<>> /\ sync' = TRUE
      ELSE IF ~sync THEN UNCHANGED <<vars, sync>>
      ELSE IF ev.e = "Fault" THEN Flag(l, <<"fault">>, [kind |-> ev.kind, where |-> ev.where]) /\ sync' = FALSE /\ UNCHANGED vars
      ELSE /\ Step(ev)
           /\ LET errs == Errs(ev) IN
              IF errs # {} THEN Flag(l, SetToSeq(errs), [size |-> Len(s'), contents |-> s']) /\ sync' = FALSE ELSE sync' = TRUE
TSpec == TInit /\ [][TNext]_<<vars, l, sync>>
Accepted == WriteVerdict
=============================================================================
