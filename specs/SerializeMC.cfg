SPECIFICATION Spec
INVARIANTS RoundTrip Prefixes VecLayout
CHECK_DEADLOCK FALSE
