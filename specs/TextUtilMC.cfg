CONSTANTS Alphabet = {32, 97, 98, 34, 47, 46, 10}
          MaxLen = 4
SPECIFICATION Spec
INVARIANTS TokensOK TrimOK ReplaceOK ArgvOK PathOK
CHECK_DEADLOCK FALSE
