----------------------------- MODULE SysSyncMC -----------------------------
EXTENDS SysSync
\* wait / wake: two waiters (one prioritised), two wakers
ProgWake == {[t \in 1..4 |-> CASE t = 1 -> <<<<"wait", 0>>>>
                                [] t = 2 -> <<<<"wait", 1>>>>
                                [] t = 3 -> <<<<"unwait_one", 7>>>>
                                [] t = 4 -> <<<<"unwait_one", 8>>>>],
             [t \in 1..4 |-> CASE t = 1 -> <<<<"wait", 0>>>>
                                [] t = 2 -> <<<<"wait", 0>>>>
                                [] t = 3 -> <<<<"unwait_all", 5>>>>
                                [] t = 4 -> <<<<"unwait_one", 6>>, <<"unwait_one", 6>>>>]}
\* a waiter that waits twice (its event is destroyed and re-created) against two wakers
ProgRewait == {[t \in 1..3 |-> CASE t = 1 -> <<<<"wait", 0>>, <<"wait", 0>>>>
                                  [] t = 2 -> <<<<"unwait_one", 1>>, <<"unwait_one", 2>>>>
                                  [] t = 3 -> <<<<"unwait_all", 3>>>>]}
\* system lock: nesting, save/restore while others compete
ProgLock == {[t \in 1..3 |-> CASE t = 1 -> <<<<"lock">>, <<"lock">>, <<"unlock">>, <<"unlock">>>>
                                [] t = 2 -> <<<<"lock">>, <<"lock">>, <<"save">>, <<"lock">>, <<"unlock">>, <<"restore">>, <<"unlock">>, <<"unlock">>>>
                                [] t = 3 -> <<<<"lock">>, <<"unlock">>, <<"lock">>, <<"unlock">>>>]}
\* safe_queue: two producers, one consumer
ProgQueue == {[t \in 1..3 |-> CASE t = 1 -> <<<<"push", 11>>, <<"push", 12>>>>
                                 [] t = 2 -> <<<<"push", 21>>, <<"push", 22>>>>
                                 [] t = 3 -> <<<<"pop">>, <<"pop">>, <<"pop">>, <<"pop">>>>]}
\* delegate waiters next to a thread waiter: 11 wakes the next waiter from inside its callback, 12 does not; woken by unwait_all
\* and by two unwait_one calls in any interleaving with the enqueuing
ProgDeleg == {[t \in 1..3 |-> CASE t = 1 -> <<<<"wait", 0>>>>
                                 [] t = 2 -> <<<<"denq", 11, TRUE>>, <<"denq", 12, FALSE>>>>
                                 [] t = 3 -> <<<<"unwait_all", 5>>, <<"unwait_one", 6>>>>],
              [t \in 1..3 |-> CASE t = 1 -> <<<<"denq", 11, TRUE>>, <<"denq", 12, TRUE>>, <<"denq", 13, FALSE>>>>
                                 [] t = 2 -> <<<<"wait", 0>>>>
                                 [] t = 3 -> <<<<"unwait_all", 5>>, <<"unwait_all", 6>>>>]}
D3 == {11, 12, 13}
NoD == {}
T4 == 1..4
T3 == 1..3
\* every unlinked waiter eventually resumes (no lost wake-up)
NoLostWakeup == \A w \in Threads \cup Delegates : (woken[w] # NONE) ~> (resumed[w] # -1 \/ alive[w] = FALSE)
\* longest waiting first, unless prioritised: checked as an action property on u_unlink steps
WakeOrderOK == [][\A w \in Threads \cup Delegates : (woken'[w] # woken[w] /\ woken'[w] # NONE) => (wq # <<>> /\ w = Head(wq))]_vars
\* per-producer order of the safe_queue
PerProducerOrder ==
   \A i, j \in 1..Len(popped) : i < j =>
      \A a, b \in 1..Len(pushed) : (pushed[a][2] = popped[i] /\ pushed[b][2] = popped[j] /\ pushed[a][1] = pushed[b][1]) => a < b
=============================================================================
