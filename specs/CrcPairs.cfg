CONSTANTS Seeds = {0}
          Alphabet = {0}
          MaxLen = 0
SPECIFICATION PairSpec
INVARIANTS AllPairs
CHECK_DEADLOCK FALSE
