CONSTANTS NNs = {1}
SPECIFICATION TSpec
POSTCONDITION Accepted
CHECK_DEADLOCK FALSE
