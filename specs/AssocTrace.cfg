CONSTANTS Keys = {1}
          ValsA = {0}
SPECIFICATION TSpec
POSTCONDITION Accepted
CHECK_DEADLOCK FALSE
