---------------------------- MODULE SerializeMC ----------------------------
(***************************************************************************)
(* Laws of the wire format over a generated family of types nested to      *)
(* depth 3 with tiny leaf domains: round trip with exact consumption       *)
(* (so concatenated values decode in sequence) and Short on every proper   *)
(* prefix.                                                                 *)
(***************************************************************************)
EXTENDS Serialize
VARIABLES t, v
S1 == [k |-> "scalar", w |-> 1]
S2 == [k |-> "scalar", w |-> 2]
STR == [k |-> "str"]
B == {0, 255}
\* values of a type, small domains
RECURSIVE Vals(_, _)
SeqsUpTo(S, n) == UNION {[1..k -> S] : k \in 0..n}
Vals(ty, d) ==
   CASE ty.k = "scalar" -> [1..ty.w -> B]
     [] ty.k = "str" -> SeqsUpTo({0, 97}, 2)
     [] ty.k = "vec" -> SeqsUpTo(Vals(ty.t, d), IF d >= 2 THEN 1 ELSE 2)
     [] ty.k = "pair" -> {<<x, y>> : x \in Vals(ty.a, d), y \in Vals(ty.b, d)}
     [] ty.k \in {"tuple", "struct"} -> IF Len(ty.ts) = 2 THEN {<<x, y>> : x \in Vals(ty.ts[1], d), y \in Vals(ty.ts[2], d)}
                                       ELSE {<<x>> : x \in Vals(ty.ts[1], d)}
     [] ty.k = "map" -> {<<>>} \cup {<<<<x, y>>>> : x \in Vals(ty.a, d), y \in Vals(ty.b, d)}
Leaf == {S1, S2, STR}
L1 == Leaf \cup {[k |-> "vec", t |-> x] : x \in Leaf} \cup {[k |-> "pair", a |-> x, b |-> y] : x \in Leaf, y \in Leaf}
         \cup {[k |-> "struct", ts |-> <<x, y>>] : x \in {S1, STR}, y \in {S2, STR}} \cup {[k |-> "map", a |-> x, b |-> y] : x \in {S1, STR}, y \in {S1, STR}}
L2 == L1 \cup {[k |-> "vec", t |-> x] : x \in L1} \cup {[k |-> "tuple", ts |-> <<x, S1>>] : x \in L1} \cup {[k |-> "map", a |-> S1, b |-> x] : x \in L1}
Init == t \in L2 /\ v \in Vals(t, IF t \in L1 THEN 1 ELSE 2)
Next == UNCHANGED <<t, v>>
Spec == Init /\ [][Next]_<<t, v>>
RoundTrip == \A tail \in {<<>>, <<7>>, <<1, 0, 9>>} :
                Dec(t, Enc(t, v) \o tail) = [ok |-> TRUE, val |-> v, rest |-> tail]
Prefixes == \A n \in 0..(Len(Enc(t, v)) - 1) : ~Dec(t, SubSeq(Enc(t, v), 1, n)).ok
VecLayout == t.k = "vec" => Enc(t, v) = Count16(Len(v)) \o EncAll(t.t, v, 1)
=============================================================================
