CONSTANTS NTs = {2}
          MaxNow = 3
          Starts = {0}
          Intervals = {1, 2}
          Steps = {0, 2}
          Effects <- EffectsG
SPECIFICATION Spec
CONSTRAINT TimeBound
INVARIANTS ExecRefines ListSorted
