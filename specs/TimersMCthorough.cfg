CONSTANTS NTs = {3}
          MaxNow = 3
          Starts = {0}
          Intervals = {1, 2}
          Steps = {0, 2}
          Effects <- EffectsT3
SPECIFICATION Spec
CONSTRAINT TimeBound
INVARIANTS ExecRefines ListSorted
PROPERTIES NothingDueAfterExec
