--------------------------- MODULE SerializeTrace ---------------------------
(***************************************************************************)
(* Trace specification for C09: the bytes produced are Enc(type, value),   *)
(* decoding returns the value and consumes exactly those bytes, two        *)
(* concatenated encodings decode in sequence.                              *)
(***************************************************************************)
EXTENDS Serialize, Judge
VARIABLES l, sync
Errs(ev) ==
   LET want == Enc(ev.type, ev.val) IN
   (IF ev.bytes # want THEN {"wire_format"} ELSE {})
   \cup (IF ev.dec # ev.val THEN {"round_trip"} ELSE {})
   \cup (IF ev.consumed # Len(ev.bytes) THEN {"consumed"} ELSE {})
   \cup (IF ev.cdec1 # ev.val \/ ev.cdec2 # ev.val2 THEN {"concatenation"} ELSE {})
   \cup (IF ev.cconsumed # ev.clen THEN {"concatenation_consumed"} ELSE {})
TInit == JInit /\ l = 1 /\ sync = TRUE
TNext ==
   /\ l <= NTrace /\ l' = l + 1 /\ Consumed(l) /\ sync' = TRUE
   /\ LET ev == TraceLog[l] IN
      IF ev.e = "Reset" THEN TRUE
      ELSE IF ev.e = "Fault" THEN Flag(l, <<"fault">>, [kind |-> ev.kind, where |-> ev.where])
      ELSE IF ev.e = "NoType" THEN TRUE
      ELSE LET errs == Errs(ev) IN IF errs # {} THEN Flag(l, SetToSeq(errs), [bytes |-> Enc(ev.type, ev.val)]) ELSE TRUE
TSpec == TInit /\ [][TNext]_<<l, sync>>
Accepted == WriteVerdict
=============================================================================
