"""Shared machinery of /verif/bin/vcheck (python3 stdlib only).

TLC is the only judge: nothing in this file evaluates a property.  It builds
drivers from /repo's working tree, gets behaviours out of TLC, runs drivers,
hands recorded traces to TLC trace specifications, and classifies the verdict
records TLC wrote against known_findings.json.
"""
import json, os, random, re, shutil, subprocess, sys, time, collections

VERIF = os.path.dirname(os.path.dirname(os.path.abspath(__file__)))
REPO = os.environ.get("VERIF_REPO", "/repo")
SPECS = os.path.join(VERIF, "specs")
HARNESS = os.path.join(VERIF, "harness")
# the registered commands never set these two; bin/seedtest points them at a scratch worktree and a scratch evidence directory
EVIDENCE = os.environ.get("VERIF_EVIDENCE", os.path.join(VERIF, "evidence"))
TLA_CP = "/opt/veriftools/tla/tla2tools.jar:/opt/veriftools/tla/CommunityModules-deps.jar"
NCPU = os.cpu_count() or 4


class InfraError(Exception):
    pass


# The second build configuration of the drivers and of the library sources they compile: what an embedded target of this library
# typically uses and what the default x86 build never shows - plain char unsigned (ARM, PowerPC, RISC-V ABIs) and optimisation
# for size (__OPTIMIZE_SIZE__ defined).  The specifications do not depend on the configuration; the same traces must be accepted.
ALT_FLAGS = ["-Os", "-funsigned-char"]


def subset_executions(script, seed, frac, reset_prefix="R", always=()):
    """whole executions of a script (an execution starts with a reset line), about `frac` of them, chosen by a private generator;
    executions containing one of the words in `always` are kept in any case"""
    rng = random.Random(seed * 7919 + 13)
    out, cur = [], []
    def close():
        if cur and (rng.random() < frac or any(w in l for l in cur for w in always)):
            out.extend(cur)
    for l in script:
        if l.split(" ", 1)[0] == reset_prefix:
            close(); cur = [l]
        else:
            cur.append(l)
    close()
    if not out:
        out = list(script)
    return out


def is_alt(d):
    """replay records of the second build configuration carry driver names ending in @alt"""
    return str(d.get("driver", "")).endswith("@alt")


def cov_flags():
    """bin/covaudit only: coverage instrumentation for the library sources that checks compile with their own compiler commands"""
    return ["--coverage", "-fprofile-update=atomic"] if os.environ.get("VERIF_COV") else []


def opt_flags(alt=False):
    return list(ALT_FLAGS) if alt else ["-O1"]


_T0 = time.time()


def log(*a):
    print("[vcheck %5.1fs]" % (time.time() - _T0), *a, file=sys.stderr, flush=True)


# --------------------------------------------------------------------------
# TLA+ value parser (for -dump dot labels and PrintT output)
# --------------------------------------------------------------------------
class _P:
    def __init__(self, s):
        self.s = s
        self.i = 0

    def ws(self):
        while self.i < len(self.s) and self.s[self.i] in " \n\t\r":
            self.i += 1

    def peek(self, k=1):
        return self.s[self.i:self.i + k]

    def eat(self, t):
        self.ws()
        if self.s.startswith(t, self.i):
            self.i += len(t)
            return True
        return False

    def expect(self, t):
        if not self.eat(t):
            raise ValueError("expected %r at %d in %r" % (t, self.i, self.s[:200]))

    def value(self):
        self.ws()
        v = self.atom()
        # function literal  a :> b @@ c :> d
        self.ws()
        if self.peek(2) == ":>":
            d = {}
            k = v
            while True:
                self.expect(":>")
                val = self.atom_or_paren()
                d[_key(k)] = val
                if self.eat("@@"):
                    k = self.atom()
                    continue
                break
            return d
        return v

    def atom_or_paren(self):
        self.ws()
        return self.atom()

    def atom(self):
        self.ws()
        c = self.peek()
        if self.peek(2) == "<<":
            self.i += 2
            out = []
            if self.eat(">>"):
                return out
            while True:
                out.append(self.value())
                if self.eat(">>"):
                    return out
                self.expect(",")
        if c == "{":
            self.i += 1
            out = []
            if self.eat("}"):
                return out
            while True:
                out.append(self.value())
                if self.eat("}"):
                    return out
                self.expect(",")
        if c == "[":
            self.i += 1
            d = {}
            if self.eat("]"):
                return d
            while True:
                self.ws()
                m = re.compile(r"[A-Za-z_][A-Za-z0-9_]*").match(self.s, self.i)
                k = m.group(0)
                self.i = m.end()
                self.expect("|->")
                d[k] = self.value()
                if self.eat("]"):
                    return d
                self.expect(",")
        if c == "(":
            self.i += 1
            v = self.value()
            self.expect(")")
            return v
        if c == '"':
            j = self.i + 1
            out = []
            while self.s[j] != '"':
                if self.s[j] == "\\":
                    j += 1
                out.append(self.s[j])
                j += 1
            self.i = j + 1
            return "".join(out)
        m = re.compile(r"-?\d+").match(self.s, self.i)
        if m:
            self.i = m.end()
            v = int(m.group(0))
            if self.s.startswith("..", self.i):
                m2 = re.compile(r"-?\d+").match(self.s, self.i + 2)
                self.i = m2.end()
                return list(range(v, int(m2.group(0)) + 1))
            return v
        m = re.compile(r"[A-Za-z_][A-Za-z0-9_]*").match(self.s, self.i)
        if m:
            self.i = m.end()
            w = m.group(0)
            if w == "TRUE":
                return True
            if w == "FALSE":
                return False
            return w
        raise ValueError("cannot parse at %d: %r" % (self.i, self.s[self.i:self.i + 40]))


def _key(k):
    return k if isinstance(k, (int, str, bool)) else json.dumps(k)


def parse_tla(s):
    p = _P(s)
    v = p.value()
    p.ws()
    if p.i != len(p.s):
        raise ValueError("trailing input in %r" % s[:200])
    return v


def parse_label(label):
    """'Putc(65)' -> ('Putc',[65]); 'Getc' -> ('Getc',[])"""
    m = re.match(r"^([A-Za-z_][A-Za-z0-9_]*)(\((.*)\))?$", label, re.S)
    if not m:
        raise ValueError("label %r" % label)
    name = m.group(1)
    if m.group(3) is None:
        return name, []
    p = _P(m.group(3))
    args = []
    while True:
        args.append(p.value())
        if not p.eat(","):
            break
    return name, args


def parse_state(label):
    """'/\\ a = 1\n/\\ b = <<>>' -> dict"""
    d = {}
    txt = label.replace("\\n", "\n").replace('\\"', '"').replace("\\\\", "\\")
    for part in re.split(r"(?:^|\n)/\\ ", txt):
        part = part.strip()
        if not part:
            continue
        k, v = part.split(" = ", 1)
        d[k.strip()] = parse_tla(v)
    return d


class Graph:
    def __init__(self):
        self.init = []
        self.state = {}          # node id -> raw label
        self.out = collections.defaultdict(list)   # node -> [(label, dst)]
        self.nedges = 0


def parse_dot(path):
    g = Graph()
    node_re = re.compile(r'^(-?\d+) \[label="((?:[^"\\]|\\.)*)"(.*)\]')
    edge_re = re.compile(r'^(-?\d+) -> (-?\d+) \[label="((?:[^"\\]|\\.)*)"')
    with open(path) as f:
        for line in f:
            m = edge_re.match(line)
            if m:
                g.out[m.group(1)].append((m.group(3).replace('\\"', '"'), m.group(2)))
                g.nedges += 1
                continue
            m = node_re.match(line)
            if m:
                g.state[m.group(1)] = m.group(2)
                if "style = filled" in m.group(3):
                    g.init.append(m.group(1))
    return g


def edge_cover_walks(g, rng, max_len=400, init_filter=None):
    """Edge-covering walks.  Each walk starts in an initial state and is a list
    of (label, src, dst).  Every edge reachable from an initial state is in at
    least one walk.  A walk follows uncovered edges greedily (with one step of
    look-ahead); when it is stuck a new walk is started along the BFS tree to
    some state that still has uncovered out-edges."""
    inits = [n for n in g.init if init_filter is None or init_filter(n)]
    # BFS tree from the initial states
    parent = {}
    dq = collections.deque()
    for n in inits:
        parent[n] = None
        dq.append(n)
    order = []
    while dq:
        n = dq.popleft()
        order.append(n)
        for idx, (lab, dst) in enumerate(g.out.get(n, [])):
            if dst not in parent:
                parent[dst] = (n, idx)
                dq.append(dst)
    remaining = {n: list(range(len(g.out.get(n, [])))) for n in order}
    for n in order:
        rng.shuffle(remaining[n])
    total = sum(len(v) for v in remaining.values())
    ncov = 0
    walks = []
    todo = [n for n in order if remaining[n]]
    todo.reverse()            # deepest first: their tree paths cover shallow edges on the way
    def take(n, idx, walk):
        lab, dst = g.out[n][idx]
        walk.append((lab, n, dst))
        return dst
    while todo:
        n = todo[-1]
        if not remaining[n]:
            todo.pop()
            continue
        path = []
        cur = n
        while parent[cur] is not None:
            pn, pidx = parent[cur]
            path.append((pn, pidx))
            cur = pn
        path.reverse()
        walk = []
        for (pn, pidx) in path:
            if pidx in remaining[pn]:
                remaining[pn].remove(pidx); ncov += 1
            take(pn, pidx, walk)
        cur = n
        while len(walk) < max_len:
            if remaining[cur]:
                idx = remaining[cur].pop(); ncov += 1
                cur = take(cur, idx, walk)
                continue
            # one step of look-ahead
            nxt = None
            for idx, (lab, dst) in enumerate(g.out.get(cur, [])):
                if remaining.get(dst):
                    nxt = idx
                    break
            if nxt is None:
                break
            cur = take(cur, nxt, walk)
        walks.append(walk)
    return walks, ncov, total


# --------------------------------------------------------------------------
class TLCResult:
    def __init__(self):
        self.ok = False
        self.generated = 0
        self.distinct = 0
        self.depth = 0
        self.coverage = {}      # action -> (taken distinct, generated)
        self.violation = None   # text
        self.out = ""
        self.rc = None
        self.wall = 0.0


def _java(extra=()):
    return ["java", "-XX:+UseParallelGC"] + list(extra) + ["-cp", TLA_CP, "tlc2.TLC"]


class Ctx:
    def __init__(self, pid, tier, seed, keep_replays=False):
        self.pid = pid
        self.tier = tier
        self.seed = seed
        self.rng = random.Random(seed)
        self.t0 = time.time()
        self.work = os.path.join(VERIF, "build", pid + "." + str(os.getpid()))
        self.replay_dir = os.path.join(EVIDENCE, "replay")
        self.models = []          # TLCResult summaries
        self.bad = []             # verdict records (dicts) from judges
        self.drift = []           # model drift records (never alarms)
        self.events_judged = 0
        self.traces_validated = 0
        self.samples = []
        self.assumptions = []
        self.extra = {}
        self.faults = 0
        self.known = load_known(pid)
        self.thorough = tier == "thorough"
        shutil.rmtree(self.work, ignore_errors=True)
        os.makedirs(self.work)
        os.makedirs(self.replay_dir, exist_ok=True)
        import glob
        for f in ([] if keep_replays else glob.glob(os.path.join(self.replay_dir, "%s_%s_*.json" % (pid, tier)))):
            os.remove(f)

    # ---- shell ----
    def sh(self, cmd, timeout=600, env=None, cwd=None, check=True, stdin=None):
        e = dict(os.environ)
        if env:
            e.update(env)
        try:
            p = subprocess.run(cmd, cwd=cwd, env=e, timeout=timeout, input=stdin,
                               stdout=subprocess.PIPE, stderr=subprocess.PIPE)
        except subprocess.TimeoutExpired as ex:
            if check:
                raise InfraError("timeout: %s" % " ".join(cmd[:6]))
            return 124, (ex.stdout or b"").decode("utf8", "replace"), (ex.stderr or b"").decode("utf8", "replace")
        out = p.stdout.decode("utf8", "replace")
        err = p.stderr.decode("utf8", "replace")
        if check and p.returncode != 0:
            raise InfraError("command failed (%d): %s\n%s\n%s" % (p.returncode, " ".join(cmd[:12]), out[-3000:], err[-3000:]))
        return p.returncode, out, err

    # ---- build ----
    def cxx(self, out, srcs, flags=(), san="asan", std="-std=gnu++20", cc=None, libs=(), objs=(), alt=False):
        """Compile a driver from harness sources + /repo sources (current working tree).
        alt: the second build configuration (ALT_FLAGS: optimised for size, plain char unsigned as on ARM / PowerPC / RISC-V)."""
        sanflags = {"asan": ["-fsanitize=address", "-fno-omit-frame-pointer"],
                    "asan+ubsan": ["-fsanitize=address,undefined", "-fno-sanitize-recover=undefined", "-fno-omit-frame-pointer"],
                    "tsan": ["-fsanitize=thread"],
                    None: []}[san]
        outp = os.path.join(self.work, out)
        base = ["-g"] + opt_flags(alt) + ["-DIGRIS_VERIF=1", "-I" + REPO, "-I" + HARNESS, "-w"] + sanflags + list(flags)
        cov = bool(os.environ.get("VERIF_COV")) and (cc or "g++") in ("g++", "gcc")     # bin/covaudit only: line coverage of the drivers
        if cov:
            base += ["--coverage", "-fprofile-update=atomic"]
        objfiles = list(objs)
        jobs = []
        for i, s in enumerate(srcs):
            s = s if os.path.isabs(s) else os.path.join(HARNESS, s)
            o = os.path.join(self.work, "%s.%d.o" % (out, i))
            if s.endswith(".c"):
                cmd = [cc or "gcc", "-std=gnu11"] + base + ["-c", s, "-o", o]
            else:
                cmd = [cc or "g++", std] + base + ["-c", s, "-o", o]
            jobs.append((cmd, subprocess.Popen(cmd, stdout=subprocess.PIPE, stderr=subprocess.STDOUT)))
            objfiles.append(o)
        for cmd, p in jobs:
            o, _ = p.communicate(timeout=900)
            if p.returncode != 0:
                raise InfraError("compile failed: %s\n%s" % (" ".join(cmd), o.decode("utf8", "replace")[-4000:]))
        link = [("g++" if (cc or "g++") in ("g++", "gcc") else "clang++")] + sanflags + objfiles + ["-o", outp, "-lpthread"] + list(libs) + (["--coverage"] if cov else [])
        self.sh(link, timeout=300)
        return outp

    # ---- TLC model checking ----
    def tlc(self, module, cfg, workers=None, timeout=900, dump=None, simulate=None,
            depth=None, env=None, xmx="6g", extra=(), coverage=True, allow_violation=False,
            deadlock=True):
        """Run TLC on specs/<module>.tla with specs/<cfg>.  Returns TLCResult."""
        workers = workers or min(NCPU, 8)
        meta = os.path.join(self.work, "meta.%d" % len(os.listdir(self.work)))
        cmd = _java(["-Xmx" + xmx, "-Xss512m"]) + ["-workers", str(workers), "-metadir", meta,
                                        "-config", cfg, "-noGenerateSpecTE"]
        if coverage:
            cmd += ["-coverage", "1"]
        if dump:
            cmd += ["-dump", "dot,actionlabels", dump]
        if simulate:
            cmd += ["-simulate", "num=%d" % simulate]
            if depth:
                cmd += ["-depth", str(depth)]
        if not deadlock:
            cmd += ["-deadlock"]
        cmd += ["-seed", str(self.seed)] if simulate else []
        cmd += list(extra) + [module + ".tla"]
        t = time.time()
        rc, out, err = self.sh(cmd, timeout=timeout, env=env, cwd=SPECS, check=False)
        r = TLCResult()
        r.rc = rc
        r.out = out + err
        r.wall = time.time() - t
        m = re.search(r"(\d[\d,]*) states generated, (\d[\d,]*) distinct states found", out)
        if m:
            r.generated = int(m.group(1).replace(",", ""))
            r.distinct = int(m.group(2).replace(",", ""))
        m = re.search(r"The number of states generated: (\d+)", out)    # -simulate
        if m and not r.generated:
            r.generated = int(m.group(1))
        m = re.search(r"depth of the complete state graph search is (\d+)", out)
        if m:
            r.depth = int(m.group(1))
        for m in re.finditer(r"^<(\w+) line (\d+), col \d+ to line \d+, col \d+ of module (\w+)>: (\d+):(\d+)", out, re.M):
            r.coverage[m.group(1) + "@" + m.group(3) + ":" + m.group(2)] = (int(m.group(4)), int(m.group(5)))
        shutil.rmtree(meta, ignore_errors=True)
        if rc == 0:
            r.ok = True
        elif rc in (12, 13, 10, 11):    # safety / liveness / deadlock / assumption violations
            r.violation = _violation_text(out)
            if not allow_violation:
                pass
        else:
            raise InfraError("TLC failed rc=%s on %s/%s\n%s" % (rc, module, cfg, (out + err)[-4000:]))
        log("tlc %s/%s: %d distinct, %d generated, rc=%s, %.1fs" % (module, os.path.basename(cfg), r.distinct, r.generated, rc, r.wall))
        self.models.append(dict(module=module, cfg=os.path.basename(cfg), mode="simulate" if simulate else "exhaustive", states=r.distinct,
                                transitions=r.generated, depth=r.depth, ok=r.ok, wall_s=round(r.wall, 1),
                                actions_never_taken=[a for a, (d, g) in r.coverage.items() if g == 0]))
        return r

    def tlc_graph(self, module, cfg, **kw):
        dot = os.path.join(self.work, "%s.%s.dot" % (module, os.path.basename(cfg)))
        r = self.tlc(module, cfg, dump=dot, **kw)
        if not r.ok:
            return r, None
        g = parse_dot(dot + ("" if os.path.exists(dot) else ".dot"))
        os.remove(dot + ("" if os.path.exists(dot) else ".dot"))
        return r, g

    # ---- drivers ----
    def drive(self, binary, script_lines, name, timeout=900, env=None, reset_prefix="R", par=None, lines_per_proc=3000):
        """Run a driver over a script (list of lines; executions start with an
        'R' line).  The script is split on execution boundaries and run by up to
        `par` driver processes.  Returns the path of the concatenated trace."""
        starts = [i for i, l in enumerate(script_lines) if l.split(" ", 1)[0] == reset_prefix]
        if not starts:
            raise InfraError("script without executions: " + name)
        par = par or NCPU
        par = max(1, min(par, len(starts), max(1, len(script_lines) // lines_per_proc)))
        # chunk boundaries balanced by line count
        bounds = [starts[0]]
        target = len(script_lines) / par
        for st in starts[1:]:
            if st - bounds[-1] >= target and len(bounds) < par:
                bounds.append(st)
        bounds.append(len(script_lines))
        import threading
        results = [None] * (len(bounds) - 1)
        errors = []
        def work(k):
            try:
                results[k] = self._drive_one(binary, script_lines[bounds[k]:bounds[k + 1]], "%s.%d" % (name, k), timeout, env, reset_prefix)
            except Exception as ex:      # noqa
                errors.append(ex)
        ths = [threading.Thread(target=work, args=(k,)) for k in range(len(results))]
        for t in ths: t.start()
        for t in ths: t.join()
        if errors:
            raise errors[0]
        trace = os.path.join(self.work, name + ".ndjson")
        restarts = 0
        with open(trace, "wb") as out:
            for (p, g) in results:
                restarts += g
                with open(p, "rb") as f:
                    shutil.copyfileobj(f, out)
                os.remove(p)
        log("drive %s: %d script lines, %d processes, %d restarts after faults" % (name, len(script_lines), len(results), restarts))
        return trace

    def _drive_one(self, binary, script_lines, name, timeout, env, reset_prefix):
        """One driver process over one script chunk.  The driver writes one
        ndjson event per op and a final {"e":"Done"}.  If it dies, a Fault
        event is appended (kind from rc / sanitizer output) and the driver is
        restarted after the execution that died."""
        script = os.path.join(self.work, name + ".script")
        trace = os.path.join(self.work, name + ".ndjson")
        with open(script, "w") as f:
            f.write("\n".join(script_lines) + "\n")
        starts = [i for i, l in enumerate(script_lines) if l.split(" ", 1)[0] == reset_prefix]
        open(trace, "w").close()
        skip = 0
        e = {"ASAN_OPTIONS": "detect_leaks=0:abort_on_error=0:exitcode=99:allocator_may_return_null=1:detect_stack_use_after_return=0",
             "UBSAN_OPTIONS": "print_stacktrace=0:exitcode=98",
             "TSAN_OPTIONS": "exitcode=97:halt_on_error=1"}
        if env:
            e.update(env)
        guard = 0
        while True:
            part = trace + ".part"
            rc, out, err = self.sh([binary, script, part, str(skip)], timeout=timeout, env=e, check=False)
            if not os.path.exists(part):
                # the driver died before it could open its trace: during static initialisation (library code called from global
                # constructors, C18).  A sanitizer report or a fatal signal there is reported as a fault of its own (no event precedes it
                # that a trace specification could judge); anything else is an infrastructure failure.
                kind, where = _fault_kind(rc, err)
                if rc == 3 or kind == "exit":
                    raise InfraError("driver %s did not start: rc=%s %s" % (binary, rc, err[-2000:]))
                self.faults += 1
                self.bad.append({"line": 0, "clauses": ["fault"], "exp": {"kind": kind, "where": where},
                                 "event": {"e": "Fault", "kind": kind, "where": where, "rc": rc, "line": "", "reset": "", "phase": "before the first script line (static initialisation)"},
                                 "exec": [], "exec_pos": 0, "judge": "driver-startup", "driver": os.path.basename(binary)})
                os.remove(script)
                return trace, 1
            with open(part, "rb") as f:
                data = f.read()
            os.remove(part)
            lines = data.split(b"\n")
            if lines and lines[-1] == b"":
                lines.pop()
            done = bool(lines) and lines[-1].startswith(b'{"e":"Done"')
            if done:
                lines.pop()
            elif lines and not lines[-1].endswith(b"}"):
                lines.pop()     # torn line
            at_line = ""; at_reset = ""
            while not done and lines and lines[-1].startswith(b'{"e":"AtLine"'):      # (a dying driver may write the marker more than once)
                try:
                    al = json.loads(lines.pop().decode("utf8", "replace"))   # the script line that was executing, and its execution's R line
                    at_line = al["text"]; at_reset = al.get("reset", "")
                except Exception:
                    at_line = ""
            lines = [l for l in lines if not l.startswith(b'{"e":"AtLine"')]
            nexec = sum(1 for l in lines if l.startswith(b'{"e":"Reset"'))
            with open(trace, "ab") as f:
                for l in lines:
                    f.write(l + b"\n")
                if not done:
                    kind, where = _fault_kind(rc, err)
                    self.faults += 1
                    f.write(json.dumps({"e": "Fault", "kind": kind, "where": where, "rc": rc, "line": at_line, "reset": at_reset}).encode() + b"\n")
            if done:
                break
            if rc == 3:
                raise InfraError("driver %s usage/script error: %s" % (binary, err[-2000:]))
            skip += max(nexec, 1)
            guard += 1
            if skip >= len(starts):
                break
            if guard >= 12:
                # enough faults recorded from this chunk; the rest of it is not executed
                self.extra["executions_skipped_after_12_faults"] = self.extra.get("executions_skipped_after_12_faults", 0) + (len(starts) - skip)
                break
        os.remove(script)
        return trace, guard

    # ---- judging ----
    def judge(self, module, traces, shards=None, timeout=900, env=None, xmx="3g", script_of=None,
              cfg=None, label=None):
        """Let TLC validate recorded traces against trace spec <module>.  The
        trace is split on Reset boundaries into shards, one TLC process each.
        Returns list of verdict 'bad' records, each augmented with 'event'
        (the logged event) and 'exec' (list of events of that execution)."""
        if isinstance(traces, str):
            traces = [traces]
        execs = []   # list of list-of-raw-lines
        for t in traces:
            cur = None
            with open(t) as f:
                for line in f:
                    line = line.rstrip("\n")
                    if not line:
                        continue
                    if line.startswith('{"e":"Reset"') or cur is None:
                        cur = []
                        execs.append(cur)
                    cur.append(line)
        if not execs:
            if any(r.get("judge") == "driver-startup" for r in self.bad):
                return []          # every driver process died before its first script line; the startup faults are already recorded
            raise InfraError("no executions recorded for " + module)
        nev = sum(len(x) for x in execs)
        shards = shards or NCPU
        shards = max(1, min(shards, len(execs), max(1, nev // 600)))
        # balance by event count
        buckets = [[] for _ in range(shards)]
        sizes = [0] * shards
        for ex in sorted(execs, key=len, reverse=True):
            i = sizes.index(min(sizes))
            buckets[i].append(ex)
            sizes[i] += len(ex)
        procs = []
        tag = label or module
        for i, b in enumerate(buckets):
            tf = os.path.join(self.work, "%s.shard%d.ndjson" % (tag, i))
            vf = os.path.join(self.work, "%s.shard%d.verdict.json" % (tag, i))
            with open(tf, "w") as f:
                for ex in b:
                    for l in ex:
                        f.write(l + "\n")
            meta = os.path.join(self.work, "%s.jmeta%d" % (tag, i))
            cmd = _java(["-Xmx" + xmx, "-Xss512m"]) + ["-workers", "1", "-metadir", meta, "-noGenerateSpecTE",
                                                     "-config", cfg or (module + ".cfg"), module + ".tla"]
            e = dict(os.environ)
            e.update({"TRACE": tf, "VERDICT": vf})
            if env:
                e.update(env)
            p = subprocess.Popen(cmd, cwd=SPECS, env=e, stdout=subprocess.PIPE, stderr=subprocess.STDOUT)
            procs.append((p, tf, vf, meta, b))
        bad = []
        t0 = time.time()
        for p, tf, vf, meta, b in procs:
            try:
                o, _ = p.communicate(timeout=max(10, timeout - (time.time() - t0)))
            except subprocess.TimeoutExpired:
                for q in procs:
                    q[0].kill()
                raise InfraError("trace judge %s timed out" % module)
            shutil.rmtree(meta, ignore_errors=True)
            o = o.decode("utf8", "replace")
            if p.returncode != 0 or not os.path.exists(vf):
                i = o.find("Error:")
                raise InfraError("trace judge %s failed rc=%s (trace kept: %s)\n%s\n...\n%s" % (module, p.returncode, tf, o[max(0, i - 200):i + 2500], o[-1500:]))
            v = json.load(open(vf))
            flat = [l for ex in b for l in ex]
            if v["consumed"] != v["total"] or v["total"] != len(flat):
                raise InfraError("trace judge %s consumed %s of %s (file has %d)" % (module, v["consumed"], v["total"], len(flat)))
            # map lines to executions
            starts = []
            pos = 0
            for ex in b:
                starts.append(pos)
                pos += len(ex)
            for rec in v["bad"]:
                ln = rec["line"] - 1
                k = max(j for j, s in enumerate(starts) if s <= ln)
                rec["event"] = json.loads(flat[ln])
                rec["exec"] = b[k]
                rec["exec_pos"] = ln - starts[k]
                rec["judge"] = module
                bad.append(rec)
            if v.get("nbad", len(v["bad"])) > len(v["bad"]):
                self.extra["bad_truncated"] = True
            os.remove(tf); os.remove(vf)
        self.events_judged += nev
        self.traces_validated += len(execs)
        log("judge %s: %d events in %d executions, %d shards, %d rejected, %.1fs" % (module, nev, len(execs), shards, len(bad), time.time() - t0))
        if not self.samples and execs:
            ex = execs[min(len(execs) - 1, 1)]
            self.samples.append({"trace_excerpt": [json.loads(l) for l in ex[:6]]})
        return bad

    # ---- classification ----
    def report(self, bad, drift_clauses=()):
        """Split TLC's rejection records into model drift (implementation-shaped
        layer only; never an alarm) and property-level rejections."""
        for rec in bad:
            cl = rec.get("clauses") or [rec.get("clause")]
            prop = [c for c in cl if c not in drift_clauses and not str(c).startswith("impl_")]
            if not prop:
                self.drift.append(rec)
            else:
                rec["clauses"] = prop
                self.bad.append(rec)

    def finish(self, level="model_checking", rule=""):
        viol = []
        known_hits = collections.OrderedDict()
        for rec in self.bad:
            kf = match_known(self.known, rec)
            if kf is not None:
                known_hits.setdefault(kf["id"], [kf, 0])[1] += 1
            else:
                viol.append(rec)
        for kid, (kf, n) in known_hits.items():
            print("KNOWN-FINDING: property=%s %s [%s, %d rejected events]" % (self.pid, kf["what"], kid, n), flush=True)
        if os.environ.get("VERIF_DUMP"):
            with open(os.environ["VERIF_DUMP"], "w") as f:
                for rec in viol[:5000]:
                    f.write(json.dumps({"clauses": rec.get("clauses"), "event": rec["event"], "exp": rec.get("exp")}) + "\n")
        # write replay files for unlisted violations (first few distinct signatures)
        seen = set()
        nrep = 0
        for rec in viol:
            sig = (rec.get("judge"), rec["event"].get("e"), tuple(rec.get("clauses", [])))
            if sig in seen and nrep >= 1:
                continue
            seen.add(sig)
            if nrep >= 8:
                break
            nrep += 1
            path = os.path.join(self.replay_dir, "%s_%s_%d.json" % (self.pid, self.tier, nrep))
            with open(path, "w") as f:
                json.dump({"property": self.pid, "judge": rec.get("judge"), "clauses": rec.get("clauses"),
                           "expected": rec.get("exp"), "event": rec["event"], "event_index": rec.get("exec_pos"),
                           # the whole execution up to the rejected event when it is below 20 MB (replay needs its Reset), else its tail
                           "execution": (lambda ls: [json.loads(l) for l in (ls if sum(len(x) for x in ls) < 20000000 else ls[-400:])])(rec["exec"][:rec.get("exec_pos", 0) + 1]),
                           "driver": rec.get("driver"), "script": rec.get("script")}, f, indent=1)
            print("VIOLATION property=%s replay=%s" % (self.pid, path), flush=True)
            log("  clauses=%s event=%s expected=%s" % (rec.get("clauses"), json.dumps(rec["event"])[:400], json.dumps(rec.get("exp"))[:400]))
        if viol and nrep == 0:
            print("VIOLATION property=%s replay=%s" % (self.pid, "none"), flush=True)
        states = sum(m["states"] for m in self.models)
        trans = sum(m["transitions"] for m in self.models)
        ev = {
            "property_id": self.pid, "tier": self.tier, "seed": self.seed, "level": level,
            "coverage": {
                "states": max(states, 0), "transitions": max(trans, 0),
                "traces_validated_against_impl": self.traces_validated,
                "events_judged": self.events_judged,
                "samples": self.samples[:6] or ["(none)"],
                "models": self.models,
                "rule": rule,
                "impl_model_conforms": len(self.drift) == 0,
                "model_drift_records": len(self.drift),
                "faults_observed": self.faults,
                "known_findings_reproduced": {k: v[1] for k, v in known_hits.items()},
                "exhaustive": all(m["ok"] for m in self.models if m.get("mode") != "simulate") and any(m.get("mode") != "simulate" for m in self.models),
            },
            "assumptions": self.assumptions,
            "wall_s": round(time.time() - self.t0, 1),
            "violations": len(viol),
        }
        ev["coverage"].update(self.extra)
        if self.tier != "replay":
            with open(os.path.join(EVIDENCE, self.pid + ".json"), "w") as f:
                json.dump(ev, f, indent=1)
        self.cleanup()
        if self.drift:
            c = collections.Counter((r["event"].get("e"), tuple(r.get("clauses", []))) for r in self.drift)
            log("  model drift (not an alarm):", dict(list(c.items())[:8]))
            self.extra["model_drift_kinds"] = [[k[0], list(k[1]), v] for k, v in c.items()][:12]
            ev["coverage"]["model_drift_kinds"] = self.extra["model_drift_kinds"]
            with open(os.path.join(EVIDENCE, self.pid + ".json"), "w") as f:
                json.dump(ev, f, indent=1)
        log("%s %s: %d events judged, %d executions, models %s, %d violations, %d known-finding classes, %d drift, %.0fs" % (
            self.pid, self.tier, self.events_judged, self.traces_validated,
            [(m["module"], m["states"]) for m in self.models], len(viol), len(known_hits), len(self.drift), time.time() - self.t0))
        return 1 if viol else 0

    def model_violation(self, r, what):
        """A TLC-reported violation of the specification's own invariant (design
        level).  Treated as infrastructure failure: the spec is part of the
        machinery and must hold on its own."""
        raise InfraError("specification check failed (%s):\n%s" % (what, (r.violation or r.out)[-3000:]))

    def cleanup(self):
        if os.environ.get("VERIF_COV"):
            log("coverage build kept in", self.work)
            return
        shutil.rmtree(self.work, ignore_errors=True)
        try:
            os.rmdir(os.path.join(VERIF, "build"))
        except OSError:
            pass


def _violation_text(out):
    m = re.search(r"(Error: .*?)(?:\n\d+ states generated|\Z)", out, re.S)
    return m.group(1)[:6000] if m else out[-3000:]


def fault_line(d):
    """the script line a replay record's Fault event died in (as a one-element list), for replay scripts built from events"""
    e = d.get("event") or {}
    return [e["line"]] if e.get("e") == "Fault" and e.get("line") else []


def replay_fault(ctx, d, drv, judge_module, path):
    """replay of a Fault record of a check whose calls are independent: the execution's R line and the line that died"""
    e = d["event"]
    if not e.get("line"):
        raise InfraError("the replay record does not name the script line that faulted")
    t = ctx.drive(drv, [e.get("reset") or "R", e["line"]], "replay")
    ctx.report(ctx.judge(judge_module, [t]))
    return ctx.finish(rule="replay of " + path)


def _fault_kind(rc, err):
    where = ""
    m = re.search(r"ERROR: AddressSanitizer: ([\w-]+)", err)
    if m:
        w = re.search(r"#\d+ 0x[0-9a-f]+ in (\S+) (\S+)", err)
        frames = re.findall(r"#\d+ 0x[0-9a-f]+ in (\S+) (\S+)", err)
        for fn, loc in frames:
            if "/repo/" in loc or "compat" in loc or "igris" in loc:
                where = fn + " " + os.path.basename(loc)
                break
        return "asan:" + m.group(1), where
    m = re.search(r"runtime error: ([^\n]*)", err)
    if m:
        return "ubsan", m.group(1)[:160]
    m = re.search(r"WARNING: ThreadSanitizer: ([^\n(]*)", err)
    if m:
        return "tsan:" + m.group(1).strip(), ""
    if rc in (-14, 142):
        return "timeout", ""
    if rc in (-27, 155):
        return "timeout", "cpu"
    if rc in (-6, 134):
        m = re.search(r"Assertion `([^']*)' failed", err)
        return "abort", (m.group(1) if m else err[-160:].strip())
    if rc in (-11, 139):
        return "segv", ""
    if rc == 124:
        return "timeout", "driver"
    return "exit", "rc=%s %s" % (rc, err[-160:].strip())


# --------------------------------------------------------------------------
def load_known(pid):
    p = os.path.join(VERIF, "known_findings.json")
    if not os.path.exists(p):
        return []
    d = json.load(open(p))
    return [k for k in d.get("findings", []) if k.get("property") == pid and k.get("status") == "open"]


def _get(rec, path):
    cur = rec
    for part in path.split("."):
        if isinstance(cur, dict) and part in cur:
            cur = cur[part]
        else:
            return None
    return cur


def _match_value(v, cond):
    if isinstance(cond, dict):
        for op, arg in cond.items():
            if op == "in":
                if v not in arg: return False
            elif op == "ge":
                if v is None or not v >= arg: return False
            elif op == "le":
                if v is None or not v <= arg: return False
            elif op == "len_ge":
                if v is None or not len(v) >= arg: return False
            elif op == "len_le":
                if v is None or not len(v) <= arg: return False
            elif op == "contains":
                if v is None or arg not in v: return False
            elif op == "subset":
                if v is None or not set(v) <= set(arg): return False
            elif op == "ne":
                if v == arg: return False
            else:
                raise InfraError("unknown match operator " + op)
        return True
    return v == cond


def match_known(known, rec):
    """A rejection record matches a finding iff the event name, every clause
    and every match field agree.  Paths address the rejected event
    ('event.x'), TLC's expected values ('exp.x') or 'clauses'."""
    for kf in known:
        m = kf.get("match", {})
        ok = True
        for path, cond in m.items():
            if path == "clauses":
                if not set(rec.get("clauses", [])) <= set(cond):
                    ok = False
            elif not _match_value(_get(rec, path), cond):
                ok = False
            if not ok:
                break
        if ok:
            return kf
    return None
